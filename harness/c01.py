"""
C01 — library round trip: what is stored in a .mlib/.clib is what is read back.

Proof:  Molli.Props.C01 (round trip of the positional codec for ANY wire order meeting decidable side
        conditions; big-endian float32 bytes; flatten/reshape; msgpack normalisation) + the generated
        instance facts Molli.Gen.Schema (wire orders of the real serialisers and decoders, obtained by
        sentinel probing through real library files on this run).
Tie:    random molecules / ensembles are stored in real MoleculeLibrary / ConformerLibrary files (current and
        legacy encoding) in the scratch directory and read back; (input, stored bytes, raw stored tuple, read-back
        object) are compared with the model driver's `pack . ser`, `N . ser`, `deser . N . ser`.  Sessions come in
        several shapes: write-all-then-read-all batches, reads interleaved with writes inside one writing()
        session, reading()/writing() alternation on one long-lived library object, random scripts; bufsize in
        {-1, 0, 64, 10^6}.  Bundled libraries go
        through the same path (legacy files included) plus a second-generation round trip.
Oracle: model-free field-by-field comparison of the object before and after (typed-exact for discrete
        fields and attributes, single precision for float arrays, shapes and counts exact).
"""
from __future__ import annotations

import copy
import json
import shutil
from pathlib import Path

from harness import codeclib as cl
from harness import common

KNOWN_KIND = "C01:list-read-back-as-tuple"


# --------------------------------------------------------------------------------------
# random records
# --------------------------------------------------------------------------------------
def _enum_vals():
    from harness.gen import Schema
    return Schema._enum_vals()


STRS = ["", "a", "C1", "label with space", "é", "Ωmega", "日本", "😀", "x" * 40, "unknown", "0", "None"]
FLOATS = [0.0, -0.0, 0.1, 1.5, 1.0, 2.0, -3.25, 1e-40, 1e-46, 1e39, 1e300, 3.141592653589793,
          float("nan"), float("inf"), float("-inf"), 16777217.0, 0.30000001192092896]
INTS = [0, 1, -1, 2, 7, 127, 128, 255, 256, -32, -33, 65535, 65536, 2**31, 2**32, 2**63 - 1, -2**63, 2**64 - 1]


def gen_leaf(rng):
    k = rng.below(8)
    if k == 0:
        return None
    if k == 1:
        return bool(rng.below(2))
    if k == 2:
        return rng.choice(INTS)
    if k == 3:
        return rng.choice(FLOATS) if rng.chance(1, 2) else (rng.uniform() - 0.5) * 10 ** rng.range(-3, 6)
    if k == 4:
        return rng.choice(STRS)
    if k == 5:
        return bytes(rng.below(256) for _ in range(rng.choice([0, 1, 3, 33])))
    return rng.range(-50, 50)


def gen_key(rng, strict: bool):
    if strict or rng.chance(7, 10):
        return rng.choice(["k", "name", "e", "x y", "é", "", "key%d" % rng.below(5)])
    k = rng.below(5)
    if k == 0:
        return rng.range(2, 99)
    if k == 1:
        return bytes([rng.below(256)])
    if k == 2:
        return (rng.range(2, 9), "t")
    if k == 3:
        return None
    return 2.5 + rng.below(3)


def gen_tree(rng, depth: int, lists: bool, strict_keys: bool):
    if depth <= 0 or rng.chance(1, 2):
        return gen_leaf(rng)
    k = rng.below(3)
    n = rng.below(4)
    if k == 0:
        xs = [gen_tree(rng, depth - 1, lists, strict_keys) for _ in range(n)]
        return xs if (lists and rng.chance(1, 2)) else tuple(xs)
    if k == 1:
        return tuple(gen_tree(rng, depth - 1, lists, strict_keys) for _ in range(n))
    return {gen_key(rng, strict_keys): gen_tree(rng, depth - 1, lists, strict_keys) for _ in range(n)}


def gen_attrib(rng, rich: bool, lists: bool, strict_keys: bool) -> dict:
    if not rich:
        return {}
    return {gen_key(rng, strict_keys): gen_tree(rng, 3, lists, strict_keys) for _ in range(rng.range(1, 4))}


def gen_coord(rng) -> float:
    k = rng.below(20)
    if k == 0:
        return rng.choice([float("nan"), 0.0, -0.0, float("inf"), 1e-46, 1e39, -1e-40])
    if k == 1:
        return float(rng.range(-100, 100))
    return (rng.uniform() - 0.5) * 40.0


def gen_record(rng, kind: str, version: int, quick: bool, ev: dict) -> dict:
    """a record in the domain of the property for this encoding (legacy: restricted to its schema)"""
    v2 = version == 2
    r = rng.below(100)
    if r < 5:
        na = 0
    elif r < 15:
        na = 1
    elif r < 70:
        na = rng.range(2, 8)
    elif r < 97 or quick:
        na = rng.range(9, 40)
    else:
        na = rng.range(41, 300)
    lists = rng.chance(3, 10)          # D01 stays a known finding: lists are part of the domain
    strict_keys = not rng.chance(1, 4)
    rich_top = v2 and rng.chance(1, 2)
    atoms = []
    for i in range(na):
        rich = v2 and rng.chance(1, 6)
        atoms.append([
            rng.choice(ev["element"]),
            None if rng.chance(2, 3) else rng.range(1, 300),
            rng.choice([None, "", f"A{i}"] + STRS[:8]),
            rng.choice(ev["atype"]), rng.choice(ev["stereo"]), rng.choice(ev["geom"]),
            rng.range(-4, 4) if v2 and rng.chance(1, 3) else 0,
            rng.range(0, 3) if v2 and rng.chance(1, 4) else 0,
            gen_attrib(rng, rich, lists, strict_keys),
        ])
    bonds = []
    if na >= 2:
        nb = rng.choice([0, 0, 1, na - 1, na, min(2 * na, 60)])
        for j in range(nb):
            x = rng.below(na)
            y = (x + 1 + rng.below(na - 1)) % na
            bonds.append([
                x, y, rng.choice([None, "", f"b{j}", "é"]),
                rng.choice(ev["btype"]), rng.choice(ev["bstereo"]),
                rng.choice([1.0, 1.0, 1.5, 2.0, 0.1, 0.5, 1e-40, -0.0, 2.0 / 3.0, float("nan"), 1e300]),
                gen_attrib(rng, v2 and rng.chance(1, 6), lists, strict_keys),
            ])
    if na >= 1 and rng.chance(1, 4):
        # a structure is a multigraph: parallel bonds between one pair (same and reversed orientation, different type / label /
        # attributes), self-bonds, repeated bond labels, repeated atom labels, atoms without any bond
        x = rng.below(na)
        y = (x + 1) % na
        for j in range(rng.range(2, 4)):
            if na >= 2:
                a1, a2 = (x, y) if j % 2 == 0 else (y, x)
                bonds.append([a1, a2, rng.choice(["dup", "dup", None, f"p{j}"]), rng.choice(ev["btype"]), rng.choice(ev["bstereo"]),
                              rng.choice([1.0, 1.5, 2.0, 0.5]), gen_attrib(rng, v2 and rng.chance(1, 3), lists, strict_keys)])
        if rng.chance(1, 2):
            z = rng.below(na)
            bonds.append([z, z, "self", rng.choice(ev["btype"]), 0, 1.0, {}])
            if rng.chance(1, 2):
                bonds.append([z, z, "self", rng.choice(ev["btype"]), 0, 2.0, {}])
        if bonds and rng.chance(1, 2):
            bonds.append(copy.deepcopy(bonds[rng.below(len(bonds))]))          # an exact twin of an existing bond
        for a in atoms[: max(1, na // 2)]:
            a[2] = "same"
        rng.shuffle(bonds)
    rec = {"kind": kind,
           "name": rng.choice(["mol", "x", "", "é😀", "unknown", "name with space", f"m{rng.below(1000)}"]),
           "charge": rng.choice([0, 0, 1, -1, -2, 3]), "mult": rng.choice([1, 1, 2, 3, 5]),
           "attrib": gen_attrib(rng, rich_top, lists, strict_keys), "atoms": atoms, "bonds": bonds}
    if kind == "mol":
        rec["coords"] = [[gen_coord(rng) for _ in range(3)] for _ in range(na)]
        rec["charges"] = [gen_coord(rng) / 10 for _ in range(na)]
    else:
        nc = rng.choice([0, 1, 1, 2, 3, rng.range(4, 6 if quick else 12)])
        rec["coords"] = [[[gen_coord(rng) for _ in range(3)] for _ in range(na)] for _ in range(nc)]
        rec["weights"] = [rng.choice([1.0, 0.25, gen_coord(rng)]) for _ in range(nc)]
        rec["charges"] = [[gen_coord(rng) / 10 for _ in range(na)] for _ in range(nc)]
    return rec


def cl_ints() -> list:
    return [127, 128, 255, 256, 65535, 65536, 2**32 - 1, 2**32, 2**64 - 1, -1, -32, -33, -128, -129, -32768, -32769,
            -2**31, -2**31 - 1, -2**63]


def multigraph_of(rec: dict, version: int) -> dict:
    """the record with its first bond doubled (other orientation, other type / label / attributes), tripled (an exact twin), a
    self-bond on the last atom (twice), one more atom that has no bond at all, and two atoms sharing one label"""
    r = copy.deepcopy(rec)
    b0 = r["bonds"][0]
    r["bonds"].insert(1, [b0[1], b0[0], "parallel", 2 if b0[3] != 2 else 3, b0[4], 1.5, {} if version == 1 else {"twin": 1}])
    r["bonds"].append(copy.deepcopy(b0))
    last = len(r["atoms"]) - 1
    r["bonds"].append([last, last, "self", 1, 0, 1.0, {}])
    r["bonds"].insert(0, [last, last, "self", 2, 0, 2.0, {}])
    lone = copy.deepcopy(r["atoms"][0])
    lone[2] = r["atoms"][1][2]                      # a label that another atom carries already
    r["atoms"].append(lone)
    if r["kind"] == "mol":
        r["coords"].append([7.0, 8.0, 9.0])
        r["charges"].append(0.25)
    else:
        for c in r["coords"]:
            c.append([7.0, 8.0, 9.0])
        for q in r["charges"]:
            q.append(0.25)
    return r


def nontrivial(rec: dict) -> bool:
    """>= 1 atom and >= 1 field that is not the constructor default"""
    if not rec["atoms"]:
        return False
    return bool(rec["bonds"] or rec["attrib"] or rec["charge"] or rec["mult"] != 1
                or any(a[1] is not None or a[2] or a[3] != 1 or a[4] or a[5] or a[6] or a[7] or a[8] for a in rec["atoms"]))


def features(rec: dict) -> list:
    f = [f"kind={rec['kind']}", f"atoms={'0' if not rec['atoms'] else '1' if len(rec['atoms']) == 1 else '2-8' if len(rec['atoms']) <= 8 else '9-40' if len(rec['atoms']) <= 40 else '41+'}"]
    f.append("bonds=0" if not rec["bonds"] else "bonds>0")
    if rec["kind"] == "ens":
        f.append(f"conformers={min(len(rec['coords']), 4)}{'+' if len(rec['coords']) >= 4 else ''}")
    allattr = [rec["attrib"]] + [a[8] for a in rec["atoms"]] + [b[6] for b in rec["bonds"]]
    if any(allattr):
        f.append("attrib:nonempty")
    if any(cl.has_list(a) for a in allattr):
        f.append("attrib:list")
    if any(cl.has_nonstr_key(a) for a in allattr):
        f.append("attrib:non-str-key")
    if any(cl.has_float(a) for a in allattr):
        f.append("attrib:float")
    fl = list(cl._flat(rec["coords"]))
    if any(x != x for x in fl):
        f.append("coords:nan")
    if any(a[0] == 0 for a in rec["atoms"]):
        f.append("element:Unknown")
    if any(a[2] is None for a in rec["atoms"]):
        f.append("label:None")
    if any(a[2] == "" for a in rec["atoms"]):
        f.append("label:empty")
    if any(a[1] is not None for a in rec["atoms"]):
        f.append("isotope")
    pairs = [frozenset((b[0], b[1])) for b in rec["bonds"]]
    if len(set(pairs)) < len(pairs):
        f.append("bonds:parallel")
    if any(b[0] == b[1] for b in rec["bonds"]):
        f.append("bonds:self")
    bonded = {i for b in rec["bonds"] for i in (b[0], b[1])}
    if rec["bonds"] and len(bonded) < len(rec["atoms"]):
        f.append("atoms:isolated")
    if rec["charge"] < 0:
        f.append("charge<0")
    if any(b[5] not in (1.0, 1.5, 2.0, 0.5) for b in rec["bonds"]):
        f.append("f_order:not-f32-exact")
    return f


# --------------------------------------------------------------------------------------
# one batch of records through a real library and the model
# --------------------------------------------------------------------------------------
def schema_tokens(sch: dict, dflt) -> list:
    out = ["S", str(len(sch["atom"]))] + sch["atom"] + [str(len(sch["bond"]))] + sch["bond"] + [str(len(sch["top"]))] + sch["top"]
    out.append("D")
    for v in dflt[0]:
        cl.tok(v, out)
    for v in dflt[1]:
        cl.tok(v, out)
    return out


def unreadable_kind(rec: dict, version: int) -> str:
    allattr = [rec["attrib"]] + [a[8] for a in rec["atoms"]] + [b[6] for b in rec["bonds"]]
    if rec["kind"] == "ens" and not rec["atoms"]:
        return "C01:unreadable-zero-atom-ensemble"
    if rec["kind"] == "ens" and version == 1:
        return "C01:unreadable-legacy-ensemble"
    if any(cl.has_nonstr_key(a) for a in allattr):
        return "C01:unreadable-non-string-map-key"
    return "C01:record-unreadable"


def violations_of(kind: str, version: int, rec: dict, path: Path, how: str = "plain") -> list:
    """[(kind, what)] for ONE record sent through a fresh real library (used by the shrinker and by replay)"""
    cl.new_library_file(kind, path, version)
    obj, _keep = cl.build_variant(rec, how)
    inp = cl.snapshot(obj)
    errs = cl.store(kind, path, [("k", obj)])
    if errs:
        return [("C01:object-cannot-be-stored", f"storing raised {type(errs['k']).__name__}: {errs['k']}")]
    firsts, backs = cl.load_twice(kind, path, ["k"])
    back = backs["k"]
    if isinstance(back, Exception):
        return [(unreadable_kind(inp, version), f"cannot be read back: {type(back).__name__}: {back}")]
    d1 = cl.compare(inp, firsts["k"]) if isinstance(firsts["k"], dict) else []
    d2 = cl.compare(inp, cl.snapshot(back))
    if [d for d in d2 if d[0] != "list-read-back-as-tuple"] and not [d for d in d1 if d[0] != "list-read-back-as-tuple"]:
        return [("C01:read-returns-caller-edited-object", f"the read after a caller-side edit of the first result: {d2[0][1]}")]
    return [("C01:" + k, w) for k, w in d2]


def _candidates(rec: dict):
    """simpler records, most aggressive first"""
    import copy
    na = len(rec["atoms"])

    def cut_atoms(k):
        r = copy.deepcopy(rec)
        r["atoms"] = r["atoms"][:k]
        r["bonds"] = [b for b in r["bonds"] if b[0] < k and b[1] < k]
        if r["kind"] == "mol":
            r["coords"], r["charges"] = r["coords"][:k], r["charges"][:k]
        else:
            r["coords"] = [c[:k] for c in r["coords"]]
            r["charges"] = [q[:k] for q in r["charges"]]
        return r

    for k in sorted({0, 1, 2, na // 2, na - 1}):
        if 0 <= k < na:
            yield cut_atoms(k)
    if rec["bonds"]:
        r = copy.deepcopy(rec)
        r["bonds"] = []
        yield r
        for j in range(len(rec["bonds"])):
            r = copy.deepcopy(rec)
            del r["bonds"][j]
            yield r
    if rec["kind"] == "ens":
        nc = len(rec["coords"])
        for k in sorted({0, 1, 2, nc - 1}):
            if 0 <= k < nc:
                r = copy.deepcopy(rec)
                r["coords"], r["weights"], r["charges"] = r["coords"][:k], r["weights"][:k], r["charges"][:k]
                yield r
    if rec["attrib"]:
        r = copy.deepcopy(rec)
        r["attrib"] = {}
        yield r
        for key in list(rec["attrib"]):
            r = copy.deepcopy(rec)
            del r["attrib"][key]
            yield r
        for key, v in rec["attrib"].items():
            if isinstance(v, (list, tuple, dict)) and len(v) > 0:
                subs = list(v.values()) if isinstance(v, dict) else list(v)
                for sub in subs:
                    r = copy.deepcopy(rec)
                    r["attrib"][key] = sub
                    yield r
    for i, a in enumerate(rec["atoms"]):
        if a[8]:
            r = copy.deepcopy(rec)
            r["atoms"][i][8] = {}
            yield r
    for j, b in enumerate(rec["bonds"]):
        if b[6]:
            r = copy.deepcopy(rec)
            r["bonds"][j][6] = {}
            yield r
    if any(x != 0.0 for x in cl._flat(rec["coords"])):
        r = copy.deepcopy(rec)
        r["coords"] = _zeros_like(r["coords"])
        r["charges"] = _zeros_like(r["charges"])
        yield r
    if rec["name"] != "m" or rec["charge"] != 0 or rec["mult"] != 1:
        r = copy.deepcopy(rec)
        r["name"], r["charge"], r["mult"] = "m", 0, 1
        yield r


def _zeros_like(x):
    return [_zeros_like(y) for y in x] if isinstance(x, list) else 0.0


def shrink(ctx, kind: str, version: int, rec: dict, target: str, budget: int = 80, how: str = "plain") -> dict:
    """greedy delta debugging: keep a simplification while the real code still shows the same violation class"""
    path = ctx.scratch / "shrink.lib"
    cur = rec
    progress = True
    while progress and budget > 0:
        progress = False
        for cand in _candidates(cur):
            budget -= 1
            if budget <= 0:
                break
            try:
                if any(k == target for k, _ in violations_of(kind, version, cand, path, how)):
                    cur, progress = cand, True
                    break
            except cl.HardTimeout:
                raise
            except Exception:  # noqa: BLE001
                continue
    return cur


def report(ctx, kindv: str, what: str, kind: str, version: int, rec: dict, replay: dict):
    """first witness of each class is shrunk before it is reported"""
    seen = ctx.extra_cov.setdefault("_shrunk", set())
    if kindv not in seen:
        seen.add(kindv)
        try:
            how = replay.get("how", "plain")
            rec0 = cl.record_from_tokens(kind, replay["record"].split(" "))   # the record the object was built from
            small = shrink(ctx, kind, version, rec0, kindv, how=how)
            replay = {"kind": kind, "version": version, "how": how, "record": " ".join(cl.record_tokens(small)),
                      "shrunk_from_atoms": len(rec0["atoms"])}
            vs = [w for k, w in violations_of(kind, version, small, ctx.scratch / "shrink.lib", how) if k == kindv]
            what = f"{kind} v{version}: {vs[0]}" if vs else what
            # keep the shrunk witness first: Ctx.finish writes the first replay of each class
            ctx.violations.insert(0, {"kind": kindv, "what": what, "replay": replay})
            return
        except cl.HardTimeout:
            raise
        except Exception:  # noqa: BLE001
            pass
    ctx.violation(kindv, what, replay)


def run_batch(ctx, tag: str, kind: str, version: int, recs: list, probe: dict, requests: list, count: bool = True,
              vary: bool = True, hows: list | None = None):
    """store the records in one real library file, read raw and decoded, evaluate the oracle, queue driver lines"""
    path = ctx.scratch / f"{tag}.{'mlib' if kind == 'mol' else 'clib'}"
    cl.new_library_file(kind, path, version)
    items, inputs = [], {}
    alive = []
    for i, rec in enumerate(recs):
        key = f"k{i}"
        how = "plain"
        if hows is not None:
            how = hows[i]
        elif vary and ctx.rng.chance(1, 2):
            how = ctx.rng.choice(cl.HOWS[kind][1:])
        replay = {"kind": kind, "version": version, "how": how, "record": " ".join(cl.record_tokens(rec))}
        try:
            try:
                obj, keep = cl.build_variant(rec, how)
            except cl.HardTimeout:
                raise
            except Exception:  # noqa: BLE001   (e.g. nothing to edit in an empty molecule): the plain construction
                how = replay["how"] = "plain"
                obj, keep = cl.build(rec), []
            inp = cl.snapshot(obj)
        except Exception as e:  # noqa: BLE001
            ctx.disagree("public constructors refused a record of the domain", replay, f"{type(e).__name__}: {e}", "constructible")
            continue
        alive.append(keep)
        items.append((key, obj))
        inputs[key] = (rec, inp, replay)
    errs = cl.store(kind, path, items)
    keys = [k for k, _ in items if k not in errs]
    for k, e in errs.items():
        rec, inp, replay = inputs[k]
        ctx.disagree("storing raised", replay, f"{type(e).__name__}: {e}", "stored")
        report(ctx, "C01:object-cannot-be-stored", f"a {kind} of the domain ({replay['how']}) cannot be stored (v{version}): "
                                                     f"{type(e).__name__}: {e}", kind, version, inp, replay)
    del alive
    import msgpack
    rawb = cl.raw_bytes(path, keys)
    raws = {k: msgpack.loads(b, use_list=False, strict_map_key=False) for k, b in rawb.items()}
    # every key is read, the object is edited in place by the caller, and the key is read again (the last key once more in a
    # second reading session): `backs` are the LATEST reads, `firsts` the snapshots of the first ones
    firsts, backs = cl.load_twice(kind, path, keys)
    sch = probe["orders"][(kind, version)]["ser"]
    stoks = schema_tokens(sch, (probe["atom_dflt"], probe["bond_dflt"]))
    for k in keys:
        rec, inp, replay = inputs[k]
        first = firsts.get(k)
        if isinstance(first, dict) and not isinstance(backs.get(k), Exception):
            ctx.count("re-read-after-caller-edit")
            d1 = [d for d in cl.compare(inp, first) if d[0] != "list-read-back-as-tuple"]
            d2 = [d for d in cl.compare(inp, cl.snapshot(backs[k])) if d[0] != "list-read-back-as-tuple"]
            if d2 and not d1:
                # the first read gave what is stored, the read after the caller's edit did not
                report(ctx, "C01:read-returns-caller-edited-object",
                       f"{kind} v{version}: first read of the key is what was stored; after the caller edited that object in place the "
                       f"next read of the same key gives: {d2[0][1]}", kind, version, inp, replay)
                requests.append((" ".join([kind] + schema_tokens(sch, (probe["atom_dflt"], probe["bond_dflt"])) + cl.record_tokens(inp)),
                                 None, cl.canon_nan(cl.record_tokens(cl.snapshot(backs[k]))), replay, None))
                continue
        if count:
            ctx.case(replay["record"] + f"|{kind}{version}|{replay['how']}", nontrivial=nontrivial(inp))
            ctx.count(f"built:{replay['how']}")
            for f in features(inp):
                ctx.count(f)
            ctx.count(f"encoding=v{version}")
        back = backs.get(k)
        wire_t = cl.canon_bin_nan(cl.canon_nan(cl.toks(raws[k]))) if k in raws else None
        if isinstance(back, Exception) or back is None:
            kindv = unreadable_kind(inp, version)
            if replay["how"] != "plain":
                # is it the way the object was built?  (the same record built plainly reads back)
                try:
                    if not any("unreadable" in k or "cannot-be-stored" in k
                               for k, _ in violations_of(kind, version, rec, ctx.scratch / "plain.lib", "plain")):
                        kindv = "C01:unreadable-object-sharing-atoms"
                except cl.HardTimeout:
                    raise
                except Exception:  # noqa: BLE001
                    pass
            report(ctx, kindv, f"a stored {kind} (v{version}, built: {replay['how']}) cannot be read back: {type(back).__name__}: {back}",
                   kind, version, inp, replay)
            back_t = None
        else:
            bs = cl.snapshot(back)
            back_t = cl.canon_nan(cl.record_tokens(bs))
            diffs = cl.compare(inp, bs)
            for suffix, what in diffs:
                report(ctx, "C01:" + suffix, f"{kind} v{version}: {what}", kind, version, inp, replay)
            if count:
                ctx.count("oracle:clean" if not diffs else "oracle:" + ",".join(sorted({d[0] for d in diffs})))
        requests.append((" ".join([kind] + stoks + cl.record_tokens(inp)), wire_t, back_t, replay, rawb.get(k)))
    if count and len(ctx.samples) < 3 and keys:
        rec, inp, replay = inputs[keys[0]]
        ctx.sample({"kind": kind, "encoding": f"v{version}", "n_atoms": len(inp["atoms"]), "n_bonds": len(inp["bonds"]),
                    "record_tokens_head": replay["record"][:300]})


# --------------------------------------------------------------------------------------
# session shapes: reads and writes interleaved on one long-lived library object
# --------------------------------------------------------------------------------------
BUFSIZES = [-1, 0, 64, 10**6]


def shape_interleaved(n: int) -> list:
    """one writing() session: store two, read back the FIRST (not the last record), store more, read everything"""
    ops = [("put", 0), ("put", 1), ("get", 0), ("put", 2), ("get", 1), ("get", 2), ("get", 0)]
    for i in range(3, n):
        ops += [("put", i), ("get", i - 2)]
    ops += [("keys", -1)] + [("get", i) for i in range(n)]
    return [("w", ops)]


def shape_alternating(n: int) -> list:
    """reading() / writing() alternate on the same object; every writing session also reads earlier records"""
    a = max(2, n // 2)
    return [("w", [("put", i) for i in range(a)]),
            ("r", [("get", 0), ("keys", -1), ("get", a - 1)]),
            ("w", [("get", 0)] + [x for i in range(a, n) for x in (("put", i), ("get", i - a))] + [("get", 1)]),
            ("r", [("keys", -1)] + [("get", i) for i in range(n)])]


def shape_reread(n: int) -> list:
    """every read is followed by an in-place edit of the object it returned and by another read of the SAME key (no other key
    in between): in the writing session, in the next reading session, and again in a third session"""
    w = [("put", 0), ("put", 1), ("get", 0), ("edit", 0), ("get", 0), ("edit", 0), ("get", 0)]
    for i in range(2, n):
        w += [("put", i), ("get", i), ("edit", i), ("get", i)]
    r1 = [("get", n - 1), ("edit", n - 1), ("get", n - 1)]          # the key read last in the previous session, edited there
    for i in range(n):
        r1 += [("get", i), ("edit", i), ("get", i)]
    r2 = [("get", n - 1)] + [x for i in range(n) for x in (("get", i), ("get", i), ("edit", i), ("get", i))]
    return [("w", w), ("r", r1), ("r", r2)]


def shape_random(rng, n: int) -> list:
    """random sessions; a record is only read once it has been stored"""
    script, stored, todo = [], [], list(range(n))
    while todo or not script:
        mode = "w" if (todo and (not stored or rng.chance(2, 3))) else "r"
        ops = []
        for _ in range(rng.range(1, 6)):
            if mode == "w" and todo and (not stored or rng.chance(1, 2)):
                i = todo.pop(0)
                ops.append(("put", i))
                stored.append(i)
            elif stored:
                if rng.chance(1, 8):
                    ops.append(("keys", -1))
                else:
                    i = rng.choice(stored)
                    ops.append(("get", i))
                    if rng.chance(1, 3):          # the caller edits what it got and asks again
                        ops += [("edit", i), ("get", i)]
        if ops:
            script.append((mode, ops))
    script.append(("r", [("keys", -1)] + [("get", i) for i in range(n)]))
    return script


def script_text(script: list) -> list:
    return [mode + ":" + ",".join(f"{op}{i if i >= 0 else ''}" for op, i in ops) for mode, ops in script]


def script_from_text(lines: list) -> list:
    out = []
    for l in lines:
        mode, rest = l.split(":", 1)
        ops = []
        for t in rest.split(","):
            if t.startswith("put"):
                ops.append(("put", int(t[3:])))
            elif t.startswith("get"):
                ops.append(("get", int(t[3:])))
            elif t.startswith("edit"):
                ops.append(("edit", int(t[4:])))
            elif t:
                ops.append(("keys", -1))
        out.append((mode, ops))
    return out


def run_script_case(ctx, tag: str, kind: str, version: int, recs: list, script: list, bufsize: int, shape: str,
                    probe: dict, requests: list):
    """the records go through `script` on ONE library object, then a fresh object reads everything; every value read at
    any point is compared with what was stored (oracle) and with the model (driver request per observation)"""
    import msgpack
    path = ctx.scratch / f"{tag}.{'mlib' if kind == 'mol' else 'clib'}"
    replay = {"kind": kind, "version": version, "bufsize": bufsize, "shape": shape, "script": script_text(script),
              "records": [" ".join(cl.record_tokens(r)) for r in recs]}
    try:
        objs = [cl.build(r) for r in recs]
        inps = [cl.snapshot(o) for o in objs]
    except Exception as e:  # noqa: BLE001
        ctx.disagree("public constructors refused a record of the domain", replay, f"{type(e).__name__}: {e}", "constructible")
        return
    interleaved = any(mode == "w" and any(op == "get" and any(o2 == "put" for o2, _ in ops[k:]) for k, (op, _) in enumerate(ops))
                      for mode, ops in script)
    rereads = any(op == "edit" for _, ops in script for op, _ in ops)
    ctx.case(json.dumps(replay, sort_keys=True), nontrivial=interleaved or rereads)
    ctx.count(f"session-shape:{shape}")
    ctx.count(f"session-bufsize:{bufsize}")
    ctx.count(f"encoding=v{version}")
    obs = cl.run_script(kind, path, version, objs, script, bufsize)
    sch = probe["orders"][(kind, version)]["ser"]
    stoks = schema_tokens(sch, (probe["atom_dflt"], probe["bond_dflt"]))
    lines = [" ".join([kind] + stoks + cl.record_tokens(inp)) for inp in inps]
    stored = set()
    edited = set()
    seen = set()
    real_violation = ctx.violation

    def violation(kv, what, rp):
        """one witness per script: after the first damage everything that follows in the same file is a consequence"""
        if kv == KNOWN_KIND or not any(k != KNOWN_KIND for k in seen):
            real_violation(kv, what, rp)
        seen.add(kv)

    def one(where, i, res, wire_t=None, rawb=None):
        ctx.count("session-read")
        if isinstance(res, Exception) or res is None:
            kv = "C01:record-unreadable-in-mixed-session"
            if kv not in seen:
                violation(kv, f"{kind} v{version} bufsize={bufsize} shape={shape}: k{i} stored earlier cannot be read {where}: "
                              f"{type(res).__name__}: {res}", replay)
            requests.append((lines[i], wire_t, None, replay, rawb))
            return
        bs = res if isinstance(res, dict) else cl.snapshot(res)
        for suffix, what in cl.compare(inps[i], bs):
            kv = "C01:" + suffix
            if suffix != "list-read-back-as-tuple" and i in edited:
                kv = "C01:read-returns-caller-edited-object"
                what = f"after the caller edited the object an earlier read of this key returned: {what}"
            if kv not in seen:
                violation(kv, f"{kind} v{version} bufsize={bufsize} shape={shape}: k{i} read {where}: {what}", replay)
        requests.append((lines[i], wire_t, cl.canon_nan(cl.record_tokens(bs)), replay, rawb))

    for si, oi, op, i, res in obs:
        where = f"in session {si} ({script[si][0]}) at step {oi}"
        if op == "put":
            if isinstance(res, Exception):
                ctx.disagree("storing raised in a mixed session", replay, f"{type(res).__name__}: {res}", "stored")
            else:
                stored.add(i)
        elif op == "get":
            if i in stored:     # a record whose store failed is reported there, not as unreadable
                one(where, i, res)
        elif op == "edit":
            edited.add(i)
        elif op == "keys":
            want = sorted(f"k{j}" for j in stored)
            if isinstance(res, Exception) or res != want:
                violation("C01:key-set-differs", f"{kind} v{version} bufsize={bufsize} shape={shape}: keys() {where} gave {res!r}, stored {want}", replay)
        else:
            violation("C01:session-raised", f"{kind} v{version} bufsize={bufsize} shape={shape}: session {si} raised {type(res).__name__}: {res}", replay)
    # a fresh object (another process would see the same file) reads everything
    keys = [f"k{i}" for i in sorted(stored)]
    try:
        rawb = cl.raw_bytes(path, keys)
    except Exception as e:  # noqa: BLE001
        violation("C01:library-file-damaged", f"{kind} v{version} bufsize={bufsize} shape={shape}: the file cannot be opened after the sessions: {type(e).__name__}: {e}", replay)
        return
    backs = cl.load(kind, path, keys)
    for i in sorted(stored):
        k = f"k{i}"
        wire_t = None
        if k in rawb:
            try:
                wire_t = cl.canon_bin_nan(cl.canon_nan(cl.toks(msgpack.loads(rawb[k], use_list=False, strict_map_key=False))))
            except Exception:  # noqa: BLE001
                wire_t = ["<undecodable>"]
        one("by a fresh library object afterwards", i, backs.get(k), wire_t, rawb.get(k))


def grown(rec: dict) -> dict:
    """the same object 'updated': longer name, one more atom bonded to the first - its record is longer than the old one"""
    r = copy.deepcopy(rec)
    r["name"] = str(r["name"]) + "_updated"
    r["atoms"].append([8, None, "new", 1, 0, 0, 0, 0, {}])
    if len(r["atoms"]) > 1:
        r["bonds"].append([0, len(r["atoms"]) - 1, None, 1, 0, 1.0, {}])
    if r["kind"] == "mol":
        r["coords"].append([1.0, 2.0, 3.0])
        r["charges"].append(0.5)
    else:
        for c in r["coords"]:
            c.append([1.0, 2.0, 3.0])
        for q in r["charges"]:
            q.append(0.5)
    return r


def run_two_objects_case(ctx, tag: str, kind: str, version: int, recs1: list, recs2: list, overwrite: bool, bufsize: int,
                         probe: dict, requests: list):
    """two library objects on one path, never in a session at the same time: A stores recs1 and reads; B either re-creates
    the file (overwrite=True) and stores recs2 under the SAME keys, or appends recs2 under new keys; then the long-lived A
    reads: every key must give the object stored last, keys() must be the keys of the file; then A appends one more."""
    path = ctx.scratch / f"{tag}.{'mlib' if kind == 'mol' else 'clib'}"
    shape = "recreated-by-another-object" if overwrite else "appended-by-another-object"
    replay = {"kind": kind, "version": version, "bufsize": bufsize, "shape": shape,
              "records": [" ".join(cl.record_tokens(r)) for r in recs1], "records2": [" ".join(cl.record_tokens(r)) for r in recs2]}
    ctx.case(json.dumps(replay, sort_keys=True), nontrivial=True)
    ctx.count(f"session-shape:{shape}")
    sch = probe["orders"][(kind, version)]["ser"]
    stoks = schema_tokens(sch, (probe["atom_dflt"], probe["bond_dflt"]))
    cls = cl.lib_class(kind)
    objs1, objs2 = [cl.build(r) for r in recs1], [cl.build(r) for r in recs2]
    keys2 = [f"k{i}" for i in range(len(objs2))] if overwrite else [f"n{i}" for i in range(len(objs2))]
    expect = {}
    reads = []      # (phase, key, result)
    klists = []     # (phase, result, wanted)
    cl.new_library_file(kind, path, version)
    with cl.hard_timeout(cl.SESSION_TIMEOUT * 2, "two library objects"):
        A = cls(path, readonly=False, bufsize=bufsize)
        with A.writing(timeout=cl.SESSION_TIMEOUT):
            for i, o in enumerate(objs1):
                A[f"k{i}"] = o
                expect[f"k{i}"] = recs1[i]
        with A.reading(timeout=cl.SESSION_TIMEOUT):
            for k in list(expect)[:2]:
                reads.append(("A reads its own records", k, _try(lambda: A[k]), expect[k]))
        if overwrite:
            B = cls(path, overwrite=True, readonly=False, **({"h1": cl.V1_MAGIC} if version == 1 else {}))
            if version == 1:
                B = cls(path, readonly=False)   # the encoding is chosen from the header of the existing file
            expect = {}
        else:
            B = cls(path, readonly=False)
        with B.writing(timeout=cl.SESSION_TIMEOUT):
            for k, o, r in zip(keys2, objs2, recs2):
                B[k] = o
                expect[k] = r
        del B
        with A.reading(timeout=cl.SESSION_TIMEOUT):
            klists.append(("A lists keys after the other object wrote", _try(lambda: sorted(A.keys())), sorted(expect)))
            for k in sorted(expect):
                reads.append(("the long-lived object reads after the other object wrote", k, _try(lambda: A[k]), expect[k]))
        extra = cl.build(recs1[0])
        with A.writing(timeout=cl.SESSION_TIMEOUT):
            A["last"] = extra
            expect["last"] = recs1[0]
            for k in sorted(expect):
                reads.append(("the long-lived object reads inside its next writing session", k, _try(lambda: A[k]), expect[k]))
    fresh = cl.load(kind, path, sorted(expect))
    for k in sorted(expect):
        reads.append(("a fresh object reads at the end", k, fresh.get(k), expect[k]))
    reported = False
    for phase, got, want in klists:
        # after a re-creation only "every key of the file is listed" is C01's business: whether a long-lived object still
        # lists keys of the file it saw BEFORE the re-creation is a question about the key-value file (C02)
        wrong = isinstance(got, Exception) or (not set(want) <= set(got) if overwrite else got != want)
        if wrong and not reported:
            reported = True
            ctx.violation("C01:key-set-differs", f"{kind} v{version} {shape}: {phase}: {got!r}, the file holds {want}", replay)
    for phase, k, res, rec in reads:
        ctx.count("session-read")
        inp = cl.snapshot(cl.build(rec))
        line = " ".join([kind] + stoks + cl.record_tokens(inp))
        if isinstance(res, Exception) or res is None:
            if not reported:
                reported = True
                ctx.violation("C01:record-unreadable-after-another-object-wrote", f"{kind} v{version} bufsize={bufsize} {shape}: {k}: {phase}: "
                                                                                   f"{type(res).__name__}: {res}", replay)
            requests.append((line, None, None, replay, None))
            continue
        bs = cl.snapshot(res)
        for suffix, what in cl.compare(inp, bs):
            if suffix == "list-read-back-as-tuple":
                ctx.violation(KNOWN_KIND, f"{kind} v{version} {shape}: {k}: {what}", replay)
            elif not reported:
                reported = True
                ctx.violation("C01:stale-object-read-after-another-object-wrote", f"{kind} v{version} bufsize={bufsize} {shape}: {k}: {phase}: {what}", replay)
        requests.append((line, None, cl.canon_nan(cl.record_tokens(bs)), replay, None))


def _try(f):
    try:
        return f()
    except cl.HardTimeout:
        raise
    except Exception as e:  # noqa: BLE001
        return e


def run_generation_case(ctx, tag: str, kind: str, old_gen: int, new_gen: int, recs: list, write_with_creator: bool,
                        probe: dict, requests: list):
    """a library is (re-)created at a path that held nothing (old_gen 0) or a library of generation old_gen, as a library of
    generation new_gen (overwrite=True; the header is the default one or the legacy magic); the records are stored by the creating
    object itself or by an object opened afterwards; every reader - the writer, and a fresh object - must get them back, decoded
    by the codec the NEW file announces"""
    path = ctx.scratch / f"{tag}.{'mlib' if kind == 'mol' else 'clib'}"
    cls = cl.lib_class(kind)
    replay = {"shape": "re-created-as-another-generation", "kind": kind, "old_generation": old_gen, "new_generation": new_gen,
              "write_with_creator": write_with_creator, "records": [" ".join(cl.record_tokens(r)) for r in recs]}
    ctx.case(json.dumps(replay, sort_keys=True), nontrivial=old_gen != new_gen)
    ctx.count(f"session-shape:generation-{old_gen}->{new_gen}")
    if path.exists():
        path.unlink()
    objs = [cl.build(r) for r in recs]
    inps = [cl.snapshot(o) for o in objs]
    reads = []
    with cl.hard_timeout(cl.SESSION_TIMEOUT * 2, "re-creation"):
        if old_gen:
            cl.new_library_file(kind, path, old_gen)
            cl.store(kind, path, [("old", cl.build(recs[0]))])
        kw = {"h1": cl.V1_MAGIC} if new_gen == 1 else {}
        creator = cls(path, readonly=False, overwrite=bool(old_gen), **kw)
        writer = creator if write_with_creator else cls(path, readonly=False)
        with writer.writing(timeout=cl.SESSION_TIMEOUT):
            for i, o in enumerate(objs):
                writer[f"k{i}"] = o
        with writer.reading(timeout=cl.SESSION_TIMEOUT):
            for i in range(len(objs)):
                reads.append(("the object that stored them", i, _try(lambda: writer[f"k{i}"])))
    head = path.read_bytes()[:16]
    announced = 1 if head.startswith(cl.V1_MAGIC) else 2
    fresh = cl.load(kind, path, [f"k{i}" for i in range(len(objs))])
    for i in range(len(objs)):
        reads.append(("a fresh library object", i, fresh.get(f"k{i}")))
    sch = probe["orders"][(kind, announced)]["ser"]
    stoks = schema_tokens(sch, (probe["atom_dflt"], probe["bond_dflt"]))
    reported = False
    if announced != new_gen:
        reported = True
        ctx.violation("C01:recreated-library-announces-the-wrong-generation", f"{kind}: asked for generation {new_gen}, the file header is {head!r}", replay)
    for who, i, res in reads:
        line = " ".join([kind] + stoks + cl.record_tokens(inps[i]))
        if isinstance(res, Exception) or res is None:
            if not reported:
                reported = True
                ctx.violation("C01:recreated-library-unreadable-under-announced-codec",
                              f"{kind}: path held {'nothing' if not old_gen else f'a generation-{old_gen} library'}, re-created as generation {new_gen} "
                              f"(records stored by {'the creating object' if write_with_creator else 'an object opened afterwards'}): k{i} read by {who}: "
                              f"{type(res).__name__}: {res}", replay)
            requests.append((line, None, None, replay, None))
            continue
        bs = cl.snapshot(res)
        d = [x for x in cl.compare(inps[i], bs) if x[0] != "list-read-back-as-tuple"]
        if d and not reported:
            reported = True
            ctx.violation("C01:recreated-library-unreadable-under-announced-codec", f"{kind}: generation {old_gen} -> {new_gen}: k{i} read by {who}: {d[0][1]}", replay)
        requests.append((line, None, cl.canon_nan(cl.record_tokens(bs)), replay, None))


def generation_shapes(ctx, probe: dict, requests: list, ev: dict):
    n = 0
    for kind in ("mol", "ens"):
        for old_gen, new_gen in ((1, 2), (2, 1), (0, 1), (0, 2), (1, 1), (2, 2)):
            for creator in (True, False):
                recs = [gen_record(ctx.rng, kind, 1, True, ev) for _ in range(ctx.rng.range(1, 3))]   # legacy-schema records fit both
                run_generation_case(ctx, f"gen{n}", kind, old_gen, new_gen, recs, creator, probe, requests)
                n += 1


def two_object_shapes(ctx, probe: dict, requests: list, ev: dict):
    n = 0
    for kind in ("mol", "ens"):
        for version in (2, 1):
            for overwrite in (True, False):
                for updated in (True, False):
                    m = ctx.rng.range(2, 4)
                    recs1 = [gen_record(ctx.rng, kind, version, True, ev) for _ in range(m)]
                    recs2 = [grown(r) for r in recs1] if updated else [gen_record(ctx.rng, kind, version, True, ev) for _ in range(m)]
                    run_two_objects_case(ctx, f"two{n}", kind, version, recs1, recs2, overwrite, ctx.rng.choice(BUFSIZES), probe, requests)
                    n += 1
    for _ in range(0 if ctx.quick() else 100):
        kind = "mol" if ctx.rng.chance(1, 2) else "ens"
        version = 2 if ctx.rng.chance(3, 4) else 1
        m = ctx.rng.range(1, 5)
        recs1 = [gen_record(ctx.rng, kind, version, True, ev) for _ in range(m)]
        recs2 = [grown(r) for r in recs1] if ctx.rng.chance(1, 2) else [gen_record(ctx.rng, kind, version, True, ev) for _ in range(ctx.rng.range(1, 5))]
        run_two_objects_case(ctx, f"two{n}", kind, version, recs1, recs2, ctx.rng.chance(1, 2), ctx.rng.choice(BUFSIZES), probe, requests)
        n += 1
        if len(requests) >= 400:
            check_driver(ctx, requests)
            requests.clear()


# --------------------------------------------------------------------------------------
# several libraries on different paths, sessions overlapping in time: each is its own map
# --------------------------------------------------------------------------------------
def multi_events(rng, nlib: int, nrec: list, same_keys: bool, order: str) -> list:
    """interleaved puts / gets / keys() on `nlib` libraries whose writing sessions overlap"""
    key = (lambda li, i: f"k{i}") if same_keys else (lambda li, i: f"L{li}_{i}")
    opened = list(range(nlib))
    if order == "staggered":
        ev = [("open", 0)]
        later = list(range(1, nlib))
    else:
        ev = [("open", li) for li in (opened if order == "forward" else reversed(opened))]
        later = []
    todo = {li: list(range(nrec[li])) for li in range(nlib)}
    done = {li: [] for li in range(nlib)}
    live = [0] if order == "staggered" else list(range(nlib))
    while any(todo[li] for li in range(nlib)):
        if later and (rng.chance(1, 3) or not any(todo[li] for li in live)):
            li = later.pop(0)
            ev.append(("open", li))
            live.append(li)
        li = rng.choice([x for x in live if todo[x]] or live)
        if todo[li] and rng.chance(2, 3):
            i = todo[li].pop(0)
            ev.append(("put", li, key(li, i)))
            done[li].append(i)
        for lj in live:                                  # look at EVERY open library after the store
            if done[lj] and rng.chance(2, 3):
                ev.append(("get", lj, key(lj, rng.choice(done[lj]))))
        if rng.chance(1, 4):
            ev.append(("keys", rng.choice(live)))
    for li in later:
        ev.append(("open", li))
        live.append(li)
    for li in live:
        ev += [("keys", li)] + [("get", li, key(li, i)) for i in done[li]]
    closing = list(live) if order != "reverse" else list(reversed(live))
    if order == "forward":
        closing = list(reversed(closing))            # opened 0,1,2 - flushed 2,1,0; "reverse": opened 2,1,0 - flushed ... 0 first
    for n, li in enumerate(closing):
        ev.append(("close", li))
        for lj in closing[n + 1:]:                       # the ones still open must not have been touched by that flush
            if done[lj]:
                ev.append(("get", lj, key(lj, done[lj][-1])))
    return ev


def run_multi_case(ctx, tag: str, spec: list, events: list, label: str, probe: dict, requests: list):
    """spec = [(kind, version, bufsize, [records])]; every library is compared with ITS OWN reference map after every step, and
    after all sessions are closed (fresh objects, keys of the file, stored bytes)"""
    libs, inps, keyof = [], [], []
    for li, (kind, version, bufsize, recs) in enumerate(spec):
        path = ctx.scratch / f"{tag}_{li}.{'mlib' if kind == 'mol' else 'clib'}"
        libs.append([kind, path, version, bufsize, {}])
        inps.append({})
    used = sorted({(e[1], e[2]) for e in events if e[0] == "put"})
    nxt = [0] * len(spec)
    for li, k in used:
        rec = spec[li][3][nxt[li]]
        nxt[li] += 1
        o = cl.build(rec)
        libs[li][4][k] = o
        inps[li][k] = cl.snapshot(o)
    replay = {"shape": "several-libraries:" + label, "libraries": [{"kind": k, "version": v, "bufsize": b, "records": {key: " ".join(cl.record_tokens(inps[li][key])) for key in sorted(inps[li])}}
                                                                  for li, (k, v, b, _) in enumerate(spec)],
              "events": [list(e) for e in events]}
    ctx.case(json.dumps(replay, sort_keys=True), nontrivial=True)
    ctx.count(f"session-shape:several-libraries-{len(spec)}")
    obs = cl.run_multi([tuple(x) for x in libs], events)
    ref = [set() for _ in spec]
    reported = False

    def bad(what):
        nonlocal reported
        if not reported:
            reported = True
            ctx.violation("C01:libraries-on-different-paths-interfere", f"{label}: {what}", replay)

    def line_of(li, k):
        kind, version = spec[li][0], spec[li][1]
        sch = probe["orders"][(kind, version)]["ser"]
        return " ".join([kind] + schema_tokens(sch, (probe["atom_dflt"], probe["bond_dflt"])) + cl.record_tokens(inps[li][k]))

    for n, e, res in obs:
        op, li = e[0], e[1]
        who = f"library {li} ({spec[li][0]} v{spec[li][1]} bufsize={spec[li][2]})"
        if op == "put":
            if isinstance(res, Exception):
                bad(f"step {n}: storing {e[2]} in {who} raised {type(res).__name__}: {res}")
            else:
                ref[li].add(e[2])
        elif op == "get":
            ctx.count("several-libraries-read")
            if isinstance(res, Exception):
                bad(f"step {n}: {who}[{e[2]}] stored earlier raised {type(res).__name__}: {res}")
                requests.append((line_of(li, e[2]), None, None, replay, None))
            else:
                d = [x for x in cl.compare(inps[li][e[2]], res) if x[0] != "list-read-back-as-tuple"]
                if d:
                    other = [lj for lj in range(len(spec)) if lj != li and e[2] in inps[lj] and spec[lj][0] == spec[li][0]
                             and not [x for x in cl.compare(inps[lj][e[2]], res) if x[0] != "list-read-back-as-tuple"]]
                    bad(f"step {n}: {who}[{e[2]}] is not what was stored there" + (f" - it is the record stored in library {other[0]}" if other else "") + f": {d[0][1]}")
                requests.append((line_of(li, e[2]), None, cl.canon_nan(cl.record_tokens(res)), replay, None))
        elif op == "keys":
            if isinstance(res, Exception) or res != sorted(ref[li]):
                bad(f"step {n}: keys() of {who} gave {res!r}, stored there: {sorted(ref[li])}")
        elif isinstance(res, Exception):
            bad(f"step {n}: {op} of {who} raised {type(res).__name__}: {res}")
    for li, (kind, version, bufsize, _) in enumerate(spec):
        who = f"library {li} ({kind} v{version} bufsize={bufsize})"
        try:
            fk = cl.file_keys(libs[li][1])
            rawb = cl.raw_bytes(libs[li][1], sorted(ref[li]))
        except Exception as ex:  # noqa: BLE001
            bad(f"after closing: the file of {who} cannot be opened: {type(ex).__name__}: {ex}")
            continue
        if fk != sorted(ref[li]):
            bad(f"after closing: the file of {who} holds the keys {fk}, stored there: {sorted(ref[li])}")
        backs = cl.load(kind, libs[li][1], sorted(ref[li]))
        for k in sorted(ref[li]):
            b = backs.get(k)
            if isinstance(b, Exception) or b is None:
                bad(f"after closing: {who}[{k}] cannot be read by a fresh object: {type(b).__name__}: {b}")
                requests.append((line_of(li, k), None, None, replay, rawb.get(k)))
                continue
            bs = cl.snapshot(b)
            d = [x for x in cl.compare(inps[li][k], bs) if x[0] != "list-read-back-as-tuple"]
            if d:
                bad(f"after closing: {who}[{k}] read by a fresh object is not what was stored there: {d[0][1]}")
            requests.append((line_of(li, k), None, cl.canon_nan(cl.record_tokens(bs)), replay, rawb.get(k)))


def several_library_shapes(ctx, probe: dict, requests: list, ev: dict):
    n = 0
    plans = []
    for nlib in (2, 3):
        for same_keys in (True, False):
            for order in ("forward", "reverse", "staggered"):
                plans.append((nlib, same_keys, order))
    extra = 0 if ctx.quick() else 120
    for j in range(len(plans) + extra):
        ctx.check_deadline()
        nlib, same_keys, order = plans[j] if j < len(plans) else (ctx.rng.choice([2, 3]), ctx.rng.chance(2, 3), ctx.rng.choice(["forward", "reverse", "staggered"]))
        spec = []
        for li in range(nlib):
            kind = ctx.rng.choice(["mol", "ens"]) if j % 2 else "mol"      # same class: a record of one could pass for the other's
            version = 2 if ctx.rng.chance(4, 5) else 1
            bufsize = BUFSIZES[(j + li) % len(BUFSIZES)] if j % 3 else ctx.rng.choice([64, 10**6])   # often: all queues in use
            spec.append((kind, version, bufsize, [gen_record(ctx.rng, kind, version, True, ev) for _ in range(ctx.rng.range(2, 4))]))
        events = multi_events(ctx.rng, nlib, [len(s[3]) for s in spec], same_keys, order)
        run_multi_case(ctx, f"multi{n}", spec, events, f"{nlib} libraries, {'same' if same_keys else 'different'} keys, sessions {order}", probe, requests)
        n += 1
        if len(requests) >= 400:
            check_driver(ctx, requests)
            requests.clear()


# --------------------------------------------------------------------------------------
# iteration over a library with lookups by key between two steps
# --------------------------------------------------------------------------------------
def run_iteration_case(ctx, tag: str, kind: str, version: int, recs: list, how: str, plan_kind: str, bufsize: int, in_writing: bool,
                       probe: dict, requests: list):
    path = ctx.scratch / f"{tag}.{'mlib' if kind == 'mol' else 'clib'}"
    keys = [f"k{i}" for i in range(len(recs))]
    objs = {k: cl.build(r) for k, r in zip(keys, recs)}
    inps = {k: cl.snapshot(o) for k, o in objs.items()}
    n = len(keys)
    plan = {}
    for step in range(n):
        if plan_kind == "none":
            break
        picks = {"earlier": [keys[0]], "later": [keys[-1]], "same": None, "mixed": [keys[(step * 2 + 1) % n], keys[0], keys[-1]]}[plan_kind]
        plan[step] = picks          # 'same': filled below (depends on what the step yielded)
    replay = {"shape": f"iteration:{how}:{plan_kind}", "kind": kind, "version": version, "bufsize": bufsize, "in_writing": in_writing,
              "records": [" ".join(cl.record_tokens(inps[k])) for k in keys]}
    ctx.case(json.dumps(replay, sort_keys=True), nontrivial=plan_kind != "none")
    ctx.count(f"session-shape:iteration-{how}")
    if plan_kind == "same":
        # the key that was just yielded is not known in advance for set-ordered iteration: look up all keys in turn instead
        plan = {step: [keys[step % n]] for step in range(n)}
    yielded, lookups = cl.run_iteration(kind, path, version, objs, how, plan, bufsize, in_writing)
    sch = probe["orders"][(kind, version)]["ser"]
    stoks = schema_tokens(sch, (probe["atom_dflt"], probe["bond_dflt"]))
    reported = False

    def bad(what):
        nonlocal reported
        if not reported:
            reported = True
            ctx.violation("C01:iteration-yields-something-else-than-stored",
                          f"{kind} v{version} bufsize={bufsize} {'writing' if in_writing else 'reading'} session, {how} with {plan_kind} lookups between the steps: {what}", replay)

    def clean(a, b):
        return not [x for x in cl.compare(a, b) if x[0] != "list-read-back-as-tuple"]

    seen = []
    for k, snap in yielded:
        ctx.count("iteration-step")
        if isinstance(snap, Exception):
            bad(f"step {len(seen)} raised {type(snap).__name__}: {snap}")
            break
        if k is None:      # values(): the object must be one of the stored ones, each once
            match = [kk for kk in keys if kk not in seen and clean(inps[kk], snap)]
            if not match:
                bad(f"value number {len(seen)} is none of the stored objects (or one that was yielded before)")
                break
            k = match[0]
        elif k not in inps:
            bad(f"a key that was never stored is yielded: {k!r}")
            break
        elif not clean(inps[k], snap):
            d = [x for x in cl.compare(inps[k], snap) if x[0] != "list-read-back-as-tuple"]
            others = [kk for kk in keys if kk != k and clean(inps[kk], snap)]
            bad(f"key {k} comes with something else than what is stored under it" + (f" (the object stored under {others[0]})" if others else "") + f": {d[0][1]}")
        seen.append(k)
        requests.append((" ".join([kind] + stoks + cl.record_tokens(inps[k])), None, cl.canon_nan(cl.record_tokens(snap)), replay, None))
    if not reported and sorted(seen) != sorted(keys):
        bad(f"the iteration yielded {sorted(seen)}, stored: {sorted(keys)}")
    for step, k, snap in lookups:
        if isinstance(snap, Exception):
            bad(f"lookup of {k} after step {step} raised {type(snap).__name__}: {snap}")
        elif not clean(inps[k], snap):
            bad(f"lookup of {k} after step {step} gives something else than what is stored")


def same_size_records(rng, kind: str, version: int, n: int, ev: dict) -> list:
    """n records of exactly the same stored size: one record, only the (equally long) names and a coordinate differ"""
    base = gen_record(rng, kind, version, True, ev)
    out = []
    for i in range(n):
        r = copy.deepcopy(base)
        r["name"] = f"same{i}"
        if r["atoms"]:
            r["atoms"][0][2] = f"L{i}"
        out.append(r)
    return out


def iteration_shapes(ctx, probe: dict, requests: list, ev: dict):
    n = 0
    hows = ["items", "keys", "iter", "values"]
    plans = ["earlier", "later", "same", "mixed", "none"]
    combos = [(kind, how, pk) for kind in ("mol", "ens") for how in hows for pk in plans]
    extra = 0 if ctx.quick() else 200
    for j in range(len(combos) + extra):
        ctx.check_deadline()
        kind, how, pk = combos[j] if j < len(combos) else (ctx.rng.choice(["mol", "ens"]), ctx.rng.choice(hows), ctx.rng.choice(plans))
        version = 2 if (j % 5) else 1
        m = ctx.rng.range(3, 6)
        recs = same_size_records(ctx.rng, kind, version, m, ev) if j % 2 else [gen_record(ctx.rng, kind, version, True, ev) for _ in range(m)]
        for i, r in enumerate(recs):
            r["name"] = f"{r['name']}#{i}"           # distinct objects, so that values() can be told apart
        run_iteration_case(ctx, f"iter{n}", kind, version, recs, how, pk, BUFSIZES[j % len(BUFSIZES)], in_writing=(j % 3 == 0), probe=probe, requests=requests)
        n += 1
        if len(requests) >= 400:
            check_driver(ctx, requests)
            requests.clear()


def session_shapes(ctx, probe: dict, requests: list, ev: dict):
    n = 0
    for kind, version, recs, script, bufsize, shape in load_corpus_scripts():
        run_script_case(ctx, f"sesscorpus{n}", kind, version, recs, script, bufsize, "corpus:" + shape, probe, requests)
        n += 1
    for kind in ("mol", "ens"):
        for version in (2, 1):
            for bufsize in BUFSIZES:
                for shape, mk in (("interleaved", shape_interleaved), ("alternating", shape_alternating), ("reread", shape_reread)):
                    m = ctx.rng.range(3, 6)
                    recs = [gen_record(ctx.rng, kind, version, True, ev) for _ in range(m)]
                    run_script_case(ctx, f"sess{n}", kind, version, recs, mk(m), bufsize, shape, probe, requests)
                    n += 1
    for _ in range(24 if ctx.quick() else 400):
        ctx.check_deadline()
        kind = "mol" if ctx.rng.chance(3, 5) else "ens"
        version = 2 if ctx.rng.chance(3, 4) else 1
        m = ctx.rng.range(2, 8)
        recs = [gen_record(ctx.rng, kind, version, True, ev) for _ in range(m)]
        run_script_case(ctx, f"sess{n}", kind, version, recs, shape_random(ctx.rng, m), ctx.rng.choice(BUFSIZES), "random", probe, requests)
        n += 1
        if len(requests) >= 400:
            check_driver(ctx, requests)
            requests.clear()


def _nan_free(a: bytes, b: bytes) -> bool:
    """byte comparison is skipped only when the two encodings differ inside a NaN (payload bits are hardware business)"""
    import msgpack
    try:
        x = msgpack.loads(a, use_list=False, strict_map_key=False)
        y = msgpack.loads(b, use_list=False, strict_map_key=False)
    except Exception:  # noqa: BLE001
        return True
    return cl.canon_bin_nan(cl.canon_nan(cl.toks(x))) != cl.canon_bin_nan(cl.canon_nan(cl.toks(y))) or len(a) != len(b)


def check_driver(ctx, requests: list):
    outs = ctx.driver([r[0] for r in requests])
    for (line, wire_t, back_t, replay, rawb), out in zip(requests, outs):
        parts = out.split(" ")
        if len(parts) > 3 and parts[1] == "B" and rawb is not None:
            # byte-exact: what the library stored is the model's msgpack encoding of ser(input)
            mb = b"" if parts[2] == "-" else bytes.fromhex(parts[2])
            ctx.count("stored-bytes-compared")
            if mb != rawb and _nan_free(rawb, mb):
                ctx.disagree("stored bytes differ from pack(ser(input))", replay, rawb.hex()[:600], mb.hex()[:600])
        if parts[0] != "ok":
            if back_t is not None:
                ctx.disagree("model cannot decode what the code decodes", replay, "read back", parts[0])
            continue
        try:
            kpos = parts.index("K")
        except ValueError:
            ctx.disagree("malformed driver response", replay, "-", out[:200])
            continue
        mw = cl.canon_bin_nan(cl.canon_nan(parts[4:kpos]))
        mk = cl.canon_nan(parts[kpos + 1:])
        if wire_t is not None and mw != wire_t:
            ctx.disagree("raw stored tuple differs from N(ser(input))", replay, " ".join(wire_t)[:1500], " ".join(mw)[:1500])
        if back_t is None:
            ctx.disagree("code cannot decode what the model decodes", replay, "exception", "ok")
        elif mk != back_t:
            d = next((i for i, (a, b) in enumerate(zip(mk, back_t)) if a != b), min(len(mk), len(back_t)))
            ctx.disagree("read-back object differs from deser(N(ser(input)))", replay,
                         " ".join(back_t[max(0, d - 5):d + 10]), " ".join(mk[max(0, d - 5):d + 10]))


# --------------------------------------------------------------------------------------
# the check
# --------------------------------------------------------------------------------------
def load_corpus() -> list:
    out = []
    d = common.VERIF / "corpus" / "C01"
    if d.is_dir():
        for p in sorted(d.glob("*.json")):
            o = json.loads(p.read_text())
            r = o.get("replay", o)
            if "record" not in r:
                continue
            out.append((r["kind"], int(r["version"]), cl.record_from_tokens(r["kind"], r["record"].split(" ")), r.get("how", "plain")))
    return out


def load_corpus_scripts() -> list:
    out = []
    d = common.VERIF / "corpus" / "C01"
    if d.is_dir():
        for p in sorted(d.glob("*.json")):
            r = json.loads(p.read_text())
            r = r.get("replay", r)
            if "script" in r:
                out.append((r["kind"], int(r["version"]), [cl.record_from_tokens(r["kind"], t.split(" ")) for t in r["records"]],
                            script_from_text(r["script"]), int(r["bufsize"]), r.get("shape", "corpus")))
    return out


def bundled(ctx, probe: dict, requests: list):
    """every bundled library: read each record, compare the stored tuple with ser(read-back) in the model, and send
    the read-back object through a second store/read cycle, which must be exact"""
    import molli as ml
    fdir = Path(ml.files.__file__).parent if hasattr(ml, "files") else common.REPO / "molli" / "files"
    for src in sorted(list(fdir.glob("*.mlib")) + list(fdir.glob("*.clib"))):
        if src.stat().st_size == 0:
            continue
        kind = "mol" if src.suffix == ".mlib" else "ens"
        dst = ctx.scratch / ("bundled_" + src.name)
        shutil.copyfile(src, dst)
        version = 1 if dst.read_bytes()[:16].startswith(cl.V1_MAGIC) else 2
        from molli.storage.ukvfile import UKVFile
        with UKVFile(dst, mode="r") as f:
            keys = sorted(k.decode() for k in f.keys())
        if ctx.quick():
            keys = keys[:: max(1, len(keys) // 12)]
        raws = cl.raw_values(dst, keys)
        objs = cl.load(kind, dst, keys)
        sch = probe["orders"][(kind, version)]["ser"]
        stoks = schema_tokens(sch, (probe["atom_dflt"], probe["bond_dflt"]))
        second = []
        for k in keys:
            o = objs[k]
            replay = {"bundled": src.name, "key": k, "kind": kind, "version": version}
            ctx.count(f"bundled:{src.name}")
            if isinstance(o, Exception):
                ctx.violation("C01:bundled-record-unreadable", f"{src.name}[{k}]: {type(o).__name__}: {o}", replay)
                continue
            s = cl.snapshot(o)
            replay["record"] = " ".join(cl.record_tokens(s))
            ctx.case(f"bundled|{src.name}|{k}", nontrivial=nontrivial(s))
            wire_t = cl.canon_bin_nan(cl.canon_nan(cl.toks(raws[k])))
            # what was read is a fixed point: re-encoding gives the stored tuple, decoding that gives the object
            requests.append((" ".join([kind] + stoks + cl.record_tokens(s)), wire_t, cl.canon_nan(cl.record_tokens(s)), replay, None))
            second.append(s)
        run_batch(ctx, f"second_{src.stem}", kind, version, second, probe, requests, count=False, vary=False)
        # exactness of the second generation is part of run_batch's oracle (compare is typed-exact / f32-exact)


def run(ctx):
    import warnings
    warnings.filterwarnings("ignore", category=RuntimeWarning)   # numpy: overflow in the float32 cast of 1e39 (intended input)
    _ = ctx.scratch   # also points MOLLI_HOME into the scratch directory before molli is imported
    ctx.rule = ("records: molecules and ensembles over all Element values (incl. Unknown), every member of AtomType/"
                "AtomStereo/AtomGeom/BondType/BondStereo, None/empty/unicode labels, isotopes, formal charges and spins, "
                "0..40 (thorough: ..300) atoms, 0..2n bonds (multigraphs: parallel bonds of one pair in both orientations, twins, self-bonds, isolated atoms, repeated labels), 0..12 conformers, NaN/+-0/inf/subnormal coordinates, nested "
                "attribute trees (None, bool, ints to 2^64-1, floats, str, bytes, list, tuple, dict with str and non-str "
                "keys) on molecule, atoms and bonds; current encoding and legacy encoding (restricted to its schema). "
                "Each record is stored in a real library file and read back. Session shapes: (a) batches - one writing() session "
                "stores up to 50 records, one reading() session on a fresh object reads them; (b) interleaved - inside ONE "
                "writing() session: store, store, read the first (not the last record), store, read earlier ones, ..., list keys, "
                "read all; (c) alternating - writing()/reading()/writing()/reading() on one long-lived object, the second writing "
                "session reads earlier records between its stores; (d) random scripts of sessions and put/get/keys steps; "
                "(b)-(d) for both classes, both encodings and bufsize in {-1, 0, 64, 10^6}, always followed by a fresh object "
                "reading every key and by the byte comparison of the stored values; every read is a double read (read, edit the returned object in place, read the same key again on the same library "
                "object; the last key once more in a second reading session) and scripts contain get-edit-get steps; "
                "(f) two and three libraries of either class on DIFFERENT paths whose writing sessions overlap (opened / flushed in "
                "both orders and staggered, same and different keys, all bufsize values): each library is compared with its own "
                "reference map after every step and after closing (keys of the file, fresh object, stored bytes); (g) iteration "
                "(items(), keys()+[], iter()+[], values()) with lookups of earlier / later / the same / mixed keys between two steps, "
                "equal-size and unequal-size records, reading and writing sessions; "
                "(h) a library (re-)created at a path that held nothing / a library of the same / of the other generation, records stored "
                "by the creating object or by one opened afterwards, read by the writer and by a fresh object; "
                "(e) two library objects on one path: a "
                "long-lived object stores and reads, another object re-creates the file (overwrite=True) under the same keys or "
                "appends, the long-lived object reads again. Stored objects are built plainly or (half of the stream, all "
                "variants on the probes) from shared / re-parented Atom objects: reparented, shallow copy (source alive / "
                "collected), copy constructor, conformer of an ensemble, copy of a substructure, edited (del_atom), ensemble "
                "from molecules. Non-trivial: >= 1 atom and >= 1 field that "
                "is not the constructor default (records) / a read between two stores of one writing session (scripts); "
                "distinct by canonical record tokens + encoding (+ script).")
    ctx.assumptions += [
        "msgpack is modelled at the level of its data model (N = loads . dumps); its byte format is not modelled. "
        "N is compared with the real loads(dumps(v)) on every generated attribute tree",
        "A-f32: double -> float32 -> double conversions are the hardware's (numpy and the Lean runtime use the same "
        "C conversion); NaN payloads are not compared",
        "the key -> record map of the file itself is C02/C03's subject; here keys of one session are distinct",
    ]
    from harness.gen import Schema
    pr = ctx.proof(props=["Molli.Props.C01"], gen=["Schema"])
    probe = Schema.cached_probe()
    ev = _enum_vals()
    requests: list = []

    # ---- version dispatch: the table that was generated is what the model says ----
    vlines, vexp = [], []
    for head, ver in probe["versions"]:
        vlines.append("ver " + ("none" if head is None else head.hex()))
        vexp.append(str(ver))
    for (line, exp), got in zip(zip(vlines, vexp), ctx.driver(vlines)):
        ctx.case("ver|" + line, nontrivial=True)
        ctx.count("version-dispatch")
        if got != exp:
            ctx.disagree("codec version chosen for a file header", line, exp, got)

    # ---- all-fields-distinct probes first (any dropped / swapped field shows here) ----
    for kind in ("mol", "ens"):
        for version in (2, 1):
            recs = []
            for v in Schema.variants(kind):
                r = Schema.probe_record(kind, v)
                if version == 1:   # restricted to the legacy schema
                    for a in r["atoms"]:
                        a[6], a[7], a[8] = 0, 0, {}
                    for b in r["bonds"]:
                        b[6] = {}
                    r["attrib"] = {}
                recs.append(r)
            run_batch(ctx, f"probe_{kind}{version}", kind, version, recs, probe, requests, vary=False)
            # ... and as multigraphs: the bond sequence is a LIST (parallel bonds, self-bonds, twins, isolated atoms all stay)
            multi = [multigraph_of(recs[0], version), multigraph_of(recs[1], version)]
            run_batch(ctx, f"probe_{kind}{version}_multigraph", kind, version, multi + [copy.deepcopy(m) for m in multi], probe, requests,
                      hows=["plain", "plain", "reparented", "copy-ctor"])
            # the same all-fields-distinct objects reached through every other public construction
            sweep = [(r, h) for h in cl.HOWS[kind][1:] for r in recs[:2]]
            run_batch(ctx, f"probe_{kind}{version}_built", kind, version, [copy.deepcopy(r) for r, _ in sweep], probe, requests,
                      hows=[h for _, h in sweep])

    # ---- corpus ----
    for i, (kind, version, rec, how) in enumerate(load_corpus()):
        run_batch(ctx, f"corpus{i}", kind, version, [rec], probe, requests, hows=[how])
        ctx.count("corpus")

    # ---- seeded stream ----
    total = 300 if ctx.quick() else 5000
    batch = 20 if ctx.quick() else 50
    done = 0
    b = 0
    while done < total:
        ctx.check_deadline()
        kind = "mol" if ctx.rng.chance(3, 5) else "ens"
        version = 2 if ctx.rng.chance(3, 4) else 1
        n = min(batch, total - done)
        recs = [gen_record(ctx.rng, kind, version, ctx.quick(), ev) for _ in range(n)]
        run_batch(ctx, f"rnd{b}", kind, version, recs, probe, requests)
        done += n
        b += 1
        if len(requests) >= 400:
            check_driver(ctx, requests)
            requests = []

    # ---- session shapes: interleaved reads and writes on one long-lived library object ----
    session_shapes(ctx, probe, requests, ev)
    two_object_shapes(ctx, probe, requests, ev)
    generation_shapes(ctx, probe, requests, ev)
    several_library_shapes(ctx, probe, requests, ev)
    iteration_shapes(ctx, probe, requests, ev)

    # ---- bundled libraries (legacy files go through the legacy codec) ----
    bundled(ctx, probe, requests)
    check_driver(ctx, requests)

    # ---- N against the real msgpack on attribute trees ----
    import msgpack
    trees = [gen_tree(ctx.rng, 4, True, False) for _ in range(200 if ctx.quick() else 3000)]
    lines = ["N " + " ".join(cl.toks(t)) for t in trees]
    for t, line, got in zip(trees, lines, ctx.driver(lines)):
        ctx.count("N-vs-msgpack")
        try:
            real = msgpack.loads(msgpack.dumps(t), use_list=False, strict_map_key=False)
        except Exception as e:  # noqa: BLE001
            ctx.disagree("msgpack refused a generated tree", line, f"{type(e).__name__}: {e}", got)
            continue
        if cl.canon_nan(cl.toks(real)) != cl.canon_nan(got.split(" ")):
            ctx.disagree("N differs from msgpack loads(dumps(v))", line, " ".join(cl.toks(real))[:800], got[:800])
    # ---- the byte format itself: pack / unpack against the real msgpack ----
    edge = [list(range(n)) for n in (15, 16, 17)] + [{str(i): i for i in range(n)} for n in (15, 16, 17)] + \
           ["x" * n for n in (31, 32, 255, 256)] + [b"y" * n for n in (255, 256)] + cl_ints()
    if not ctx.quick():
        edge += [list(range(65536)), "x" * 65536, b"y" * 65536, {str(i): i for i in range(65536)}]
    vals = trees + edge
    plines = ["pack " + " ".join(cl.toks(t)) for t in vals]
    for t, got in zip(vals, ctx.driver(plines)):
        ctx.count("pack-vs-msgpack")
        real = msgpack.dumps(t)
        if (real.hex() or "-") != got and _nan_free(real, b"" if got in ("-", "unpackable") else bytes.fromhex(got)):
            ctx.disagree("pack differs from msgpack.dumps", repr(t)[:200], real.hex()[:400], got[:400])
    ulines = ["unpack " + (msgpack.dumps(t).hex() or "-") for t in vals]
    for t, got in zip(vals, ctx.driver(ulines)):
        ctx.count("unpack-vs-msgpack")
        real = msgpack.loads(msgpack.dumps(t), use_list=False, strict_map_key=False)
        if cl.canon_nan(cl.toks(real)) != cl.canon_nan(got.split(" ")):
            ctx.disagree("unpack differs from msgpack.loads", repr(t)[:200], " ".join(cl.toks(real))[:400], got[:400])
    ctx.extra_cov.pop("_shrunk", None)
    ctx.extra_cov["probed_orders"] = {f"{k[0]}_v{k[1]}": v for k, v in probe["orders"].items()}
    ctx.extra_cov["proof_ok"] = pr.ok


def replay(ctx, path):
    obj = json.loads(Path(path).read_text())
    print(json.dumps({k: v for k, v in obj.items() if k != "replay"}, indent=1)[:3000])
    r = obj.get("replay") or {}
    if "events" in r or str(r.get("shape", "")).startswith("iteration:"):
        _ = ctx.scratch
        from harness.gen import Schema
        probe = Schema.cached_probe()
        if "events" in r:
            spec = []
            for lb in r["libraries"]:
                ks = sorted(lb["records"], key=lambda k: [e[2] for e in r["events"] if e[0] == "put" and e[2] == k][:1])
                order = [e[2] for e in r["events"] if e[0] == "put" and e[1] == len(spec)]
                spec.append((lb["kind"], int(lb["version"]), int(lb["bufsize"]),
                             [cl.record_from_tokens(lb["kind"], lb["records"][k].split(" ")) for k in sorted(set(order))]))
            run_multi_case(ctx, "replay_multi", spec, [tuple(e) for e in r["events"]], r["shape"], probe, [])
        else:
            _, how, pk = r["shape"].split(":")
            recs = [cl.record_from_tokens(r["kind"], t.split(" ")) for t in r["records"]]
            run_iteration_case(ctx, "replay_iter", r["kind"], int(r["version"]), recs, how, pk, int(r["bufsize"]), bool(r["in_writing"]), probe, [])
        bad = [v for v in ctx.violations if v["kind"] != KNOWN_KIND]
        for v in bad:
            print("violation:", v["kind"], v["what"])
        print("replayed:", "differs" if bad else "every read gave what was stored in that library")
        return 1 if bad else 0
    if "old_generation" in r:
        _ = ctx.scratch
        from harness.gen import Schema
        recs = [cl.record_from_tokens(r["kind"], t.split(" ")) for t in r["records"]]
        run_generation_case(ctx, "replay_gen", r["kind"], int(r["old_generation"]), int(r["new_generation"]), recs, bool(r["write_with_creator"]),
                            Schema.cached_probe(), [])
        bad = [v for v in ctx.violations if v["kind"] != KNOWN_KIND]
        for v in bad:
            print("violation:", v["kind"], v["what"])
        print("re-creation:", "differs" if bad else "every reader got the stored objects back")
        return 1 if bad else 0
    if "records2" in r:
        _ = ctx.scratch
        from harness.gen import Schema
        kind, version = r["kind"], int(r["version"])
        recs1 = [cl.record_from_tokens(kind, t.split(" ")) for t in r["records"]]
        recs2 = [cl.record_from_tokens(kind, t.split(" ")) for t in r["records2"]]
        run_two_objects_case(ctx, "replay_two", kind, version, recs1, recs2, r["shape"].startswith("recreated"), int(r["bufsize"]),
                             Schema.cached_probe(), [])
        bad = [v for v in ctx.violations if v["kind"] != KNOWN_KIND]
        for v in bad:
            print("violation:", v["kind"], v["what"])
        print("two library objects on one path:", "differs" if bad else "every read gave the object stored last")
        return 1 if bad else 0
    if "script" in r:
        _ = ctx.scratch
        kind, version = r["kind"], int(r["version"])
        recs = [cl.record_from_tokens(kind, t.split(" ")) for t in r["records"]]
        script = script_from_text(r["script"])
        objs = [cl.build(x) for x in recs]
        inps = [cl.snapshot(o) for o in objs]
        bad = 0
        for si, oi, op, i, res in cl.run_script(kind, ctx.scratch / "replay.lib", version, objs, script, int(r["bufsize"])):
            if op == "get" and not isinstance(res, Exception):
                d = [x for x in cl.compare(inps[i], res if isinstance(res, dict) else cl.snapshot(res)) if x[0] != "list-read-back-as-tuple"]
                res = "exact" if not d else d
                bad += bool(d)
            elif isinstance(res, Exception):
                bad += 1
                res = f"{type(res).__name__}: {res}"
            print(f"  session {si} ({script[si][0] if si < len(script) else '?'}) step {oi}: {op} {i if i >= 0 else ''} -> {res}")
        back = cl.load(kind, ctx.scratch / "replay.lib", [f"k{i}" for i in range(len(recs))])
        for k, v in back.items():
            print(f"  fresh object: {k} -> {'ok' if not isinstance(v, Exception) else type(v).__name__ + ': ' + str(v)}")
            bad += isinstance(v, Exception)
        return 1 if bad else 0
    if "record" not in r:
        print("no record in the replay file (broken proof obligation / correspondence: see fields above)")
        return 0
    _ = ctx.scratch
    kind, version = r["kind"], int(r["version"])
    rec = cl.record_from_tokens(kind, r["record"].split(" "))
    p = ctx.scratch / "replay.lib"
    cl.new_library_file(kind, p, version)
    o, _keep = cl.build_variant(rec, r.get("how", "plain"))
    print("object built:", r.get("how", "plain"))
    inp = cl.snapshot(o)
    errs = cl.store(kind, p, [("k", o)])
    if errs:
        print("storing raised:", errs)
        return 1
    print("stored tuple:", cl.raw_values(p, ["k"])["k"])
    firsts, backs = cl.load_twice(kind, p, ["k"])
    back = backs["k"]
    if isinstance(back, Exception):
        print(f"reading back raised {type(back).__name__}: {back}")
        return 1
    if isinstance(firsts["k"], dict):
        print("first read:", [d for d in cl.compare(inp, firsts["k"])] or "exact")
        print("(the caller edits that object in place and reads the key again; below: the latest read)")
    diffs = cl.compare(inp, cl.snapshot(back))
    for d in diffs:
        print("difference:", d)
    print("round trip", "differs" if diffs else "is exact")
    return 1 if any(d[0] != "list-read-back-as-tuple" for d in diffs) else 0
