"""
Child process of the C13 check: a FRESH interpreter parses the given CDXML files one after the other (each CDXMLFile is
dropped and the garbage collected before the next) and prints one JSON document:
    {file: {"frags": {fragment id: [constitution | "err:...", coordinates as hex of float64 bytes | null]},
            "keys": {label: [constitution | "err:...", coordinates hex | null, name]}, "resolved": {label: fragment id}}}
Usage:  python c13_child.py <verif dir> <file> [<file> ...]      (VERIF_REPO selects the repository, PYTHONHASHSEED the hashing)
"""
import gc
import json
import sys


def snapshot(parsed):
    import numpy as np

    def hx(x):
        return None if x is None else np.ascontiguousarray(x, dtype="float64").tobytes().hex()

    def jc(c):
        if isinstance(c, str):
            return c
        return {"atoms": [list(a) for a in c["atoms"]], "bonds": [[b[0], b[1], b[2], float(b[3])] for b in c["bonds"]],
                "charge": int(c["charge"]), "mult": int(c["mult"]), "ap": list(c["ap"])}

    return {"frags": {fid: [jc(c), hx(x)] for fid, (c, x) in parsed.by_frag.items()},
            "keys": {k: [jc(c), hx(x), n] for k, (c, x, n) in parsed.by_key.items()},
            "resolved": dict(parsed.resolved)}


def main(argv):
    verif, files = argv[1], argv[2:]
    sys.path.insert(0, verif)
    sys.dont_write_bytecode = True
    from harness import common

    common.use_repo()
    from harness import c13

    out = {}
    for f in files:
        p = c13.Parsed(f)
        out[f] = snapshot(p)
        del p
        gc.collect()
    json.dump(out, sys.stdout)
    return 0


if __name__ == "__main__":
    sys.exit(main(sys.argv))
