"""Helpers shared by the text-codec checks (C07 mol2, C08 xyz/units, C10 damaged input):
canonical forms identical to the Lean driver's (lean/Molli/Driver/TextIO.lean), generators of molecules /
geometries / ensembles through molli's public API, tolerance comparators, wall-clock-limited calls."""
from __future__ import annotations

import json
import math
import signal
from decimal import Decimal
from fractions import Fraction
from pathlib import Path

VERIF = Path(__file__).resolve().parent.parent

COORD_TOL = 1e-6      # written precision of coordinates (property C07/C08)
CHARGE_TOL = 1e-3     # written precision of partial charges


def hx(s: str) -> str:
    b = s.encode("utf-8")
    return b.hex() if b else "-"


def unhx(s: str) -> str:
    return "" if s == "-" else bytes.fromhex(s).decode("utf-8")


# ---------------------------------------------------------------------------------------------
# numbers across the driver boundary
# ---------------------------------------------------------------------------------------------
def num_token(x: float) -> str:
    """exact decimal of a double: +:m:e / -:m:e / inf / -inf / nan"""
    x = float(x)
    if math.isnan(x):
        return "nan"
    if math.isinf(x):
        return "-inf" if x < 0 else "inf"
    sign, digits, exp = Decimal(x).as_tuple()
    m = int("".join(map(str, digits)))
    if math.copysign(1.0, x) < 0:
        sign = 1
    return f"{'-' if sign else '+'}:{m}:{exp}"


def num_value(tok: str) -> float:
    """the double a driver number denotes (decimal -> nearest double, rational -> nearest double)"""
    if tok == "nan":
        return math.nan
    if tok == "inf":
        return math.inf
    if tok == "-inf":
        return -math.inf
    if "/" in tok:
        p, q = tok.split("/")
        try:
            return int(p) / int(q)
        except OverflowError:
            return math.inf if int(p) > 0 else -math.inf
    s, m, e = tok.split(":")
    v = float(f"{m}e{e}")
    return -v if s == "-" else v


def same_float(a: float, b: float, rel: float = 0.0, abs_: float = 0.0) -> bool:
    if math.isnan(a) or math.isnan(b):
        return math.isnan(a) and math.isnan(b)
    if math.isinf(a) or math.isinf(b):
        return a == b
    return abs(a - b) <= max(abs_, rel * max(abs(a), abs(b)))


# ---------------------------------------------------------------------------------------------
# enum index tables (positions in list(Enum), as in Gen/Mol2Types.lean)
# ---------------------------------------------------------------------------------------------
class Enums:
    def __init__(self):
        from molli.chem.atom import Element, AtomType, AtomGeom
        from molli.chem.bond import BondType

        self.E, self.T, self.G, self.B = list(Element), list(AtomType), list(AtomGeom), list(BondType)
        self.ei = {e: i for i, e in enumerate(self.E)}
        self.ti = {t: i for i, t in enumerate(self.T)}
        self.gi = {g: i for i, g in enumerate(self.G)}
        self.bi = {b: i for i, b in enumerate(self.B)}
        self.Element, self.AtomType, self.AtomGeom, self.BondType = Element, AtomType, AtomGeom, BondType


# ---------------------------------------------------------------------------------------------
# canonical molecules: plain dicts  {name, atoms:[{e,t,g,label,x,y,z,c}], bonds:[(a1,a2,bt)]}
# ---------------------------------------------------------------------------------------------
def canon_mol(en: Enums, m, with_charges=True) -> dict:
    atoms = []
    coords = m.coords
    charges = getattr(m, "atomic_charges", None) if with_charges else None
    for i, a in enumerate(m.atoms):
        x, y, z = (float(v) for v in coords[i])
        atoms.append({"e": en.ei[en.Element(a.element)], "t": en.ti[en.AtomType(a.atype)],
                      "g": en.gi[en.AtomGeom(a.geom)], "label": a.label or "",
                      "x": x, "y": y, "z": z, "c": float(charges[i]) if charges is not None else 0.0,
                      "fc": int(a.formal_charge), "attrib": _attrib(a.attrib)})
    idx = {id(a): i for i, a in enumerate(m.atoms)}
    bonds = [(idx[id(b.a1)], idx[id(b.a2)], en.bi[en.BondType(b.btype)]) for b in m.bonds]
    # a Substructure has no name of its own: dump_mol2 writes "unknown"
    return {"name": getattr(m, "name", "unknown"), "atoms": atoms, "bonds": bonds,
            "battrib": [_attrib(b.attrib) for b in m.bonds]}


def _attrib(d) -> dict:
    """every further field the reader fills: attributes as a str -> str mapping (order-free)"""
    return {str(k): str(v) for k, v in (d or {}).items()}


def _parse_attrib(s: str) -> dict:
    if s in ("-", ""):
        return {}
    return {unhx(k): unhx(v) for k, v in (p.split("=") for p in s.split("&"))}


def mol_request(mol: dict) -> str:
    a = "|".join(",".join([str(x["e"]), str(x["t"]), str(x["g"]), hx(x["label"]), num_token(x["x"]),
                           num_token(x["y"]), num_token(x["z"]), num_token(x["c"])]) for x in mol["atoms"])
    b = "|".join(f"{i},{j},{t}" for i, j, t in mol["bonds"])
    return f"{hx(mol['name'])};{a};{b}"


def parse_mol_response(s: str) -> dict:
    parts = s.split(";")
    nm, a, b = parts[:3]
    atoms = []
    for f in (a.split("|") if a else []):
        e, t, g, lab, x, y, z, c = f.split(",")
        atoms.append({"e": int(e), "t": int(t), "g": int(g), "label": unhx(lab), "x": num_value(x),
                      "y": num_value(y), "z": num_value(z), "c": num_value(c)})
    bonds = [tuple(int(v) for v in f.split(",")) for f in (b.split("|") if b else [])]
    out = {"name": unhx(nm), "atoms": atoms, "bonds": bonds}
    if len(parts) == 6:          # read responses: formal charges, atom attributes, bond attributes
        fcs = [int(v) for v in parts[3].split(",")] if parts[3] else []
        aat = [_parse_attrib(v) for v in parts[4].split("|")] if atoms else []
        for x, fc, at in zip(atoms, fcs, aat):
            x["fc"], x["attrib"] = fc, at
        out["battrib"] = [_parse_attrib(v) for v in parts[5].split("|")] if bonds else []
    return out


def parse_read_response(s: str):
    """-> 'err' or list of canonical molecules"""
    if s.startswith("err"):
        return "err"
    body = s[3:] if s.startswith("ok ") else s[2:]
    return [parse_mol_response(p) for p in (body.split("#") if body else [])]


def mols_equal(a, b, rel=0.0, abs_=0.0, charges=True, labels=True, extras=True) -> bool:
    if a == "err" or b == "err":
        return a == b
    if len(a) != len(b):
        return False
    for m, n in zip(a, b):
        if m["name"] != n["name"] or len(m["atoms"]) != len(n["atoms"]) or list(map(tuple, m["bonds"])) != list(map(tuple, n["bonds"])):
            return False
        for p, q in zip(m["atoms"], n["atoms"]):
            if (p["e"], p["t"], p["g"]) != (q["e"], q["t"], q["g"]):
                return False
            if labels and p["label"] != q["label"]:
                return False
            for k in ("x", "y", "z"):
                if not same_float(p[k], q[k], rel, abs_):
                    return False
            if charges and not same_float(p["c"], q["c"], rel, abs_):
                return False
            # every further field the reader fills (present on both sides for read results)
            if extras and "fc" in p and "fc" in q and (p["fc"] != q["fc"] or p.get("attrib", {}) != q.get("attrib", {})):
                return False
        if extras and "battrib" in m and "battrib" in n and m["battrib"] != n["battrib"]:
            return False
    return True


def short_mols(r):
    if r == "err":
        return "err"
    return [{"name": m["name"], "n_atoms": len(m["atoms"]), "n_bonds": len(m["bonds"]),
             "atoms": [(a["e"], a["t"], a["g"], a["label"], a["x"], a["y"], a["z"], a["c"]) for a in m["atoms"][:4]],
             "formal_charges": [a.get("fc") for a in m["atoms"]], "attribs": [a.get("attrib") for a in m["atoms"] if a.get("attrib")],
             "bonds": m["bonds"][:6]} for m in r[:4]]


# ---------------------------------------------------------------------------------------------
# xyz frames: {comment?, atoms:[{e,d,x,y,z}]}
# ---------------------------------------------------------------------------------------------
def canon_geom(en: Enums, g) -> dict:
    atoms = []
    for i, a in enumerate(g.atoms):
        x, y, z = (float(v) for v in g.coords[i])
        atoms.append({"e": en.ei[en.Element(a.element)], "d": 1 if a.atype == en.AtomType.Dummy else 0,
                      "x": x, "y": y, "z": z})
    return {"comment": getattr(g, "name", ""), "atoms": atoms}


def frame_request(fr: dict) -> str:
    a = "|".join(",".join([str(x["e"]), num_token(x["x"]), num_token(x["y"]), num_token(x["z"])]) for x in fr["atoms"])
    return f"{hx(fr['comment'])};{a}"


def parse_frames_response(s: str):
    if s.startswith("err"):
        return "err"
    body = s[3:] if s.startswith("ok ") else s[2:]
    out = []
    for p in (body.split("#") if body else []):
        cm, a = p.split(";")
        atoms = []
        for f in (a.split("|") if a else []):
            e, d, x, y, z = f.split(",")
            atoms.append({"e": int(e), "d": int(d), "x": num_value(x), "y": num_value(y), "z": num_value(z)})
        out.append({"comment": unhx(cm), "atoms": atoms})
    return out


def frames_equal(a, b, rel=0.0, abs_=0.0, dummy=True) -> bool:
    if a == "err" or b == "err":
        return a == b
    if len(a) != len(b):
        return False
    for f, g in zip(a, b):
        if len(f["atoms"]) != len(g["atoms"]):
            return False
        for p, q in zip(f["atoms"], g["atoms"]):
            if p["e"] != q["e"] or (dummy and p["d"] != q["d"]):
                return False
            for k in ("x", "y", "z"):
                if not same_float(p[k], q[k], rel, abs_):
                    return False
    return True


def short_frames(r):
    if r == "err":
        return "err"
    return [{"n": len(f["atoms"]), "atoms": [(a["e"], a["d"], a["x"], a["y"], a["z"]) for a in f["atoms"][:4]]} for f in r[:4]]


# ---------------------------------------------------------------------------------------------
# wall-clock limited call of the real code (pure-Python loops are interruptible by a signal)
# ---------------------------------------------------------------------------------------------
class Hang(Exception):
    pass


def limited(fn, seconds: float = 5.0):
    """returns ('ok', value) | ('err', exception) | ('hang', None)"""
    def on_alarm(signum, frame):
        raise Hang()

    old = signal.signal(signal.SIGALRM, on_alarm)
    signal.setitimer(signal.ITIMER_REAL, seconds)
    try:
        return ("ok", fn())
    except Hang:
        return ("hang", None)
    except RecursionError as e:
        return ("err", e)
    except Exception as e:  # noqa: BLE001  (any exception is the observable "rejected")
        return ("err", e)
    finally:
        signal.setitimer(signal.ITIMER_REAL, 0)
        signal.signal(signal.SIGALRM, old)


# ---------------------------------------------------------------------------------------------
# generators (every random choice from ctx.rng)
# ---------------------------------------------------------------------------------------------
LABEL_ALPHABET = "ABCXYZabcxyz0123456789#@*_.-+'\"()[]{}<>/\\|~^&%$!?:;,="
BOUNDARY_COORDS = [0.0, -0.0, 1.0, -1.0, 0.5e-6, -0.5e-6, 1.5e-6, 2.5e-6, 1e-7, -1e-7, 4.9999995e-6, 1234.5678915,
                   0.1234565, -0.1234575, 1e7, -1e7, 99999.9999995, 1e-300, 123456789012.5, 1e15, -3.0000005]
SPECIAL_COORDS = [math.nan, math.inf, -math.inf]
BOUNDARY_CHARGES = [0.0, -0.0, 0.0005, -0.0005, 0.0015, -0.0004, 0.0004, 1.0, -1.0, 0.1235, 12.3455, -0.9995, 1e-9]
NAMES = ["mol", "ISOSORBIDE DINITRATE", "a_b-c.1", "x" * 40, "@<TRIPOS>ATOM", "@<TRIPOS>MOLECULE", "# not a comment",
         "****", "12 7", "name with  two spaces", "", "0", "UNITY_ATOM_ATTR"]


def gen_label(rng) -> str:
    r = rng.below(10)
    if r == 0:
        return ""
    if r == 1:
        return rng.choice(["****", "#", "@", "@<TRIPOS>BOND", "1", "C1", "Du", "x" * 12, "H_23'"])
    n = rng.weighted([(1, 3), (2, 4), (3, 3), (4, 2), (7, 1)])
    return "".join(rng.choice(LABEL_ALPHABET) for _ in range(n))


def gen_coord(rng, specials: bool) -> float:
    r = rng.below(20)
    if r < 5:
        return rng.choice(BOUNDARY_COORDS)
    if r == 5 and specials:
        return rng.choice(SPECIAL_COORDS)
    if r < 9:
        # a tie or near-tie at the 7th decimal
        base = rng.range(-5_000_000, 5_000_000)
        return (base * 10 + rng.choice([5, 5, 4, 6])) / 1e7
    mag = rng.choice([1.0, 10.0, 100.0, 1e4])
    return (rng.uniform() * 2 - 1) * mag


def gen_charge(rng, specials: bool) -> float:
    r = rng.below(10)
    if r < 3:
        return rng.choice(BOUNDARY_CHARGES)
    if r == 3 and specials:
        return math.nan
    if r < 6:
        return (rng.range(-20000, 20000) * 10 + 5) / 1e5
    return rng.uniform() * 2 - 1


def gen_mol_spec(rng, en: Enums, max_atoms: int, specials: bool, name=None) -> dict:
    """a molecule as plain data (canonical form), over all elements / atom types / geometries / bond types"""
    n = rng.weighted([(0, 1), (1, 2), (2, 3), (3, 3), (5, 3), (8, 2), (max_atoms, 1)])
    n = min(n, max_atoms)
    atoms = []
    common_e = [en.ei[en.Element[s]] for s in ("C", "N", "O", "S", "H", "Unknown", "Cl", "Fe")]
    for _ in range(n):
        e = rng.choice(common_e) if rng.chance(2, 3) else rng.below(len(en.E))
        atoms.append({"e": e, "t": rng.below(len(en.T)), "g": rng.below(len(en.G)), "label": gen_label(rng),
                      "x": gen_coord(rng, specials), "y": gen_coord(rng, specials), "z": gen_coord(rng, specials),
                      "c": gen_charge(rng, specials)})
    # repeated labels (several atoms share one label)
    if n >= 2 and rng.chance(1, 4):
        lab = rng.choice(["C", "H1", "X", gen_label(rng)])
        for a in atoms:
            if rng.chance(1, 2):
                a["label"] = lab
    bonds = []
    if n >= 1:
        nb = rng.weighted([(0, 1), (1, 2), (max(n - 1, 1), 3), (n, 2), (2 * n, 1)])
        seen = set()
        for _ in range(nb):
            i, j = rng.below(n), rng.below(n)
            if i == j and not rng.chance(1, 6):          # a bond from an atom to itself: rare, the writer allows it
                continue
            if ((i, j) in seen or (j, i) in seen) and not rng.chance(1, 3):
                continue
            seen.add((i, j))
            bonds.append((i, j, rng.below(len(en.B))))
        # multigraph: 2..3 parallel bonds on one atom pair, same and different types, both orientations
        if bonds and rng.chance(1, 3):
            i, j, t = rng.choice(bonds)
            for _ in range(rng.range(1, 2)):
                t2 = t if rng.chance(2, 3) else rng.below(len(en.B))
                bonds.insert(rng.below(len(bonds) + 1), (j, i, t2) if rng.chance(1, 2) else (i, j, t2))
    nm = name if name is not None else rng.choice(NAMES)
    return {"name": nm, "atoms": atoms, "bonds": bonds}


def build_molecule(en: Enums, spec: dict, cls=None):
    """spec -> molli object through the public API"""
    import molli as ml
    from molli.chem import Atom, Bond

    cls = cls or ml.Molecule
    atoms = [Atom(en.E[a["e"]], label=(a["label"] or None), atype=en.T[a["t"]], geom=en.G[a["g"]]) for a in spec["atoms"]]
    coords = [[a["x"], a["y"], a["z"]] for a in spec["atoms"]]
    kw = {}
    if cls is ml.Molecule:
        kw["atomic_charges"] = [a["c"] for a in spec["atoms"]]
    if atoms:
        m = cls(atoms, name=spec["name"], coords=coords, **kw)
    else:
        m = cls(None, n_atoms=0, name=spec["name"])
    for i, j, t in spec["bonds"]:
        m.append_bond(Bond(atoms[i], atoms[j], btype=en.B[t]))
    return m


def set_weights(rng, ens):
    """non-uniform conformer weights: distinct, with ties, with zeros, or left uniform"""
    import numpy as np

    k = ens.n_conformers
    mode = rng.below(5)
    if mode == 0 or k == 0:
        return "uniform"
    if mode == 1:
        w = [float(rng.range(1, 1000)) / 100.0 for _ in range(k)]
    elif mode == 2:
        w = [float(rng.choice([1, 2, 2, 3])) for _ in range(k)]
    elif mode == 3:
        w = [float(rng.choice([0, 0, 1, 5])) for _ in range(k)]
    else:
        w = [float(i + 1) for i in range(k)]          # strictly increasing: the reverse of "most populated first"
    ens.weights = np.array(w)
    return "weights=" + ",".join(str(x) for x in w)


def canon_ensemble(en: Enums, ens) -> list:
    """the conformers of an ensemble as canonical molecules, taken from its ARRAYS (coords, atomic_charges, atoms,
    bonds) — not through iteration or conformer views, which are what the writers use"""
    import numpy as np

    coords = np.asarray(ens.coords, dtype=float)
    charges = np.asarray(ens.atomic_charges, dtype=float)
    idx = {id(a): i for i, a in enumerate(ens.atoms)}
    bonds = [(idx[id(b.a1)], idx[id(b.a2)], en.bi[en.BondType(b.btype)]) for b in ens.bonds]
    out = []
    for j in range(coords.shape[0]):
        atoms = [{"e": en.ei[en.Element(a.element)], "t": en.ti[en.AtomType(a.atype)], "g": en.gi[en.AtomGeom(a.geom)],
                  "label": a.label or "", "x": float(coords[j][i][0]), "y": float(coords[j][i][1]), "z": float(coords[j][i][2]),
                  "c": float(charges[j][i]), "d": 1 if a.atype == en.AtomType.Dummy else 0} for i, a in enumerate(ens.atoms)]
        out.append({"name": ens.name, "comment": ens.name, "atoms": atoms, "bonds": bonds})
    return out


def grow_ensemble(rng, en, ml, base: dict, make_conf, dump, n_ops: int):
    """a write–grow–write history on ONE ConformerEnsemble: append / extend(list) / extend(ensemble) / iterate / dump in
    a random order that always contains dump -> grow -> dump. `make_conf()` gives a new conformer (molli Molecule of the
    same atoms), `dump(ens, step)` is called for every dump step. Returns the list of steps taken."""
    ens = ml.ConformerEnsemble([make_conf() for _ in range(rng.range(1, 3))])
    steps = [set_weights(rng, ens)]
    plan = [rng.choice(["dump", "iterate", "append", "extend-list", "extend-ensemble"]) for _ in range(n_ops)]
    plan += ["dump", rng.choice(["extend-list", "extend-ensemble", "append"]), "dump",
             rng.choice(["extend-list", "extend-ensemble"]), "iterate", rng.choice(["append", "extend-list"]), "dump"]
    for op in plan:
        steps.append(op)
        if op == "dump":
            dump(ens, list(steps))
        elif op == "iterate":
            sum(1 for _ in ens)
        elif op == "append":
            ens.append(make_conf())
        elif op == "extend-list":
            ens.extend([make_conf() for _ in range(rng.range(1, 2))])
        else:
            ens.extend(ml.ConformerEnsemble([make_conf() for _ in range(rng.range(1, 2))]))
    return steps


def reentrant_dump(ens, method: str):
    """dump `ens` through a stream whose first write() starts a second, complete dump of the SAME ensemble (what a
    logging / tee stream or a second thread does): returns (outer text, inner text)"""
    from io import StringIO

    class Tee(StringIO):
        inner = None
        busy = False

        def write(self, s):
            if self.inner is None and not self.busy:
                self.busy = True
                try:
                    self.inner = getattr(ens, "dumps_" + method)()
                finally:
                    self.busy = False
            return super().write(s)

    st = Tee()
    getattr(ens, "dump_" + method)(st)
    return st.getvalue(), st.inner


def load_corpus(prop: str) -> list:
    d = VERIF / "corpus" / prop
    out = []
    if d.is_dir():
        for p in sorted(d.glob("*.json")):
            out.append(json.loads(p.read_text()))
    return out


def bundled_files(repo: Path, suffix: str) -> list:
    d = repo / "molli" / "files"
    return sorted(p for p in d.glob(f"*{suffix}") if p.stat().st_size > 0)
