"""
C02 — a library file is an insert-only key-value map over any operation history.

Proof:  Molli.Props.C02 (invariant over op histories, refinement to an insert-only map, failed-op frame,
        shortcut soundness, header preservation, backend listed_readable / flush_drains)
        + generated layout obligations Molli.Gen.UkvLayout.
Tie:    op-sequence differential, byte exact: the same sequences (bounded-exhaustive short ones, then
        random ones up to length 60, 1..3 handles with possibly stale cached tables of contents) are run on
        the real UKVFile / Collection(UkvCollectionBackend) and on the Lean model; outcome tokens, key
        listings, returned values and the final file bytes are compared.
Oracle: a Python dict as reference map + an independent scanner of the file + "a failed operation changes
        nothing" snapshots.
Scope (as the property's C04 companion guarantees): an open writable handle is exclusive — the generator
never has another handle open while one is open for writing.
"""
from __future__ import annotations

import itertools
import json
from pathlib import Path

from harness import ukvlib
from harness.ukvlib import hx, err_token, keys_token

K255 = b"K" * 255
K256 = b"L" * 256
KEYS = [b"a", b"b", K255, K256, b"\x00\xff", b""]
BIGV = bytes((i * 7 + 3) % 251 for i in range(70_000))
VALS = [b"", b"v", b"\x00\x00\x00\x00\x05", BIGV]


class Real:
    """the real UKVFile objects driven by op tuples; returns the driver's canonical tokens"""

    def __init__(self, path: Path):
        self.path = path
        self.h = {}
        self.n = 0          # the public spellings of one operation (open()/`with f:`, get()/f[k], …) are used in turn

    def apply(self, op):
        from molli.storage.ukvfile import UKVFile

        kind = op[0]
        self.n += 1
        try:
            if kind == "new":
                _, i, m, h1, h2, b0 = op
                self.h.pop(i, None)
                self.h[i] = UKVFile(self.path, m, h1=h1 or None, h2=h2 or None, b0=b0 or None)
                return "ok"
            i = op[1]
            if i not in self.h:
                return "err:no-handle"
            f = self.h[i]
            if kind == "reopen":
                if op[2] is None and self.n % 3 == 0:
                    f.__enter__()                      # `with f:` on an existing handle object
                elif op[2] is None and self.n % 3 == 1:
                    f.open()
                else:
                    f.open(op[2])
                return "ok"
            if kind == "close":
                if self.n % 2:
                    f.close()
                else:
                    f.__exit__(None, None, None)
                return "ok"
            if kind == "put":
                if self.n % 2:
                    f.put(op[2], op[3])
                else:
                    f[op[2]] = op[3]
                return "ok"
            if kind == "get":
                return "val:" + hx(f.get(op[2]) if self.n % 2 else f[op[2]])
            if kind == "keys":
                return keys_token(list(f.keys()))
        except Exception as e:
            return err_token(e, kind)
        raise ValueError(kind)

    def close_all(self):
        for f in self.h.values():
            try:
                f.close()
            except Exception:
                pass


def op_line(op) -> str:
    k = op[0]
    if k == "new":
        return f"new {op[1]} {op[2]} {hx(op[3])} {hx(op[4])} {hx(op[5])}"
    if k == "reopen":
        return f"reopen {op[1]} {op[2] or '-'}"
    if k == "put":
        return f"put {op[1]} {hx(op[2])} {hx(op[3])}"
    if k == "get":
        return f"get {op[1]} {hx(op[2])}"
    return f"{k} {op[1]}"


def op_short(op):
    def b(x):
        return hx(x) if len(x) <= 8 else f"<{len(x)}B>"
    return " ".join(b(x) if isinstance(x, bytes) else str(x) for x in op)


class Track:
    """generator-side view of handle states, to keep the reader-writer discipline"""

    def __init__(self):
        self.state = {}      # i -> "closed" | "r" | "w"
        self.mode = {}       # i -> last mode
        self.exists = False

    def others_open(self, i, writable_only=False):
        for j, s in self.state.items():
            if j != i and (s == "w" or (s == "r" and not writable_only)):
                return True
        return False

    def allowed(self, op) -> bool:
        k, i = op[0], op[1]
        if k == "new":
            m = op[2]
            if self.state.get(i) in ("r", "w"):
                return False                      # do not leak an open object
            if m in ("w",):
                # truncating an existing file while other handle objects cache its contents is outside "insert-only"
                if self.exists and any(j != i for j in self.state):
                    return False
                return not self.others_open(i)
            if m == "x":
                return not self.others_open(i)
            if m == "a":
                return not self.others_open(i)
            return not self.others_open(i, writable_only=True)
        if i not in self.state:
            return True                           # err:no-handle on both sides
        if k == "reopen":
            if self.state[i] != "closed":
                return True                       # no-op
            m = op[2] or self.mode[i]
            if m in ("w", "x"):
                return False
            if m == "a":
                return not self.others_open(i)
            return not self.others_open(i, writable_only=True)
        return True

    def note(self, op, out: str):
        k, i = op[0], op[1]
        if k == "new":
            if out == "ok":
                m = op[2]
                self.state[i] = "r" if m == "r" else "w"
                self.mode[i] = m
                self.exists = True
            else:
                self.state.pop(i, None)
        elif i in self.state:
            if k == "reopen" and self.state[i] == "closed":
                if op[2]:
                    self.mode[i] = op[2]
                if out == "ok":
                    self.state[i] = "r" if self.mode[i] == "r" else "w"
            elif k == "close":
                self.state[i] = "closed"
                if self.mode[i] in ("w", "x"):
                    self.mode[i] = "a"


def run_sequence(ctx, path: Path, ops, h_params, check_oracle=True):
    """run ops on the real code; returns (tokens, file_hex, executed ops) and evaluates the oracle"""
    if path.exists():
        path.unlink()
    real = Real(path)
    tr = Track()
    ref = {}
    toks, done = [], []
    viol = None
    try:
        for op in ops:
            if not tr.allowed(op):
                continue
            before_file = path.read_bytes() if path.exists() else None
            before_keys = {i: sorted(f.keys()) for i, f in real.h.items()}
            state_before = tr.state.get(op[1]) if len(op) > 1 else None
            out = real.apply(op)
            tr.note(op, out)
            toks.append(out)
            done.append(op)
            # make pending buffered bytes visible to the byte-level comparison
            for f in real.h.values():
                if not f.closed:
                    try:
                        f._stream.flush()
                    except Exception:
                        pass
            if not check_oracle or viol:
                continue
            k = op[0]
            if k == "new" and out == "ok" and op[2] in ("w", "x"):
                ref = {}
                h_params = (op[3], op[4], op[5])
            if k == "put" and out == "ok":
                if op[2] in ref:
                    viol = ("C02:duplicate-put-succeeds", f"second put of key {hx(op[2])[:20]} succeeded")
                ref[op[2]] = op[3]
            if k in ("new", "reopen") and out == "ok" and op[1] in real.h and real.h[op[1]].closed:
                viol = ("C02:handle-closed-after-open", f"`{op_short(op)}` succeeded but the handle is still closed")
            elif k == "put" and out.startswith("err:") and state_before == "w" and op[2] not in ref and len(op[2]) < 256:
                viol = ("C02:valid-put-refused", f"`{op_short(op)}` on a handle open for writing, fresh key of {len(op[2])} bytes: {out}")
            elif k == "get" and out.startswith("err:") and state_before in ("r", "w") and op[2] in ref:
                viol = ("C02:get-differs-from-put", f"`{op_short(op)}` on an open handle failed with {out} although the key was put")
            if out.startswith("err:other:"):
                viol = ("C02:unexpected-exception", f"`{op_short(op)}` raised {out[10:]}")
            elif out.startswith("err:") and out != "err:no-handle" and k in ("new", "reopen") and path.exists() and len(path.read_bytes()) >= 32 \
                    and (op[2] in ("r", "a") or (k == "reopen" and op[2] is None and op[1] in real.h and real.h[op[1]].mode in ("r", "a"))):
                viol = ("C02:open-fails-on-valid-file", f"`{op_short(op)}` failed with {out} although the file exists and is well formed")
            if out.startswith("err:") and k in ("put", "get", "keys", "new", "reopen"):
                after_file = path.read_bytes() if path.exists() else None
                after_keys = {i: sorted(f.keys()) for i, f in real.h.items() if i in before_keys}
                bk = {i: v for i, v in before_keys.items() if i in real.h}
                if k != "new" and (after_file != before_file or after_keys != bk):
                    what = "file bytes" if after_file != before_file else "a handle's key listing"
                    viol = ("C02:failed-op-changes-state",
                            f"`{op_short(op)}` failed with {out} but changed {what}")
            # every open handle is synchronised under the discipline: its view must be the reference map
            for i, f in real.h.items():
                if f.closed or viol:
                    continue
                listed = sorted(f.keys())
                if listed != sorted(ref.keys()):
                    viol = ("C02:key-listing-differs-from-successful-puts",
                            f"after `{op_short(op)}` handle {i} lists {len(listed)} keys, {len(ref)} were put successfully")
                    break
                for kk, vv in ref.items():
                    try:
                        got = f.get(kk)
                    except Exception as e:
                        got = e
                    if got != vv:
                        viol = ("C02:get-differs-from-put", f"after `{op_short(op)}` handle {i} get({hx(kk)[:20]}) != value put")
                        break
                if not viol and real.n % 4 == 0:
                    try:
                        its = dict(f.items())
                        vs = sorted(f.values())
                    except Exception as e:
                        its, vs = f"{type(e).__name__}", None
                    if its != ref or vs != sorted(ref.values()):
                        viol = ("C02:enumeration-differs-from-successful-puts",
                                f"after `{op_short(op)}` handle {i}: items()/values() do not give the pairs put successfully ({str(its)[:60]})")
    finally:
        real.close_all()
    data = path.read_bytes() if path.exists() else None
    if check_oracle and not viol and data is not None:
        hdr, recs, clean = ukvlib.scan_file(data)
        if hdr is None or not clean:
            viol = ("C02:file-not-header-plus-blocks", "the final file is not a header followed by whole blocks")
        elif dict(recs) != ref or len(recs) != len(ref):
            viol = ("C02:file-content-differs-from-successful-puts", "independent scan of the final file != reference map")
        else:
            h1, h2, b0 = h_params
            from molli.storage.ukvfile import UKVFile
            exp_h1 = (h1 or UKVFile.FILE_H1_DEFAULT)[:16].ljust(16, b"\x00")
            if hdr["h1"] != exp_h1 or hdr["h2"] != h2 or hdr["b0"] != b0:
                viol = ("C02:header-not-preserved", "h1 / comment / descriptor block changed")
    if viol:
        ctx.violation(viol[0], viol[1], {"ops": [op_line(o) for o in done]})
    return toks, (hx(data) if data is not None else "none"), done


def exhaustive_alphabet():
    ops = []
    for i in (0, 1):
        ops += [("new", i, "r", b"", b"", b""), ("new", i, "a", b"", b"", b""), ("close", i), ("reopen", i, None),
                ("keys", i), ("get", i, b"a")]
    ops += [("new", 0, "w", b"", b"c", b""), ("new", 1, "x", b"", b"", b""),
            ("put", 0, b"a", b"1"), ("put", 0, b"b", b""), ("put", 1, b"a", b"2"), ("put", 1, K256, b"z"), ("reopen", 1, "r")]
    return ops


def random_ops(rng, n):
    hp = (rng.choice([b"", b"MYTYPE", b"0123456789abcdefXYZ"]), rng.choice([b"", b"comment"]), rng.choice([b"", b"\x01\x02"]))
    ops = [("new", 0, rng.choice(["w", "x"]), *hp)]
    big_used = False
    for _ in range(n):
        i = rng.weighted([(0, 5), (1, 4), (2, 2)])
        k = rng.weighted([("put", 30), ("get", 14), ("keys", 10), ("close", 14), ("reopen", 14), ("new", 10)])
        if k == "put":
            v = rng.weighted([(VALS[0], 3), (VALS[1], 5), (VALS[2], 3), (VALS[3], 1)])
            if v is BIGV:
                if big_used:
                    v = b"w"
                big_used = True
            key = rng.weighted([(KEYS[0], 4), (KEYS[1], 4), (KEYS[2], 2), (KEYS[3], 2), (KEYS[4], 3), (KEYS[5], 2),
                                (bytes([rng.below(256)]) * rng.range(1, 3), 6)])
            ops.append(("put", i, key, v))
        elif k == "get":
            ops.append(("get", i, rng.choice(KEYS)))
        elif k == "keys":
            ops.append(("keys", i))
        elif k == "close":
            ops.append(("close", i))
        elif k == "reopen":
            ops.append(("reopen", i, rng.weighted([(None, 6), ("r", 2), ("a", 3)])))
        else:
            # header arguments are given to every constructor call: for r / a they must be ignored in favour of what the
            # file says (also when the file's comment or descriptor block is EMPTY), for w they define the new file
            ha = (rng.choice([b"", b"", b"NEWTYPE"]), rng.choice([b"", b"note", b"another comment"]), rng.choice([b"", b"", b"\x09\x08\x07"]))
            ops.append(("new", i, rng.weighted([("r", 4), ("a", 5), ("x", 1), ("w", 1)]), *ha))
    return ops, hp


def run(ctx):
    from harness import c02_backend

    ctx.rule = ("op sequences over {new r/a/w/x, reopen, close, put, get, keys} x 3 handles x keys {a,b,255B,256B,00ff,empty,random} "
                "x values {empty,1B,header-like,70kB}: bounded-exhaustive (length 3 quick / 4 thorough over a 19-op alphabet, "
                "after creating the file) then random sequences up to length 60; plus Collection sessions with bufsize in "
                "{-1,0,64,10^6}. Non-trivial: >=1 successful put followed by a reopen or an op on another handle; distinct by executed op list.")
    ctx.assumptions += [
        "scope: an open writable handle is exclusive (no other handle open meanwhile) — guaranteed to sessions by the C04 lock; "
        "truncating re-creation ('w') of a file whose contents other handle objects cache is outside 'insert-only'",
        "buffered I/O is flushed before bytes are compared (A-io)",
    ]
    ctx.proof(props=["Molli.Props.C02", "Molli.Props.C02Backend", "Molli.Props.C02Multi"], gen=["UkvLayout"])
    work = ctx.scratch
    path = work / "seq.ukv"
    lines, impls = [], []

    def nontrivial(done, toks):
        seen_put = False
        for o, t in zip(done, toks):
            if o[0] == "put" and t == "ok":
                seen_put = True
                hp = o[1]
            elif seen_put and (o[0] in ("reopen", "new") or o[1] != hp):
                return True
        return False

    # ---- corpus
    cdir = ukvlib.VERIF / "corpus" / "C02"
    corpus = []
    if cdir.is_dir():
        for p in sorted(cdir.glob("*.json")):
            corpus.append([tuple(bytes.fromhex(x[4:]) if isinstance(x, str) and x.startswith("hex:") else x for x in o)
                           for o in json.loads(p.read_text())["ops"]])
    for ops in corpus:
        toks, fhex, done = run_sequence(ctx, path, ops, (b"", b"", b""), check_oracle=False)
        lines.append(";".join(op_line(o) for o in done)); impls.append((toks, fhex, done))
        ctx.case(lines[-1], nontrivial(done, toks)); ctx.count("corpus")

    # ---- bounded exhaustive
    alpha = exhaustive_alphabet()
    depth = 3 if ctx.quick() else 4
    prefix = [("new", 0, "w", b"", b"c", b""), ("put", 0, b"a", b"1"), ("close", 0)]
    n_ex = 0
    for d in range(1, depth + 1):
        for combo in itertools.product(alpha, repeat=d):
            ops = prefix + list(combo)
            toks, fhex, done = run_sequence(ctx, path, ops, (b"", b"c", b""))
            if len(done) < len(ops) and d > 1:
                # a discipline-violating op was skipped: the shorter sequence is enumerated on its own
                continue
            lines.append(";".join(op_line(o) for o in done)); impls.append((toks, fhex, done))
            ctx.case(lines[-1], nontrivial(done, toks)); n_ex += 1
            if n_ex % 500 == 0:
                ctx.check_deadline()
    ctx.count("bounded_exhaustive_sequences", n_ex)
    ctx.extra_cov["bounded_exhaustive_depth"] = depth

    # ---- random
    nrand = 250 if ctx.quick() else 6000
    for r in range(nrand):
        ops, hp = random_ops(ctx.rng, ctx.rng.range(5, 60))
        toks, fhex, done = run_sequence(ctx, path, ops, (hp[0], hp[1], hp[2]))
        lines.append(";".join(op_line(o) for o in done)); impls.append((toks, fhex, done))
        ctx.case(lines[-1], nontrivial(done, toks))
        for o, t in zip(done, toks):
            ctx.count("op:" + o[0]); ctx.count("out:" + (t if t.startswith("err") else t.split(":")[0]))
        if r < 2:
            ctx.sample({"ops": [op_short(o) for o in done][:25], "outcomes": [t[:30] for t in toks][:25]})
        if r % 200 == 0:
            ctx.check_deadline()
    ctx.count("random_sequences", nrand)

    outs = ctx.driver(lines)
    for line, (toks, fhex, done), mout in zip(lines, impls, outs):
        parts = mout.split(";")
        mfile = parts[-1][5:]
        mt = parts[:-1]
        if mt != toks:
            idx = next((j for j, (a, b) in enumerate(zip(mt, toks)) if a != b), min(len(mt), len(toks)))
            ctx.disagree("op outcome differs", {"ops": [op_short(o) for o in done], "first_difference_at": idx},
                         toks[idx] if idx < len(toks) else None, mt[idx] if idx < len(mt) else None)
        elif mfile != fhex:
            ctx.disagree("final file bytes differ", {"ops": [op_short(o) for o in done]}, fhex[:200], mfile[:200])

    # ---- Collection / backend sessions
    c02_backend.run(ctx)


def replay(ctx, path):
    obj = json.loads(Path(path).read_text())
    print(json.dumps(obj, indent=1)[:3000])
    return 0
