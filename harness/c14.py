"""
C14 — a conformer ensemble stays rectangular and its conformers are live views.

Proof:  Molli.Props.C14 (invariant `Rect` over every operation history, frame lemmas for writes through a
        conformer, totality of dump/serialise on rectangular ensembles, iteration: each conformer once, in
        order, for any number of independent and nested iterators; counterexamples for the as-shipped code).
Tie:    operation sequences (constructions, append/extend, collective transformations, whole-array setters,
        writes through fresh and through long-held conformer objects, slices, dumps, serialisation, iterator
        creation and interleaved next() calls, nested loops) run on real ConformerEnsemble objects and on the
        Lean model (`repaired` variant); outcome of every step, the shapes after every step and the final
        arrays are compared exactly (inputs are dyadic rationals, on which float64 arithmetic is exact).
Oracle: model-free, after every step: the three arrays agree on (n_conformers, n_atoms); every ens[i] reads
        row i and can be dumped; a held conformer shows the current row; a write through a conformer changes
        exactly that row; a failed operation changes nothing; loops visit range(n) once, nested loops n*n pairs.
"""
from __future__ import annotations

import io
import json
from fractions import Fraction
from pathlib import Path

from harness import codeclib as cl
from harness import common

ELEMS = ["C", "H", "O", "N", "S"]


# --------------------------------------------------------------------------------------
# number / array text (the driver's language)
# --------------------------------------------------------------------------------------
def num(x) -> str:
    x = float(x)
    if x != x:
        return "nan"
    f = Fraction(x)
    return str(f.numerator) if f.denominator == 1 else f"{f.numerator}/{f.denominator}"


def unnum(t: str) -> float:
    return float("nan") if t == "nan" else float(Fraction(t))


def vec(xs) -> str:
    xs = list(xs)
    return " ".join([f"V{len(xs)}"] + [num(x) for x in xs])


def conf(c) -> str:
    c = [list(r) for r in c]
    return " ".join([f"C{len(c)}"] + [num(x) for r in c for x in r])


class Toks:
    def __init__(self, ts):
        self.ts, self.i = ts, 0

    def next(self):
        t = self.ts[self.i]
        self.i += 1
        return t

    def nat(self):
        return int(self.next())

    def count(self, pre):
        t = self.next()
        assert t[0] == pre, (pre, t)
        return int(t[1:])

    def num(self):
        return unnum(self.next())

    def vec(self):
        return [self.num() for _ in range(self.count("V"))]

    def conf(self):
        return [[self.num() for _ in range(3)] for _ in range(self.count("C"))]

    def charges(self):
        if self.ts[self.i] == "Q-":
            self.i += 1
            return None
        return [self.num() for _ in range(self.count("Q"))]

    def geom(self):
        c = self.conf()
        return c, self.charges()

    def mat(self):
        return [self.vec() for _ in range(self.count("M"))]

    def many(self, f):
        return [f() for _ in range(self.nat())]

    def optint(self):
        t = self.next()
        return None if t == "-" else int(t)


# --------------------------------------------------------------------------------------
# the real objects
# --------------------------------------------------------------------------------------
class Py:
    """executes op lines on real molli objects; every outcome is rendered in the driver's format"""

    def __init__(self, scratch: Path, use_lib: bool):
        import molli as ml
        import numpy as np
        self.ml, self.np = ml, np
        self.ens = ml.ConformerEnsemble(None, n_conformers=0, n_atoms=0)
        self.its = []
        self.others = []     # other live ensembles of the history (sources of copies), most recent first
        self.kept = []       # (conformer object handed out by an iteration and kept, row it was handed out for)
        self.scratch = scratch
        self.use_lib = use_lib
        self.nlib = 0

    def elems(self, n):
        return [ELEMS[i % len(ELEMS)] for i in range(n)]

    def geom_obj(self, c, q):
        np, ml = self.np, self.ml
        n = len(c)
        if q is None:
            return ml.CartesianGeometry(self.elems(n), coords=np.array(c, dtype=float).reshape((n, 3)))
        return ml.Molecule(self.elems(n), coords=np.array(c, dtype=float).reshape((n, 3)), atomic_charges=np.array(q, dtype=float))

    def arr(self, x, tail):
        """an array of exactly the shape (len(x),) + tail, or ValueError: the model speaks about exact shapes only"""
        np = self.np
        a = np.array(x, dtype=float)
        n = len(x)
        size = n
        for d in tail:
            size *= d
        if a.size != size:
            raise ValueError("shape")
        a = a.reshape((n,) + tuple(tail))
        return a

    def new_ens(self, nA, nC, **kw):
        ml = self.ml
        if nA == 0:
            return ml.ConformerEnsemble(None, n_conformers=nC, n_atoms=0, **kw)
        return ml.ConformerEnsemble(self.elems(nA), n_conformers=nC, **kw)

    # ---- observation ----
    def shape(self) -> str:
        e = self.ens
        c, q, w = self.np.shape(e.coords), self.np.shape(e.atomic_charges), self.np.shape(e.weights)
        nc = c[0] if len(c) else -1
        rect = tuple(c) == (nc, e.n_atoms, 3) and tuple(q) == (nc, e.n_atoms) and tuple(w) == (nc,)
        return f"{e.n_atoms},{nc},{q[0] if len(q) else -1},{w[0] if len(w) else -1},{1 if rect else 0}"

    def arrays(self):
        e = self.ens
        return (self.np.array(e.coords, dtype=float).copy(), self.np.array(e.atomic_charges, dtype=float).copy(),
                self.np.array(e.weights, dtype=float).copy())

    def arrays_of(self, e):
        return (self.np.array(e.coords, dtype=float).copy(), self.np.array(e.atomic_charges, dtype=float).copy(),
                self.np.array(e.weights, dtype=float).copy())

    def state_of(self, e) -> str:
        c, q, w = self.arrays_of(e)
        cs = [conf(x) for x in c.tolist()] if c.ndim == 3 else ["?"]
        qs = [vec(x) for x in q.tolist()] if q.ndim == 2 else ["?"]
        return ("state " + str(len(cs)) + " " + " ".join(cs) + " | " + str(len(qs)) + " " + " ".join(qs) + " | " + vec(w.tolist()))

    def state(self) -> str:
        return self.state_of(self.ens) + f" || others {len(self.others)}" + "".join(" || " + self.state_of(o) for o in self.others)

    # ---- the real codec (encoder + decoder of the library classes), with or without a file ----
    _codec = {}

    def through_codec(self, obj, kind: str):
        """what a library gives back for `obj`: a real library file when use_lib, else the library object's own
        encoder and decoder (the same functions, no file)"""
        if self.use_lib:
            self.nlib += 1
            p = self.scratch / f"c14_{kind}_{self.nlib}.{'mlib' if kind == 'mol' else 'clib'}"
            cl.new_library_file(kind, p, 2)
            errs = cl.store(kind, p, [("k", obj)])
            if errs:
                raise errs["k"]
            back = cl.load(kind, p, ["k"])["k"]
            p.unlink(missing_ok=True)
            if isinstance(back, Exception):
                raise back
            return back
        key = (str(self.scratch), kind)
        if key not in Py._codec:
            p = self.scratch / f"c14_codec.{'mlib' if kind == 'mol' else 'clib'}"
            with cl.hard_timeout(cl.SESSION_TIMEOUT, "codec library"):
                Py._codec[key] = cl.lib_class(kind)(p, readonly=False)
        lib = Py._codec[key]
        if kind == "mol":
            return lib._molecule_decoder(lib._molecule_encoder(obj))
        return lib._ensemble_decoder(lib._ensemble_encoder(obj))

    def same_f32(self, a, b) -> bool:
        np = self.np
        a, b = np.asarray(a, dtype=float), np.asarray(b, dtype=float)
        return a.shape == b.shape and bool(np.all(((a != a) & (b != b)) | (np.abs(a - b) <= 1e-6 * np.maximum(1.0, np.abs(a)))))

    def dump_conf(self, cf) -> str:
        """write the conformer as xyz and mol2 and send it through the molecule codec; the text / the decoded molecule
        must be this conformer"""
        np = self.np
        out = "view " + self.view(cf)
        s1, s2 = io.StringIO(), io.StringIO()
        cf.dump_xyz(s1)
        cf.dump_mol2(s2)
        xl = s1.getvalue().splitlines()
        want = np.array(cf.coords, dtype=float)
        if int(xl[0].split()[0]) != cf.n_atoms or len(xl) < 2 + cf.n_atoms:
            raise ValueError("xyz block does not have n_atoms atom lines")
        for a in range(cf.n_atoms):
            got = [float(x) for x in xl[2 + a].split()[1:4]]
            for g, w_ in zip(got, want[a]):
                if not ((g != g and w_ != w_) or abs(g - w_) <= 1e-5 * max(1.0, abs(w_))):
                    raise ValueError("xyz block shows other coordinates than the conformer")
        if cf.n_atoms != np.shape(cf.coords)[0] or np.shape(cf.atomic_charges) != (cf.n_atoms,):
            raise ValueError("conformer is not a full molecule")
        back = self.through_codec(cf, "mol")
        if not (self.same_f32(back.coords, cf.coords) and self.same_f32(back.atomic_charges, cf.atomic_charges)):
            raise ValueError("the stored conformer is another molecule")
        return out

    def view(self, c) -> str:
        return conf(self.np.array(c.coords, dtype=float).tolist()) + " " + vec(self.np.array(c.atomic_charges, dtype=float).tolist())

    # ---- ops ----
    def run(self, line: str) -> str:
        t = Toks(line.split())
        op = t.next()
        np, ml = self.np, self.ml
        e = self.ens
        if op == "ctorAtoms":
            nA, nC = t.nat(), t.nat()
            self.ens, self.its, self.kept = self.new_ens(nA, nC), [], []
            return "ok"
        if op == "ctorMol":
            nA, k = t.nat(), t.nat()
            m = ml.Molecule(self.elems(nA), coords=np.arange(nA * 3, dtype=float).reshape((nA, 3)) / 8)
            self.ens, self.its, self.kept = (ml.ConformerEnsemble(m, n_conformers=k) if k else ml.ConformerEnsemble(m)), [], []
            return "ok"
        if op == "ctorMols":
            ms = [self.geom_obj(c, q) for c, q in t.many(t.geom)]
            self.ens, self.its, self.kept = ml.ConformerEnsemble(ms), [], []
            return "ok"
        if op in ("ctorCopy", "ctorCopyKw"):
            new = ml.ConformerEnsemble(e) if op == "ctorCopy" else ml.ConformerEnsemble(e, name="copy", n_conformers=1, charge=e.charge)
            self.others.insert(0, e)
            self.ens, self.its, self.kept = new, [], []
            return "ok"
        if op == "ctorAtomsKw":
            nA, nC = t.nat(), t.nat()
            kw = {}
            tag = t.next()
            if tag == "cs":
                cs = t.many(t.conf)
                rows = {len(c) for c in cs}
                kw["coords"] = np.array(cs, dtype=float).reshape((len(cs), rows.pop() if rows else nA, 3)) if len(rows) <= 1 else cs
            elif tag == "c1":
                c = t.conf()
                kw["coords"] = np.array(c, dtype=float).reshape((len(c), 3))
            tag = t.next()
            if tag == "qs":
                qs = t.many(t.vec)
                ks = {len(q) for q in qs}
                kw["atomic_charges"] = np.array(qs, dtype=float).reshape((len(qs), ks.pop() if ks else nA)) if len(ks) <= 1 else qs
            elif tag == "q1":
                kw["atomic_charges"] = np.array(t.vec(), dtype=float)
            tag = t.next()
            if tag == "ws":
                kw["weights"] = np.array(t.vec(), dtype=float)
            new = self.new_ens(nA, nC, **kw)
            self.ens, self.its, self.kept = new, [], []
            return "ok"
        if op == "readAt":
            i = int(t.next())
            as_np = t.i < len(t.ts) and t.next() == "np"
            return "view " + self.view(e[np.int64(i) if as_np else i])
        if op == "writeAt":
            i = int(t.next())
            c = t.conf()
            cf = e[i]
            a = np.array(c, dtype=float).reshape((len(c), 3))
            if len(c) == 1 and np.shape(cf.coords)[0] != 1:
                raise ValueError("outside the model: one row for several atoms")
            cf.coords = a
            return "ok"
        if op == "reload":
            c, q, w = self.arrays()
            back = self.through_codec(e, "ens")
            if not (np.shape(back.coords) == c.shape and np.shape(back.atomic_charges) == q.shape and np.shape(back.weights) == w.shape
                    and eq_arr(np, np.array(back.coords, dtype=float), c) and eq_arr(np, np.array(back.atomic_charges, dtype=float), q)
                    and eq_arr(np, np.array(back.weights, dtype=float), w) and back.n_atoms == e.n_atoms):
                raise ValueError("the library gives back another ensemble")
            self.ens, self.its, self.kept = back, [], []
            return "ok"
        if op == "swap":
            k = t.nat()
            if k >= len(self.others):
                raise IndexError(k)
            self.others[k], self.ens = e, self.others[k]
            self.its, self.kept = [], []
            return "ok"
        if op == "iterNextKeep":
            k = t.nat()
            try:
                cf = next(self.its[k])
            except StopIteration:
                return "stop"
            self.kept.append((cf, cf._conf_id))
            return f"yield {cf._conf_id}"
        if op == "loopKeep":
            objs = list(e)
            self.kept += [(cf, i) for i, cf in enumerate(objs)]     # the i-th object handed out stands for row i
            return "idxs " + ",".join(str(cf._conf_id) for cf in objs)
        if op == "readKept":
            return "view " + self.view(self.kept[t.nat()][0])
        if op == "dumpKept":
            return self.dump_conf(self.kept[t.nat()][0])
        if op == "writeKept":
            j, c = t.nat(), t.conf()
            cf = self.kept[j][0]
            a = np.array(c, dtype=float).reshape((len(c), 3))
            if len(c) == 1 and np.shape(cf.coords)[0] != 1:
                raise ValueError("outside the model: one row for several atoms")
            cf.coords = a
            return "ok"
        if op == "append":
            c, q = t.geom()
            e.append(self.geom_obj(c, q))
            return "ok"
        if op == "extendEns":
            nA = t.nat()
            items = t.many(lambda: (t.conf(), t.vec(), t.num()))
            m = len(items)
            o = self.new_ens(nA, m)
            if m:
                o.coords = np.array([it[0] for it in items], dtype=float).reshape((m, nA, 3))
                o.atomic_charges = np.array([it[1] for it in items], dtype=float).reshape((m, nA))
                o.weights = np.array([it[2] for it in items], dtype=float)
            e.extend(o)
            return "ok"
        if op == "extendSelf":
            e.extend(e)
            return "ok"
        if op == "extendGeoms":
            gs = [self.geom_obj(c, q) for c, q in t.many(t.geom)]
            # `extend` takes any iterable: a list, or (every other time) a single-pass generator
            self.ngen = getattr(self, "ngen", 0) + 1
            e.extend(gs if self.ngen % 2 else (g for g in gs))
            return "ok"
        if op == "scale":
            f, a = t.num(), t.nat()
            e.scale(f, allow_inversion=bool(a))
            return "ok"
        if op == "invert":
            e.invert()
            return "ok"
        # mis-shaped arguments go to the real code as they are (numpy decides); the only thing kept away from it is a single
        # row given for several atoms (broadcast over the atom axis), which the model does not describe
        if op == "translate":
            e.translate(t.vec())
            return "ok"
        if op == "translateEach":
            vs = t.many(t.vec)
            e.translate(vs if vs else np.zeros((0, 3)))
            return "ok"
        if op == "rotate":
            e.rotate(t.mat())
            return "ok"
        if op == "rotateEach":
            ms = t.many(t.mat)
            e.rotate(ms if ms else np.zeros((0, 3, 3)))
            return "ok"
        if op == "setCoords":
            cs = t.many(t.conf)
            rows = {len(c) for c in cs}
            if 1 in rows and e.n_atoms != 1:
                raise ValueError("outside the model: one row for several atoms")
            if len(rows) <= 1:
                r = rows.pop() if rows else e.n_atoms
                cs = np.array(cs, dtype=float).reshape((len(cs), r, 3))
            e.coords = cs
            return "ok"
        if op == "setWeights":
            ws = t.vec()
            e.weights = ws if ws else np.zeros((0,))
            return "ok"
        if op == "setCharges":
            qs = t.many(t.vec)
            ks = {len(q) for q in qs}
            if 1 in ks and e.n_atoms != 1:
                raise ValueError("outside the model: one value for several atoms")
            if len(ks) <= 1:
                k = ks.pop() if ks else e.n_atoms
                qs = np.array(qs, dtype=float).reshape((len(qs), k))
            e.atomic_charges = qs
            return "ok"
        if op == "writeCoords":
            i, c = t.nat(), t.conf()
            a = np.array(c, dtype=float).reshape((len(c), 3))
            cf = self.handle_for(i)
            if len(c) == 1 and np.shape(cf.coords)[0] != 1:
                raise ValueError("outside the model: one row for several atoms")
            cf.coords = a
            return "ok"
        if op == "writeCharges":
            i, q = t.nat(), t.vec()
            cf = self.handle_for(i)
            _ = cf.coords   # IndexError for a conformer that does not exist
            cf.atomic_charges = np.array(q, dtype=float)
            return "ok"
        if op == "writeAtom":
            i, a, x = t.nat(), t.nat(), t.vec()
            if len(x) != 3:
                raise ValueError("shape")
            cf = self.handle_for(i)
            if a >= cf.coords.shape[0]:
                raise IndexError(a)
            cf.coords[a] = np.array(x, dtype=float)
            return "ok"
        if op == "writeCharge":
            i, a, x = t.nat(), t.nat(), t.num()
            cf = self.handle_for(i)
            _ = cf.coords
            if a >= cf.atomic_charges.shape[0]:
                raise IndexError(a)
            cf.atomic_charges[a] = x
            return "ok"
        if op == "read":
            return "view " + self.view(e[t.nat()])
        if op == "slice":
            a, b, c = t.optint(), t.optint(), t.optint()
            return "idxs " + ",".join(str(x._conf_id) for x in e[slice(a, b, c)])
        if op == "dump":
            return self.dump_conf(e[t.nat()])
        if op == "serialise":
            c, q, w = self.arrays()
            back = self.through_codec(e, "ens")
            if np.shape(back.coords) != c.shape or np.shape(back.atomic_charges) != q.shape or np.shape(back.weights) != w.shape:
                raise ValueError("shapes changed in the library")
            if not (self.same_f32(back.coords, c) and self.same_f32(back.atomic_charges, q) and self.same_f32(back.weights, w)):
                raise ValueError("values changed in the library")
            if back.n_atoms != e.n_atoms:
                raise ValueError("atom list changed in the library")
            vs = [conf(a.tolist()) + " " + vec(b.tolist()) for a, b in zip(c, q)]
            if len(c) != len(q):
                raise ValueError("arrays disagree")
            return "blob " + str(len(vs)) + " " + " ".join(vs) + " " + vec(w.tolist())
        if op == "iterNew":
            self.its.append(iter(e))
            return f"handle {len(self.its) - 1}"
        if op == "iterNext":
            k = t.nat()
            try:
                return f"yield {next(self.its[k])._conf_id}"
            except StopIteration:
                return "stop"
        if op == "loop":
            return "idxs " + ",".join(str(c._conf_id) for c in e)
        if op == "nestedLoop":
            return "pairs " + ",".join(f"{a._conf_id}:{b._conf_id}" for a in e for b in e)
        raise RuntimeError("unknown op " + op)

    held = None

    def handle_for(self, i):
        """a conformer object for row i: an old one if one is held (live view), else a fresh ens[i]"""
        if self.held is not None and self.held[0] is self.ens and self.held[1] == i:
            return self.held[2]
        return self.ens[i]


# --------------------------------------------------------------------------------------
# sequences
# --------------------------------------------------------------------------------------
def rnum(rng, nanp=0):
    if nanp and rng.chance(1, nanp):
        return float("nan")
    return rng.range(-40, 40) / 8.0


def rconf(rng, nA):
    return [[rnum(rng) for _ in range(3)] for _ in range(nA)]


def rgeom(rng, nA, with_q=None) -> str:
    c = rconf(rng, nA)
    if with_q is None:
        with_q = rng.chance(2, 3)
    return conf(c) + " " + ("Q" + str(nA) + "".join(" " + num(rnum(rng)) for _ in range(nA)) if with_q else "Q-")


MATS = [
    [[1, 0, 0], [0, 1, 0], [0, 0, 1]], [[0, 1, 0], [-1, 0, 0], [0, 0, 1]], [[1, 0, 0], [0, 0, -1], [0, 1, 0]],
    [[0, 0, 1], [1, 0, 0], [0, 1, 0]], [[0.5, 0, 0], [0, 1, 0.5], [0, -0.5, 1]], [[-1, 0, 0], [0, -1, 0], [0, 0, -1]],
]


BAD_MATS = [
    [[1, 0], [0, 1], [0, 0]],                 # 3 x 2
    [[1, 0, 0], [0, 1, 0]],                   # 2 x 3
    [[1], [0], [0]],                          # 3 x 1: numpy repeats the single column - accepted
    [[1, 0, 0], [0, 1], [0, 0, 1]],           # ragged
    [[1, 0, 0, 0], [0, 1, 0, 0], [0, 0, 1, 0]],
]


def count_arg(rng, nC: int, nA: int, bad: bool) -> int:
    """how many per-conformer items an argument carries: n_conformers, or 1 (numpy repeats it), or a count numpy must refuse
    (one more, 2 for a single conformer, n_atoms when that differs, none)"""
    if not bad:
        return nC if rng.chance(5, 6) else 1
    return rng.choice([nC + 1, 2 if nC == 1 else nC + 2, nA if nA not in (nC, 1) else nC + 1, 0, 1])


def mat(m) -> str:
    return " ".join([f"M{len(m)}"] + [vec(r) for r in m])


def gen_iter_storm(rng) -> list:
    """several iterators advanced in a random interleaving while the ensemble grows and is looped over"""
    nA, nC = rng.choice([0, 1, 2]), rng.range(1, 5)
    ops = [f"ctorAtoms {nA} {nC}"]
    nit = rng.range(2, 3)
    ops += ["iterNew"] * nit
    grown = 0
    for _ in range(rng.range(8, 22)):
        r = rng.below(20)
        if r < 11:
            ops.append(f"iterNext {rng.below(nit + (1 if rng.chance(1, 15) else 0))}")
        elif r < 13 and grown < 3:
            ops.append("append " + rgeom(rng, nA))
            grown += 1
        elif r < 14 and grown < 3:
            ops.append("extendSelf")
            grown += 2
        elif r < 15:
            ops.append("iterNew")
            nit += 1
        elif r < 17:
            ops.append("loop")
        elif r < 18:
            ops.append("nestedLoop")
        elif r < 19:
            ops.append(f"writeCoords {rng.below(nC)} " + conf(rconf(rng, nA)))
        else:
            ops.append(f"slice {rng.choice(['-', '1', '-1'])} - {rng.choice(['-', '-1', '2'])}")
    return ops + ["loop"]


def distinct_mols(rng, nA: int, nC: int) -> str:
    """`ctorMols` with rows that differ from conformer to conformer (so that a view of the wrong row shows)"""
    gs = []
    for c in range(nC):
        rows = [[c + 1 + a / 8.0, -(c + 1) / 2.0, a + c / 4.0] for a in range(nA)]
        gs.append(conf(rows) + " Q" + str(nA) + "".join(" " + num((c + 1) / 4.0 + a) for a in range(nA)))
    return f"ctorMols {nC} " + " ".join(gs)


def gen_copies(rng) -> list:
    """an ensemble, copies of it (with / without keywords), writes on either side, switches between them"""
    nA, nC = rng.choice([1, 2, 3]), rng.range(1, 4)
    ops = [distinct_mols(rng, nA, nC) if rng.chance(2, 3) else f"ctorAtoms {nA} {nC}"]
    if rng.chance(1, 2):
        ops.append(f"setCharges {nC} " + " ".join(vec([rnum(rng) for _ in range(nA)]) for _ in range(nC)))
    ncs = [nC]          # conformer counts: current first, then the others
    for _ in range(rng.range(6, 18)):
        r = rng.below(20)
        cur = ncs[0]
        if r < 3 and len(ncs) < 4:
            ops.append(rng.choice(["ctorCopy", "ctorCopyKw"]))
            ncs.insert(0, cur)
        elif r < 6 and len(ncs) > 1:
            k = rng.below(len(ncs) - 1)
            ops.append(f"swap {k}")
            ncs[0], ncs[k + 1] = ncs[k + 1], ncs[0]
        elif r < 9 and cur:
            ops.append(f"writeCharges {rng.below(cur)} " + vec([rnum(rng) for _ in range(nA)]))
        elif r < 11 and cur:
            ops.append(f"writeCharge {rng.below(cur)} {rng.below(nA)} {num(rnum(rng))}")
        elif r < 13 and cur:
            ops.append(f"writeCoords {rng.below(cur)} " + conf(rconf(rng, nA)))
        elif r < 14 and cur:
            ops.append(f"writeAtom {rng.below(cur)} {rng.below(nA)} " + vec([rnum(rng) for _ in range(3)]))
        elif r < 15:
            ops.append(f"setWeights " + vec([rnum(rng) for _ in range(cur)]))
        elif r < 16:
            ops.append("translate " + vec([rnum(rng) for _ in range(3)]))
        elif r < 17:
            ops.append("append " + rgeom(rng, nA))
            ncs[0] += 1
        elif r < 18:
            ops.append("serialise")
        elif cur:
            ops.append(f"read {rng.below(cur)}")
    if len(ncs) > 1:
        ops += ["swap 0", "loop"]
    return ops + ["serialise"]


def gen_kept(rng) -> list:
    """conformer objects handed out by iterations are kept and used after the iteration moved on / ended"""
    nA, nC = rng.choice([1, 2]), rng.range(2, 5)
    ops = [distinct_mols(rng, nA, nC), "iterNew"]
    nit, nk, grown = 1, 0, 0
    for _ in range(rng.range(6, 16)):
        r = rng.below(20)
        if r < 6:
            ops.append(f"iterNextKeep {rng.below(nit)}")
            nk += 1                      # an upper bound (StopIteration keeps nothing): indices may be out of range -> err
        elif r < 8:
            ops.append("loopKeep")
            nk += nC + grown
        elif r < 12 and nk:
            ops.append(f"readKept {rng.below(nk)}")
        elif r < 14 and nk:
            ops.append(f"writeKept {rng.below(nk)} " + conf(rconf(rng, nA)))
        elif r < 16 and nk:
            ops.append(f"dumpKept {rng.below(nk)}")
        elif r < 17:
            ops.append("iterNew")
            nit += 1
        elif r < 18 and grown < 2:
            ops.append("append " + rgeom(rng, nA))
            grown += 1
        elif r < 19:
            ops.append(f"iterNext {rng.below(nit)}")
        else:
            ops.append("scale 2 0")
    return ops + ["loopKeep", "readKept 0", "loop"]


def gen_after_reload(rng) -> list:
    """an ensemble goes through the library and EVERY kind of mutating operation is then applied to what came back"""
    nA, nC = rng.choice([1, 2, 3]), rng.range(1, 3)
    ops = [distinct_mols(rng, nA, nC) if rng.chance(2, 3) else f"ctorAtoms {nA} {nC}"]
    if rng.chance(1, 2):
        ops.append("append " + rgeom(rng, nA))
        nC += 1
    ops.append("reload")
    muts = [
        lambda: f"writeCoords {rng.below(nC)} " + conf(rconf(rng, nA)),
        lambda: f"writeCharges {rng.below(nC)} " + vec([rnum(rng) for _ in range(nA)]),
        lambda: f"writeAtom {rng.below(nC)} {rng.below(nA)} " + vec([rnum(rng) for _ in range(3)]),
        lambda: f"writeCharge {rng.below(nC)} {rng.below(nA)} {num(rnum(rng))}",
        lambda: "translate " + vec([rnum(rng) for _ in range(3)]),
        lambda: f"translateEach {nC} " + " ".join(vec([rnum(rng) for _ in range(3)]) for _ in range(nC)),
        lambda: "scale 2 0",
        lambda: "invert",
        lambda: "rotate " + mat(rng.choice(MATS)),
        lambda: f"rotateEach {nC} " + " ".join(mat(rng.choice(MATS[:4])) for _ in range(nC)),
        lambda: f"setCoords {nC} " + " ".join(conf(rconf(rng, nA)) for _ in range(nC)),
        lambda: "setWeights " + vec([rnum(rng) for _ in range(nC)]),
        lambda: f"setCharges {nC} " + " ".join(vec([rnum(rng) for _ in range(nA)]) for _ in range(nC)),
        lambda: "loopKeep",
        lambda: f"writeKept 0 " + conf(rconf(rng, nA)),
    ]
    order = list(range(len(muts)))
    rng.shuffle(order)
    for k in order[:rng.range(6, len(muts))]:
        ops.append(muts[k]())
        if rng.chance(1, 6):
            ops.append(f"read {rng.below(nC)}")
    ops += ["append " + rgeom(rng, nA), "extendSelf", "reload", "translate V3 1 0 0", "writeCharges 0 " + vec([rnum(rng) for _ in range(nA)])]
    return ops + ["serialise", "loop"]


def ctor_kw(rng, nA: int, nC: int) -> str:
    """the constructor with coords= / atomic_charges= / weights= of every broadcastable and non-broadcastable shape"""
    def rows(bad):
        return nA + (2 if bad else 0)
    k = rng.below(8)
    if k == 0:
        cs = "-"
    elif k == 1:
        cs = f"cs {nC} " + " ".join(conf(rconf(rng, nA)) for _ in range(nC))
    elif k in (2, 3):
        cs = "c1 " + conf(rconf(rng, nA))                       # ONE geometry for every conformer
    elif k == 4:
        cs = "cs 1 " + conf(rconf(rng, nA))
    elif k == 5:
        m = nC + 1 if nC != 0 else 2
        cs = f"cs {m} " + " ".join(conf(rconf(rng, nA)) for _ in range(m))   # a count numpy cannot broadcast
    elif k == 6:
        cs = "c1 " + conf(rconf(rng, rows(True)))
    else:
        m = 2 if nC == 1 else max(nC - 1, 2)
        cs = f"cs {m} " + " ".join(conf(rconf(rng, nA)) for _ in range(m))
    k = rng.below(6)
    q = lambda n: vec([rnum(rng) for _ in range(n)])  # noqa: E731
    qs = ["-", f"qs {nC} " + " ".join(q(nA) for _ in range(nC)), "q1 " + q(nA), "qs 1 " + q(nA), "q1 " + q(rows(True)),
          f"qs {nC + 1} " + " ".join(q(nA) for _ in range(nC + 1))][k]
    k = rng.below(5)
    ws = ["-", "ws " + q(nC), "ws " + q(1), "ws " + q(nC + 1 if nC else 2), "-"][k]
    return f"ctorAtomsKw {nA} {nC} {cs} {qs} {ws}"


def gen_sequence(rng, quick: bool) -> list:
    """a history: starts with a construction; mostly valid operations, some that must fail"""
    r0 = rng.below(14)
    if r0 < 3:
        return gen_iter_storm(rng)
    if r0 < 5:
        return gen_copies(rng)
    if r0 < 7:
        return gen_kept(rng)
    if r0 < 9:
        return gen_after_reload(rng)
    ops = []
    nA = rng.choice([0, 1, 2, 3, 3, 4, 6])
    nC = rng.choice([0, 1, 2, 3, 5])
    k = rng.below(4)
    if k == 0:
        ops.append(f"ctorAtoms {nA} {nC}")
    elif k == 1:
        kk = rng.choice([0, 1, 3])
        ops.append(f"ctorMol {nA} {kk}")
        nC = kk or 1
    elif k == 2:
        nC = max(nC, 1)
        ops.append(f"ctorMols {nC} " + " ".join(rgeom(rng, nA, True) for _ in range(nC)))
    else:
        ops.append(f"ctorAtoms {nA} {nC}")
        ops.append("ctorCopy")
    if k in (0, 3) and rng.chance(1, 2):
        ops.append(ctor_kw(rng, nA, nC))                 # same n_atoms / n_conformers whether it is accepted or raises
    if rng.chance(1, 2):
        ops += ["serialise"] + (["dump 0"] if rng.chance(1, 3) else [])     # before the first append, whatever nC / nA are
    budget = 6          # scale / rotate steps: keeps every value exactly representable
    nit = 0
    n = rng.range(3, 14 if quick else 30)
    for _ in range(n):
        r = rng.below(100)
        bad = rng.chance(1, 10)
        if r < 14:
            ops.append("append " + rgeom(rng, nA + (1 if bad else 0)))
            nC += 0 if bad else 1
        elif r < 20:
            m = rng.range(0, 3)
            na2 = nA + (1 if bad else 0)
            ops.append(f"extendEns {na2} {m} " + " ".join(conf(rconf(rng, na2)) + " " + vec([rnum(rng) for _ in range(na2)]) + " " + num(rnum(rng)) for _ in range(m)))
            nC += 0 if (bad and m) else m
        elif r < 23:
            ops.append("extendSelf")
            nC *= 2
        elif r < 29:
            m = rng.range(0, 3)
            ops.append(f"extendGeoms {m} " + " ".join(rgeom(rng, nA + (1 if bad else 0)) for _ in range(m)))
            nC += 0 if (bad or m == 0) else m
        elif r < 34 and budget:
            budget -= 1
            ops.append(rng.choice(["scale 2 0", "scale 1/2 0", "scale -1 1", "scale -2 0", "scale 0 0", "scale 4 1", "invert"]))
        elif r < 39:
            # one vector: 3 components, 1 (numpy repeats it), or 0 / 2 / 4 (numpy refuses)
            ops.append("translate " + vec([rnum(rng) for _ in range(rng.choice([3, 3, 3, 1, 2, 4, 0]) if bad or rng.chance(1, 6) else 3)]))
        elif r < 42:
            m = count_arg(rng, nC, nA, bad)
            k = rng.choice([3, 3, 1, 2]) if bad else 3
            ops.append(f"translateEach {m} " + " ".join(vec([rnum(rng) for _ in range(k if not (bad and rng.chance(1, 5)) else 3 - (i % 2))]) for i in range(m)))
        elif r < 47 and budget:
            budget -= 1
            ops.append("rotate " + mat(rng.choice(MATS) if not bad else rng.choice(BAD_MATS)))
        elif r < 49 and budget:
            budget -= 1
            m = count_arg(rng, nC, nA, bad)
            shapes = rng.choice([MATS, MATS, [[[1], [0], [0]]]]) if not (bad and rng.chance(1, 3)) else MATS + BAD_MATS
            ops.append(f"rotateEach {m} " + " ".join(mat(rng.choice(shapes)) for _ in range(m)))
        elif r < 52:
            m = count_arg(rng, nC, nA, bad)
            ops.append(f"setCoords {m} " + " ".join(conf(rconf(rng, nA + (2 if bad and rng.chance(1, 3) else 0))) for _ in range(m)))
        elif r < 55:
            ops.append("setWeights " + vec([rnum(rng) for _ in range(count_arg(rng, nC, nA, bad))]))
        elif r < 58:
            m = count_arg(rng, nC, nA, bad and rng.chance(1, 2))
            ops.append(f"setCharges {m} " + " ".join(vec([rnum(rng) for _ in range(nA + (2 if bad and rng.chance(1, 2) else 0))]) for _ in range(m)))
        elif r < 64:
            ops.append(f"writeCoords {rng.below(nC + 1)} " + conf(rconf(rng, nA + (1 if bad else 0))))
        elif r < 70:
            ops.append(f"writeCharges {rng.below(nC + 1)} " + vec([rnum(rng) for _ in range(nA + (1 if bad else 0))]))
        elif r < 73:
            ops.append(f"writeAtom {rng.below(nC + 1)} {rng.below(nA + 1)} " + vec([rnum(rng) for _ in range(3)]))
        elif r < 76:
            ops.append(f"writeCharge {rng.below(nC + 1)} {rng.below(nA + 1)} {num(rnum(rng))}")
        elif r < 78:
            ops.append(f"read {rng.below(nC + 2)}")
        elif r < 79:
            ops.append(f"readAt {rng.range(-nC - 1, nC)}" + (" np" if rng.chance(1, 2) else ""))
        elif r < 80:
            ops.append(f"writeAt {rng.range(-nC - 1, nC)} " + conf(rconf(rng, nA)))
        elif r < 84:
            f = lambda: rng.choice(["-", "-", str(rng.range(-nC - 2, nC + 2))])  # noqa: E731
            ops.append(f"slice {f()} {f()} {rng.choice(['-', '-', '1', '2', '-1', '-2', '0', '3'])}")
        elif r < 88:
            ops.append(f"dump {rng.below(nC + 1)}")
        elif r < 89:
            ops.append("serialise")
        elif r < 90:
            ops.append("reload")
            nit = 0
        elif r < 93:
            ops.append("iterNew")
            nit += 1
        elif r < 97 and nit:
            ops.append(f"iterNext {rng.below(nit)}")
        elif r < 99:
            ops.append("loop")
        else:
            ops.append("nestedLoop")
        if ops[-1].startswith("ctor"):
            nit = 0
    # every history ends by looking at everything
    ops += ["loop", "nestedLoop", "serialise"] + [f"dump {i}" for i in range(min(nC, 6))]
    return ops


def exhaustive(quick: bool) -> list:
    """all histories of length 2 (thorough: 3) over a small alphabet, after a fixed construction; the short alphabet also
    from ensembles with no conformers and / or no atoms (nothing appended yet)"""
    import itertools
    g = "C2 1 0 0 0 1/2 0 Q2 1/4 -1/4"
    alpha = ["append " + g, "append C2 0 0 0 0 0 1 Q-", "extendSelf", "extendGeoms 1 " + g, "iterNew", "iterNext 0", "iterNext 1",
             "writeCharges 0 V2 1 2", "writeCoords 1 C2 1 1 1 2 2 2", "scale 2 0", "loop", "nestedLoop", "dump 2", "read 1", "slice - - -1",
             "translate V3 1 0 0", "ctorCopy", "serialise", "swap 0", "loopKeep", "iterNextKeep 0", "readKept 0", "writeKept 1 C2 3 3 3 4 4 4",
             "reload", "translateEach 3 V3 1 0 0 V3 0 1 0 V3 0 0 1", "translateEach 1 V3 0 0 1",
             "readAt -2", "writeAt -3 C2 5 5 5 6 6 6", "ctorAtomsKw 2 2 c1 C2 1 0 0 0 1 0 q1 V2 1 2 ws V1 3",
             "ctorAtomsKw 2 1 cs 2 C2 1 0 0 0 1 0 C2 0 0 0 0 0 1 - -"]
    out = []
    for seq in itertools.product(alpha, repeat=2 if quick else 3):
        out.append(["ctorAtoms 2 2"] + list(seq) + ["loop", "dump 0"])
    for start, nA in (("ctorAtoms 2 0", 2), ("ctorAtoms 0 0", 0), ("ctorAtoms 0 2", 0)):
        ga = conf([[1, 0, 0]] * nA) + " Q-"
        short = ["serialise", "append " + ga, "dump 0", "loop", "extendSelf", "ctorCopy", "nestedLoop", "read 0", "loopKeep", "swap 0",
                 "reload", "translateEach 2 V3 1 0 0 V3 0 1 0", "translate V3 1 0 0"]
        for seq in itertools.product(short, repeat=2 if quick else 3):
            out.append([start] + list(seq) + ["serialise", "loop"])
    return out


# --------------------------------------------------------------------------------------
# oracle
# --------------------------------------------------------------------------------------
def eq_arr(np, a, b) -> bool:
    return a.shape == b.shape and bool(np.all((a == b) | ((a != a) & (b != b))))


def oracle_step(ctx, py: Py, line: str, out: str, before, history: list):
    """model-free checks after one executed op; `before` = arrays before the op"""
    np = py.np
    e = py.ens
    op = line.split()[0]
    replay = {"ops": history}
    c, q, w = py.arrays()
    nc = c.shape[0] if c.ndim else -1
    rect = c.shape == (nc, e.n_atoms, 3) and q.shape == (nc, e.n_atoms) and w.shape == (nc,)
    for nm, a in (("coords", e.coords), ("atomic_charges", e.atomic_charges), ("weights", e.weights)):
        fl = getattr(a, "flags", None)
        if fl is None or not fl.writeable or a.dtype != np.dtype("float64") or not (fl.owndata or a.base is None):
            ctx.violation("C14:array-is-not-an-own-writable-float64-array",
                          f"after `{op}`: ens.{nm} has dtype {getattr(a, 'dtype', type(a).__name__)}, writeable={getattr(fl, 'writeable', '?')}, "
                          f"owns its data={getattr(fl, 'owndata', '?')} - a constructed ensemble has own, writable float64 arrays, and "
                          f"every in-place operation relies on it", replay)
            return False
    if not rect:
        among = c.ndim == 3 and q.shape == c.shape[:2] and w.shape == c.shape[:1] and c.shape[2] == 3
        kind = ("C14:arrays-disagree-with-atom-list" if among else
                "C14:grow-leaves-charges-or-weights-behind" if op in ("append", "extendEns", "extendSelf", "extendGeoms") else "C14:arrays-disagree")
        ctx.violation(kind, f"after `{op}`: coords {c.shape}, atomic_charges {q.shape}, weights {w.shape}, n_atoms {e.n_atoms}", replay)
        return False
    if out == "err" and before is not None and not op.startswith("ctor"):
        if not (eq_arr(np, before[0], c) and eq_arr(np, before[1], q) and eq_arr(np, before[2], w)):
            ctx.violation("C14:failed-operation-changed-the-ensemble", f"`{line[:80]}` raised but the arrays changed", replay)
    # every conformer is a view of its row - for EVERY integer index: -n .. n-1 are the rows (ens[-n] is row 0), anything else is an
    # IndexError; Python ints and numpy integers alike
    for i in range(-nc - 1, nc + 1):
        for idx in (i, np.int64(i)) if (i + nc) % 2 == 0 else (i,):
            isnp = not isinstance(idx, int)
            try:
                cf = e[idx]
                got_c, got_q = np.array(cf.coords, dtype=float), np.array(cf.atomic_charges, dtype=float)
            except IndexError as ex:
                if -nc <= i < nc:
                    ctx.violation("C14:valid-index-rejected", f"ens[{i}] of an ensemble with {nc} conformers raised IndexError: {ex}", replay)
                    return False
                continue
            except Exception as ex:  # noqa: BLE001
                if isnp and not isinstance(ex, IndexError):
                    ctx.violation("C14:numpy-integer-index-rejected", f"ens[numpy.int64({i})] of an ensemble with {nc} conformers: {type(ex).__name__}: {ex}", replay)
                else:
                    ctx.violation("C14:conformer-unreadable", f"ens[{i}] of an ensemble with {nc} conformers: {type(ex).__name__}: {ex}", replay)
                return False
            if not -nc <= i < nc:
                ctx.violation("C14:out-of-range-index-accepted", f"ens[{i}] of an ensemble with {nc} conformers gave a conformer", replay)
                return False
            if not (eq_arr(np, got_c, c[i % nc]) and eq_arr(np, got_q, q[i % nc])):
                ctx.violation("C14:conformer-shows-another-row", f"ens[{i}] does not show row {i % nc}", replay)
                return False
    # frame of a write through a conformer
    if out == "ok" and before is not None and op in ("writeCoords", "writeCharges", "writeAtom", "writeCharge"):
        i = int(line.split()[1])
        b0, b1, b2 = before
        same_w = eq_arr(np, b2, w)
        others_c = all(eq_arr(np, b0[j], c[j]) for j in range(nc) if j != i)
        others_q = all(eq_arr(np, b1[j], q[j]) for j in range(nc) if j != i)
        own = eq_arr(np, b1[i], q[i]) if op in ("writeCoords", "writeAtom") else eq_arr(np, b0[i], c[i])
        if not (same_w and others_c and others_q and own):
            ctx.violation("C14:write-through-conformer-touched-something-else", f"`{line[:60]}`", replay)
        # ... and the written value is in the ensemble's own arrays
        t = Toks(line.split()[2:])
        if op == "writeCoords":
            want, got = np.array(t.conf(), dtype=float).reshape((-1, 3)), c[i]
        elif op == "writeCharges":
            want, got = np.array(t.vec(), dtype=float), q[i]
        elif op == "writeAtom":
            a = t.nat()
            want, got = np.array(t.vec(), dtype=float), c[i][a]
        else:
            a = t.nat()
            want, got = np.array(t.num(), dtype=float), q[i][a]
        if not eq_arr(np, np.asarray(want, dtype=float), np.asarray(got, dtype=float)):
            ctx.violation("C14:write-through-conformer-lost", f"`{line[:60]}` succeeded but the ensemble's arrays do not show the value", replay)
    return True


def oracle_objects(ctx, py: Py, line: str, out: str, before, before_others, history: list):
    """nothing else changes: every OTHER live ensemble of the history is what it was; a kept conformer still is its row"""
    np = py.np
    op = line.split()[0]
    replay = {"ops": history}

    def same(x, y):
        return all(eq_arr(np, a, b) for a, b in zip(x, y))

    if before_others is not None and out != "err":
        try:
            now = [py.arrays_of(o) for o in py.others]
        except Exception as ex:  # noqa: BLE001
            ctx.violation("C14:another-ensemble-damaged", f"after `{line[:50]}` another live ensemble cannot be read: {type(ex).__name__}", replay)
            return
        if op in ("ctorCopy", "ctorCopyKw"):
            if before is not None and not (same(now[0], before) and same(py.arrays(), before)):
                ctx.violation("C14:copy-differs-from-source", f"`{op}`: the copy / the source does not hold the arrays the source held", replay)
            elif not (len(now) == len(before_others) + 1 and all(same(a, b) for a, b in zip(now[1:], before_others))):
                ctx.violation("C14:write-changed-another-ensemble", f"`{op}` changed an ensemble constructed earlier", replay)
        elif op == "swap":
            pass
        elif not (len(now) == len(before_others) and all(same(a, b) for a, b in zip(now, before_others))):
            k = next((i for i, (a, b) in enumerate(zip(now, before_others)) if not same(a, b)), 0)
            ctx.violation("C14:write-changed-another-ensemble",
                          f"`{line[:60]}` on the current ensemble changed live ensemble #{k} of the history (its source / a copy made earlier)", replay)
    c, q, _ = py.arrays()
    for j, (cf, idx) in enumerate(py.kept):
        try:
            moved = cf._conf_id != idx or (idx < c.shape[0] and not (
                eq_arr(np, np.array(cf.coords, dtype=float), c[idx]) and eq_arr(np, np.array(cf.atomic_charges, dtype=float), q[idx])))
        except Exception:  # noqa: BLE001
            moved = True
        if moved:
            ctx.violation("C14:kept-conformer-moved", f"the conformer object an iteration handed out for row {idx} (kept #{j}) shows "
                                                      f"row {getattr(cf, '_conf_id', '?')} after `{line[:50]}`", replay)
            break


def oracle_out(ctx, py: Py, line: str, out: str, history: list, nc_before: int):
    op = line.split()[0]
    replay = {"ops": history}
    nc = py.np.shape(py.ens.coords)[0]
    if op == "loop" and out != "idxs " + ",".join(str(i) for i in range(nc)):
        ctx.violation("C14:iteration-not-once-in-order", f"loop over {nc} conformers gave {out}", replay)
    if op == "nestedLoop":
        exp = "pairs " + ",".join(f"{a}:{b}" for a in range(nc) for b in range(nc))
        if out != exp:
            ctx.violation("C14:nested-iteration-incomplete", f"nested loops over {nc} conformers visited {0 if out == 'pairs ' else out.count(':')} pairs instead of {nc * nc}", replay)
    if op == "dump" and out == "err":
        i = int(line.split()[1])
        if i < nc:
            ctx.violation("C14:conformer-cannot-be-written", f"ens[{i}] of {nc} conformers cannot be dumped / serialised", replay)
    if op == "serialise" and out == "err":
        ctx.violation("C14:ensemble-cannot-be-serialised", f"ensemble of {nc} conformers cannot be serialised", replay)
    if op == "writeCharges" and out == "err":
        t = line.split()
        i, n = int(t[1]), int(t[2][1:])
        if i < nc and n == py.ens.n_atoms:
            ctx.violation("C14:conformer-charges-not-assignable", f"ens[{i}].atomic_charges = <{n} values> raised", replay)


def classify(ops: list) -> list:
    f = []
    kinds = {o.split()[0] for o in ops}
    for k in sorted(kinds):
        f.append("op:" + k)
    return f


def run_history(ctx, ops: list, use_lib: bool):
    """returns (outs+shapes joined, final state) of the real code, evaluating the oracle on the way"""
    py = Py(ctx.scratch, use_lib)
    res = []
    hist = []
    hold_at = len(ops) // 3
    for k, line in enumerate(ops):
        hist.append(line)
        try:
            before = py.arrays()
        except Exception:  # noqa: BLE001
            before = None
        nc_before = before[0].shape[0] if before is not None and before[0].ndim else 0
        try:
            before_others = [py.arrays_of(o) for o in py.others]
        except Exception:  # noqa: BLE001
            before_others = None
        try:
            out = py.run(line)
        except cl.HardTimeout:
            raise
        except Exception:  # noqa: BLE001
            out = "err"
        if line.startswith("ctor") or line.startswith("swap") or line.startswith("reload"):
            py.held = None
        ok = oracle_step(ctx, py, line, out, before, list(hist))
        if ok:
            oracle_objects(ctx, py, line, out, before, before_others, list(hist))
        oracle_out(ctx, py, line, out, list(hist), nc_before)
        try:
            shp = py.shape()
        except Exception as ex:  # noqa: BLE001
            shp = f"?{type(ex).__name__}"
        res.append(out + "@" + shp)
        if not ok:
            return res, None, py
        # take a conformer object and keep it: later writes / reads go through this old handle
        if k == hold_at and py.held is None:
            nc = py.np.shape(py.ens.coords)[0]
            if nc:
                i = nc // 2
                py.held = (py.ens, i, py.ens[i])
        if py.held is not None and py.held[0] is py.ens:
            i, cf = py.held[1], py.held[2]
            c, q, _ = py.arrays()
            try:
                live = eq_arr(py.np, py.np.array(cf.coords, dtype=float), c[i]) and eq_arr(py.np, py.np.array(cf.atomic_charges, dtype=float), q[i])
            except Exception:  # noqa: BLE001
                live = False
            if not live:
                ctx.violation("C14:held-conformer-is-stale", f"a conformer object taken earlier no longer shows row {i} after `{line[:50]}`", {"ops": list(hist)})
    try:
        st = py.state()
    except Exception as ex:  # noqa: BLE001
        st = f"state ?{type(ex).__name__}"
    return res, st, py


def run(ctx):
    import warnings
    warnings.filterwarnings("ignore", category=RuntimeWarning)
    _ = ctx.scratch
    ctx.rule = ("histories: a construction (from atoms / from a molecule / from a list of molecules / copy of an ensemble) followed "
                "by 3..30 operations drawn from append, extend (ensemble, itself, list of geometries), scale, invert, translate "
                "(one vector / one per conformer), rotate (one matrix / one per conformer), whole-array setters, writes through "
                "fresh and long-held conformer objects (rows, single atoms, charges), reads, slices (all sign / default "
                "combinations), dumps (xyz, mol2, storing the conformer in a MoleculeLibrary), serialisation (ConformerLibrary), "
                "iterator creation, interleaved next() calls, loops and nested loops; about one operation in ten is ill-shaped and "
                "must fail without effect. 0..6 atoms, 0..10 conformers, NaN from the constructors. Several live ensembles per "
                "history: copies (ConformerEnsemble(ens) with / without keywords), writes on either side, switches; every other "
                "live ensemble is compared before / after every step. Conformer objects handed out by next() and list(ens) are "
                "kept and read / written / dumped after the iteration advanced. serialise / dump always use the real encoder and "
                "decoder, also before the first append (0 conformers, 0 atoms). Preceded by all histories "
                "of length 2 (thorough: 3) over a 23-operation alphabet (and a 10-operation one from empty ensembles). Non-trivial: the history grows or writes the ensemble "
                "AND reads it afterwards; distinct by the operation text.")
    ctx.assumptions += [
        "numbers in the histories are dyadic rationals of small height, so numpy's float64 arithmetic is exact and equals the model's rational arithmetic; NaN is one value",
        "a Conformer is identified by its `_conf_id`",
    ]
    ctx.proof(props=["Molli.Props.C14"])
    hists = []
    d = common.VERIF / "corpus" / "C14"
    if d.is_dir():
        for p in sorted(d.glob("*.json")):
            o = json.loads(p.read_text())
            hists.append(("corpus", (o.get("replay") or o)["ops"]))
    for h in exhaustive(ctx.quick()):
        hists.append(("exhaustive", h))
    for _ in range(150 if ctx.quick() else 4000):
        hists.append(("random", gen_sequence(ctx.rng, ctx.quick())))
    lines, impl = [], []
    for n, (src, ops) in enumerate(hists):
        if n % 50 == 0:
            ctx.check_deadline()
        use_lib = src != "exhaustive" and (ctx.quick() is False or n % 3 == 0)
        res, st, _py = run_history(ctx, ops, use_lib)
        grows = any(o.split()[0] in ("append", "extendEns", "extendSelf", "extendGeoms", "writeCoords", "writeCharges", "writeAtom", "writeCharge", "writeKept") for o in ops)
        ctx.case(";".join(ops), nontrivial=grows)
        ctx.count("source:" + src)
        for f in classify(ops):
            ctx.count(f)
        for r in res:
            ctx.count("outcome:" + r.split("@")[0].split(" ")[0])
        lines.append("repaired ; " + " ; ".join(o[:-3] if o.startswith("readAt") and o.endswith(" np") else o for o in ops))
        impl.append((ops, res, st))
        if n < 2 or (src == "random" and len(ctx.samples) < 4):
            ctx.sample({"ops": ops[:8], "outs": res[:8]})
    outs = ctx.driver(lines)
    for (ops, res, st), mo in zip(impl, outs):
        parts = mo.split(";")
        mres, mst = parts[:-1], parts[-1]
        k = next((i for i, (a, b) in enumerate(zip(res, mres)) if a != b), None)
        if k is not None:
            ctx.disagree("outcome / shapes after an operation differ", {"ops": ops[:k + 1]}, res[k][:600], mres[k][:600])
        elif st is not None and len(res) == len(mres) and st != mst:
            ctx.disagree("final arrays differ", {"ops": ops}, st[:800], mst[:800])
    ctx.extra_cov["histories"] = len(hists)


def replay(ctx, path):
    obj = json.loads(Path(path).read_text())
    print(json.dumps({k: v for k, v in obj.items() if k != "replay"}, indent=1)[:3000])
    r = obj.get("replay") or {}
    if "ops" not in r:
        return 0
    _ = ctx.scratch
    res, st, _py = run_history(ctx, r["ops"], True)
    for o, x in zip(r["ops"], res):
        print(f"  {o[:70]:70s} -> {x[:90]}")
    print(st)
    for v in ctx.violations:
        print("violation:", v["kind"], v["what"])
    return 1 if ctx.violations else 0
