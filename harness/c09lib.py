"""
C09 — shared machinery of the dispatch table generator (harness/gen/Dispatch.py) and the check (harness/c09.py).

The configuration matrix of the property:
    entry  in {load, loads, load_all, loads_all, dump, dumps}
    fmt    in {xyz, mol2, cdxml, unsupported}
    kind   in {path, stream, str}          (source / target kind)
    otype  in {molecule, ensemble, structure}
    name   in {given, notgiven}
Cells outside the domain of an entry point (`loads` from a path, `dump` into a string, a name for `dump`...)
are NOT applicable and are recorded as such.

`observe(cell, sample)` calls the real entry point of the repository with spies installed on every class-level
codec method (load*/dump* of CartesianGeometry / Structure / Molecule / ConformerEnsemble, CDXMLFile._parse_fragment /
__getitem__) and on `open` as seen from molli.reader / molli.writer, and returns an `Action` (a dict of small enums).
Nothing here knows what the action *should* be: that is `Molli.Model.Dispatch.spec` in Lean.
"""
from __future__ import annotations

import io
import os
from pathlib import Path

ENTRIES = ["load", "loads", "load_all", "loads_all", "dump", "dumps"]
FMTS = ["xyz", "mol2", "cdxml", "unsupported"]
KINDS = ["path", "stream", "str"]
OTYPES = ["molecule", "ensemble", "structure"]
NAMES = ["given", "notgiven"]
# form of a path argument (a dimension of path sources / targets only): explicit format with a path whose suffix
# matches / is missing / names another supported format / names no supported format, or no format at all (deduced
# from the matching suffix)
PATHFORMS = ["explicitMatching", "explicitNoSuffix", "explicitOtherSuffix", "explicitUnsupportedSuffix", "deduced", "deducedLink"]
# deducedLink: no format given, the path as given carries the matching suffix but is a symbolic link to a file whose own
# name carries this suffix instead (the deduction is a function of the path as given):
LINK_TARGET_SUFFIX = {"xyz": ".blob", "mol2": ".xyz", "cdxml": ".blob", "unsupported": ".xyz"}
SUFFIX_OTHER = {"xyz": ".mol2", "mol2": ".xyz", "cdxml": ".xyz", "unsupported": ".xyz"}
SUFFIX_UNSUPPORTED = ".dat"

GIVEN_NAME = "c09_given_name_β(−)"      # a name override is text: not only ASCII
NON_ASCII_TAG = "_Δ(−)β"
NON_ASCII_LABELS = ["Cα", "Hβ′", "Ñ"]
UNSUPPORTED_TABLE_FMT = "pdb"          # known to openbabel, not to molli's own codecs
UNSUPPORTED_MORE = ["zzz", "", "XYZ", "sdf", "mol", "Mol2", "xyz ", "cdx"]

CODEC_METHODS = [
    "load_xyz", "loads_xyz", "load_all_xyz", "loads_all_xyz",
    "load_mol2", "loads_mol2", "load_all_mol2", "loads_all_mol2",
    "dump_xyz", "dumps_xyz", "dump_mol2", "dumps_mol2",
]
# Lean constructor names
LEAN_ENTRY = {"load": "load", "loads": "loads", "load_all": "loadAll", "loads_all": "loadsAll", "dump": "dump", "dumps": "dumps"}
LEAN_MOP = dict(LEAN_ENTRY, _parse_fragment="parseFragment", __getitem__="getitem")
LEAN_FMT = {"xyz": "xyz", "mol2": "mol2", "cdxml": "cdxml", "unsupported": "unsupported"}
LEAN_KIND = {"path": "path", "stream": "stream", "str": "str"}
LEAN_OTYPE = {"molecule": "molecule", "ensemble": "ensemble", "structure": "structure"}
LEAN_NAME = {"given": "given", "notgiven": "notGiven"}


def all_cells():
    for e in ENTRIES:
        for f in FMTS:
            for k in KINDS:
                for o in OTYPES:
                    for n in NAMES:
                        for pf in PATHFORMS:
                            yield (e, f, k, o, n, pf)


def cell_index(c) -> int:
    e, f, k, o, n, pf = c
    return ((((ENTRIES.index(e) * 4 + FMTS.index(f)) * 3 + KINDS.index(k)) * 3 + OTYPES.index(o)) * 2 + NAMES.index(n)) * 6 \
        + PATHFORMS.index(pf)


def cell_str(c) -> str:
    return " ".join(c)


def applicable(c) -> bool:
    """the domain of each entry point (signature level): load/load_all take a path, loads/loads_all a string,
    dump a path or an open stream, dumps returns a string; dump/dumps have no `name` parameter; the form of the
    path is a dimension of path sources / targets only"""
    e, f, k, o, n, pf = c
    if pf != "explicitMatching" and k != "path":
        return False
    if e in ("load", "load_all"):
        return k == "path"
    if e in ("loads", "loads_all"):
        return k == "str"
    if e == "dump":
        return k in ("path", "stream") and n == "notgiven"
    if e == "dumps":
        return k == "str" and n == "notgiven"
    raise ValueError(e)


def path_form(cell, fmt_str):
    """(suffix of the path, format argument) for the cell's path form; `fmt_str` is the explicit format string"""
    f, pf = cell[1], cell[5]
    own = ("." + fmt_str) if fmt_str else ""
    suffix = {"explicitMatching": own, "deduced": own, "deducedLink": own, "explicitNoSuffix": "",
              "explicitOtherSuffix": SUFFIX_OTHER[f], "explicitUnsupportedSuffix": SUFFIX_UNSUPPORTED}[pf]
    return suffix, (None if pf in ("deduced", "deducedLink") else fmt_str)


def make_link(link: Path, target: Path):
    """(re)create the symbolic link `link` -> `target` (relative target, as `ln -s` in a data directory would)"""
    if link.is_symlink() or link.exists():
        link.unlink()
    link.symlink_to(os.path.relpath(target, link.parent))
    return link


def same_path(a, b) -> bool:
    """the same path, or another spelling of a path to the same file (a harmless normalisation is not a finding)"""
    try:
        pa, pb = Path(str(a)), Path(str(b))
        return pa == pb or (pa.exists() and pb.exists() and os.path.samefile(pa, pb))
    except OSError:
        return False


class RecordingStream(io.StringIO):
    """a caller-owned open text stream that records every call other than write(): an entry point must not do
    anything to a caller's stream that the class-level dump does not (it only writes)"""

    def __init__(self):
        super().__init__()
        self.other_calls = []

    def flush(self):
        self.other_calls.append("flush")
        return super().flush()

    def close(self):
        self.other_calls.append("close")
        return super().close()

    def seek(self, *a):
        self.other_calls.append("seek")
        return super().seek(*a)

    def truncate(self, *a):
        self.other_calls.append("truncate")
        return super().truncate(*a)


# --------------------------------------------------------------------------------------
# spies
# --------------------------------------------------------------------------------------
class Spy:
    """records the outermost (depth 0) calls of class-level codec methods made while `active`"""

    def __init__(self):
        self.depth = 0
        self.calls = []        # dict(cls=, meth=, args=, kwargs=, ret=, exc=)
        self.opened = []       # file objects opened by molli.reader / molli.writer
        self.active = False
        self._undo = []

    # -- installation --
    def install(self):
        import molli as ml
        from molli.ftypes.cdxml import CDXMLFile
        import molli.reader as reader
        import molli.writer as writer

        classes = []
        for root in (ml.Molecule, ml.ConformerEnsemble, ml.Structure):
            for c in root.__mro__:
                if c is not object and c not in classes:
                    classes.append(c)
        for c in classes:
            for m in CODEC_METHODS:
                if m in c.__dict__:
                    self._wrap(c, m)
        for m in ("_parse_fragment", "__getitem__"):
            if m in CDXMLFile.__dict__:
                self._wrap(CDXMLFile, m)
        for mod in (reader, writer):
            had = "open" in mod.__dict__
            old = mod.__dict__.get("open")
            mod.open = self._open
            self._undo.append((lambda mod=mod, had=had, old=old: setattr(mod, "open", old) if had else delattr(mod, "open")))
        return self

    def uninstall(self):
        for u in reversed(self._undo):
            u()
        self._undo = []

    def __enter__(self):
        return self.install()

    def __exit__(self, *a):
        self.uninstall()

    def _open(self, *a, **k):
        f = open(*a, **k)
        if self.active:
            self.opened.append(f)
        return f

    def _wrap(self, cls, name):
        raw = cls.__dict__[name]
        is_cm = isinstance(raw, classmethod)
        func = raw.__func__ if is_cm else raw
        spy = self

        def wrapper(self_or_cls, *a, **k):
            if not spy.active:
                return func(self_or_cls, *a, **k)
            d = spy.depth
            spy.depth += 1
            rec = None
            if d == 0:
                owner = self_or_cls if isinstance(self_or_cls, type) else type(self_or_cls)
                rec = {"cls": owner, "meth": name, "args": a, "kwargs": dict(k), "ret": None, "exc": None, "self": self_or_cls}
                spy.calls.append(rec)
            try:
                r = func(self_or_cls, *a, **k)
                if rec is not None:
                    rec["ret"] = r
                return r
            except BaseException as e:
                if rec is not None:
                    rec["exc"] = e
                raise
            finally:
                spy.depth -= 1

        wrapper.__name__ = getattr(func, "__name__", name)
        wrapper.__doc__ = getattr(func, "__doc__", None)
        setattr(cls, name, classmethod(wrapper) if is_cm else wrapper)
        self._undo.append(lambda: setattr(cls, name, raw))

    def start(self):
        self.depth = 0
        self.calls = []
        self.opened = []
        self.active = True

    def stop(self):
        self.active = False


# --------------------------------------------------------------------------------------
# classification helpers (implementation objects -> small enums)
# --------------------------------------------------------------------------------------
def cls_enum(c) -> str:
    import molli as ml
    from molli.ftypes.cdxml import CDXMLFile

    if c is ml.Molecule:
        return "molecule"
    if c is ml.ConformerEnsemble:
        return "ensemble"
    if c is ml.Structure:
        return "structure"
    if c is CDXMLFile:
        return "cdxmlFile"
    return "other"


def otype_arg(o: str):
    """how the output type is requested: the two documented literals, and the Structure *class*"""
    import molli as ml

    return {"molecule": "molecule", "ensemble": "ensemble", "structure": ml.Structure}[o]


def otype_cls(o: str):
    import molli as ml

    return {"molecule": ml.Molecule, "ensemble": ml.ConformerEnsemble, "structure": ml.Structure}[o]


def exc_enum(e: BaseException) -> str:
    for cls, nm in ((NotImplementedError, "notImplemented"), (UnboundLocalError, "unboundLocal"), (ValueError, "valueError"),
                    (TypeError, "typeError"), (KeyError, "keyError"), (AttributeError, "attributeError"),
                    (OSError, "osError"), (StopIteration, "stopIteration")):
        if type(e) is cls:
            return nm
    if isinstance(e, ValueError):
        return "valueError"
    return "other"


def ret_enum(r) -> str:
    if r is None:
        return "none"
    if isinstance(r, str):
        return "text"
    if isinstance(r, list):
        if not r:
            return "other"
        ks = {cls_enum(type(x)) for x in r}
        return "list:" + (ks.pop() if len(ks) == 1 else "other")
    k = cls_enum(type(r))
    return "obj:" + k if k in ("molecule", "ensemble", "structure") else "other"


def meth_enum(name: str):
    """'load_all_xyz' -> ('loadAll','xyz')"""
    if name in ("_parse_fragment", "__getitem__"):
        return LEAN_MOP[name], "cdxml"
    op, _, codec = name.rpartition("_")
    return LEAN_ENTRY[op], codec


# --------------------------------------------------------------------------------------
# one observation
# --------------------------------------------------------------------------------------
NA_ACTION = {"applicable": False, "reached": "none", "nameFwd": False, "argOk": False, "result": "notCalled",
             "named": False, "wrote": "nothing", "streamOk": True}


def names_of(r):
    if isinstance(r, list):
        return [getattr(x, "name", None) for x in r]
    return [getattr(r, "name", None)]


class Sample:
    """the input a cell is probed with: paths / texts per format and an object per otype (for dump)"""

    def __init__(self, files: dict, objs: dict, workdir: Path, tag: str = "sample"):
        self.files = files      # fmt -> Path of an existing file in that format
        self.objs = objs        # otype -> object
        self.workdir = workdir
        self.tag = tag

    def src_path(self, fmt: str, table_fmt: str) -> Path:
        return self.files["xyz" if fmt == "unsupported" else fmt]

    def text(self, fmt: str) -> str:
        return self.src_path(fmt, fmt).read_text()


def call_entry(spy: Spy, cell, sample: Sample, fmt_str: str | None, *, path_as_str=False, mode=None, out_name="out"):
    """perform the call of the cell on the real entry point; returns a dict with everything observed"""
    import molli as ml

    e, f, k, o, n, pf = cell
    suffix, fmt_arg = path_form(cell, fmt_str)
    kw = {}
    if n == "given":
        kw["name"] = GIVEN_NAME
    caller_stream = None
    target_path = None
    before = ""
    src = None
    fn = getattr(ml, e)
    if e in ("load", "load_all"):
        src = sample.src_path(f, fmt_str)
        if pf == "deducedLink":
            store = sample.workdir / "store"
            store.mkdir(exist_ok=True)
            real = store / f"5f1c9a_{f}{LINK_TARGET_SUFFIX[f]}"
            real.write_bytes(src.read_bytes())
            src = make_link(sample.workdir / f"link_{f}{'_' + out_name if out_name != 'out' else ''}{suffix}", real)
        elif src.suffix != suffix:
            # the same content under a path with the suffix the cell asks for
            cp = sample.workdir / f"src_{f}{'_' + out_name if out_name != 'out' else ''}{suffix}"
            cp.write_bytes(src.read_bytes())
            src = cp
        args = (str(src) if path_as_str else src, fmt_arg)
        kw["otype"] = otype_arg(o)
    elif e in ("loads", "loads_all"):
        src = sample.text(f)
        args = (src, fmt_str)
        kw["otype"] = otype_arg(o)
    elif e == "dump":
        obj = sample.objs[o]
        if k == "stream":
            caller_stream = RecordingStream()
            caller_stream.write("PRE\n")
            before = "PRE\n"
            args = (obj, caller_stream, fmt_str)
        else:
            target_path = sample.workdir / f"{out_name}_{f}{suffix}"
            if pf == "deducedLink":
                store = sample.workdir / "store"
                store.mkdir(exist_ok=True)
                real = store / f"{out_name}_{f}_target{LINK_TARGET_SUFFIX[f]}"
                real.write_text("")
                make_link(target_path, real)
            elif target_path.is_symlink():
                target_path.unlink()
            if mode in ("a-existing", None):
                # the default mode is append: the target already holds EARLIER RECORDS, which are the caller's
                # (mode "fresh": no file yet; mode "w": old content to be replaced)
                before = "EARLIER RECORD 1\nEARLIER RECORD 2\n"
                target_path.write_text(before)       # (through the link, for a linked target)
            elif pf != "deducedLink" and target_path.exists():
                target_path.unlink()
            args = (obj, str(target_path) if path_as_str else target_path, fmt_arg)
            if mode in ("w", "a"):
                kw["mode"] = mode
            if mode == "w":
                target_path.write_text("OLD CONTENT\n")
    elif e == "dumps":
        args = (sample.objs[o], fmt_str)
    spy.start()
    ret, exc = None, None
    try:
        ret = fn(*args, **kw)
    except BaseException as ex:  # noqa: BLE001 - the class of the exception is the observation
        if isinstance(ex, (KeyboardInterrupt, SystemExit)):
            raise
        exc = ex
    finally:
        spy.stop()
    calls = list(spy.calls)
    opened = list(spy.opened)
    written = None
    if caller_stream is not None:
        caller_stream.other_calls = [c for c in caller_stream.other_calls]      # what the ENTRY POINT did to it
        written = caller_stream.getvalue() if not caller_stream.closed else None
    elif target_path is not None and target_path.exists():
        written = target_path.read_text()
    return {"ret": ret, "exc": exc, "calls": calls, "opened": opened, "caller_stream": caller_stream,
            "target_path": target_path, "before": before, "written": written, "src": src, "args": args, "kwargs": kw}


def classify(cell, obs) -> dict:
    """Action of the cell from the raw observation"""
    e, f, k, o, n, pf = cell
    calls = obs["calls"]
    kinds = []
    for c in calls:
        mop, codec = meth_enum(c["meth"])
        kinds.append((cls_enum(c["cls"]), mop, codec))
    distinct = sorted(set(kinds))
    if not distinct:
        reached = "none"
    elif len(distinct) > 1:
        reached = "many"
    else:
        reached = "meth:%s:%s:%s" % distinct[0]
    want_name = GIVEN_NAME if n == "given" else None
    name_fwd = bool(calls) and n == "given" and all(c["kwargs"].get("name") == want_name for c in calls)
    if n == "notgiven" and any(c["kwargs"].get("name") is not None for c in calls):
        name_fwd = True   # a name invented by the entry point
    # the argument the class method received is the caller's source / target
    arg_ok = bool(calls)
    for c in calls:
        a0 = c["args"][0] if c["args"] else c["kwargs"].get("input", c["kwargs"].get("stream", c["kwargs"].get("output")))
        if c["meth"] in ("_parse_fragment", "__getitem__"):
            ok = same_path(getattr(c["self"], "path", ""), obs["src"])
        elif e in ("load", "load_all"):
            ok = (hasattr(a0, "read") and same_path(getattr(a0, "name", ""), obs["src"])) or \
                 (isinstance(a0, (str, Path)) and same_path(a0, obs["src"]))
        elif e in ("loads", "loads_all"):
            ok = isinstance(a0, str) and a0 == obs["src"]
        elif e == "dump":
            if k == "stream":
                ok = a0 is obs["caller_stream"]
            else:
                ok = hasattr(a0, "write") and same_path(getattr(a0, "name", ""), obs["target_path"])
            ok = ok and c["self"] is obs["args"][0]
        else:  # dumps
            ok = c["self"] is obs["args"][0]
        arg_ok = arg_ok and bool(ok)
    exc = obs["exc"]
    if exc is not None:
        if any(c["exc"] is exc for c in calls):
            result = "propagated"
        else:
            result = "raised:" + exc_enum(exc)
    else:
        result = "returned:" + ret_enum(obs["ret"])
    named = False
    wrote = "nothing"
    if exc is None:
        if n == "given" and e in ("load", "loads", "load_all", "loads_all"):
            nm = names_of(obs["ret"])
            named = bool(nm) and all(x == GIVEN_NAME for x in nm)
        if e == "dump":
            w = obs["written"]
            if w is not None and len(w) > len(obs["before"]) and w.startswith(obs["before"]):
                wrote = "callerStream" if k == "stream" else "pathFile"
        elif e == "dumps":
            if isinstance(obs["ret"], str) and obs["ret"]:
                wrote = "returned"
    stream_ok = all(fh.closed for fh in obs["opened"])
    if obs["target_path"] is not None and obs["before"]:
        # whatever happened (also after an exception): the earlier records of the target file are still there
        w = obs["written"]
        stream_ok = stream_ok and w is not None and w.startswith(obs["before"])
    if obs["caller_stream"] is not None:
        # still open, and nothing was done to it but writing (the class-level dump only writes)
        stream_ok = stream_ok and not obs["caller_stream"].closed and not getattr(obs["caller_stream"], "other_calls", [])
    return {"applicable": True, "reached": reached, "nameFwd": name_fwd, "argOk": arg_ok, "result": result,
            "named": named, "wrote": wrote, "streamOk": stream_ok}


def fmt_string(cell) -> str:
    return UNSUPPORTED_TABLE_FMT if cell[1] == "unsupported" else cell[1]


def observe(spy: Spy, cell, sample: Sample) -> dict:
    if not applicable(cell):
        return dict(NA_ACTION)
    obs = call_entry(spy, cell, sample, fmt_string(cell))
    return classify(cell, obs)


# --------------------------------------------------------------------------------------
# class-level behaviour: does the class method of a cell raise by itself on the sample?
# --------------------------------------------------------------------------------------
class NoClassCodec(Exception):
    pass


def class_call(cell, sample: Sample, fmt: str | None = None, name=None, stream=None):
    """call the class-level codec the cell corresponds to, directly. Returns (value, exception)."""
    import molli as ml

    e, f, k, o, n = cell[:5]
    f = fmt or f
    C = otype_cls(o)
    kw = {"name": name} if name is not None else {}
    try:
        if f == "cdxml":
            from molli.ftypes.cdxml import CDXMLFile

            cdxf = CDXMLFile(sample.files["cdxml"])
            if e == "load":
                return C(cdxf._parse_fragment(cdxf.xfrags[0], **kw)), None
            if e == "load_all":
                return [C(cdxf._parse_fragment(fg, **kw)) for fg in cdxf.xfrags], None
            raise NoClassCodec("no class-level cdxml codec for " + e)
        if e in ("load", "load_all"):
            with open(sample.files[f], "rt") as fh:
                return getattr(C, f"{e}_{f}")(fh, **kw), None
        if e in ("loads", "loads_all"):
            return getattr(C, f"{e}_{f}")(sample.files[f].read_text(), **kw), None
        if e == "dump":
            s = stream if stream is not None else io.StringIO()
            r = getattr(sample.objs[o], f"dump_{f}")(s)
            return (r, s.getvalue()), None
        if e == "dumps":
            return getattr(sample.objs[o], f"dumps_{f}")(), None
    except NoClassCodec:
        raise
    except Exception as ex:  # noqa: BLE001
        return None, ex
    raise ValueError(cell)


def class_raises_table(sample: Sample) -> dict:
    """(otype, op, codec) -> bool : the class method raises by itself on the sample (owned by other properties)"""
    out = {}
    for o in OTYPES:
        for e in ENTRIES:
            for f in ("xyz", "mol2"):
                cell = (e, f, "path", o, "notgiven", "explicitMatching")
                C = otype_cls(o)
                mname = f"{e}_{f}"
                if not hasattr(C, mname):
                    out[(o, e, f)] = None     # no such class method
                    continue
                _, ex = class_call(cell, sample)
                out[(o, e, f)] = ex is not None
    return out


# --------------------------------------------------------------------------------------
# the default sample (bundled files of the repository)
# --------------------------------------------------------------------------------------
def default_sample(workdir: Path) -> Sample:
    import molli as ml
    from harness.common import REPO

    files = {"xyz": REPO / "molli" / "files" / "pentane_confs.xyz",
             "mol2": REPO / "molli" / "files" / "pentane_confs.mol2",
             "cdxml": REPO / "molli" / "files" / "parser_demo.cdxml"}
    objs = make_objs(files["mol2"])
    return Sample(files, objs, workdir, "bundled:pentane_confs")


def make_objs(mol2_path: Path, decorate: bool = True) -> dict:
    """the objects handed to dump / dumps.  `decorate`: the text the writers emit verbatim (name -> xyz comment line /
    mol2 molecule name, atom labels -> mol2 atom names) carries non-ASCII characters (Greek, a typographic minus, a prime)"""
    import molli as ml

    with open(mol2_path) as fh:
        mol = ml.Molecule.load_mol2(fh)
    with open(mol2_path) as fh:
        ens = ml.ConformerEnsemble.load_mol2(fh)
    with open(mol2_path) as fh:
        st = ml.Structure.load_mol2(fh)
    objs = {"molecule": mol, "ensemble": ens, "structure": st}
    if decorate:
        for ob in objs.values():
            ob.name = str(ob.name) + NON_ASCII_TAG
            for a, lbl in zip(ob.atoms, NON_ASCII_LABELS):
                a.label = lbl
    return objs


def action_key(a: dict) -> str:
    """canonical one-line form, the same the Lean driver prints"""
    return ("applicable=%s reached=%s nameFwd=%s argOk=%s result=%s named=%s wrote=%s streamOk=%s" % (
        str(a["applicable"]).lower(), a["reached"], str(a["nameFwd"]).lower(), str(a["argOk"]).lower(), a["result"],
        str(a["named"]).lower(), a["wrote"], str(a["streamOk"]).lower()))
