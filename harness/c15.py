"""
C15 — graph queries agree with graph theory.

Proof:  Molli.Props.C15 (bfs_nodup, bfs_complete, bfs_monotone, bfs_shortest, bfs_directed, inRing_iff,
        ring_iff_not_bridge, bondsWith_spec, neighbors_spec, valence_spec, embeddings_sound / _complete / _nodup, …)
        + generated obligations Molli.Gen.MatchTable (the model's node/edge predicates are `_node_match` / `_edge_match`
        on every enum pair) and Molli.Gen.Valence (bond orders).
Tie:    every labelled graph on ≤ 5 (quick) / ≤ 6 (thorough) atoms — every start, every bond in both directions, every
        bond's ring flag, every atom's neighbours / incident bonds / valence — plus random graphs up to 40 atoms with
        random elements and bond types (and a few multigraphs); the real `Connectivity` (also `Molecule` and
        `ConformerEnsemble`) against the Lean model through the driver, traversal ORDER included.  Match sets
        (`get_substr_indices`, which runs networkx VF2) are compared as sorted lists with the proven enumerator.
Oracle: model-free — own layered BFS, bridge test by edge deletion, incident-bond sums over the bond list with
        exact fractions, backtracking search for induced embeddings.
"""
from __future__ import annotations

import itertools
import json
from fractions import Fraction
from pathlib import Path

ELEMS = [6, 6, 6, 7, 8, 1, 0]           # atomic numbers drawn for graph atoms (0 = Unknown)
PAT_BT = [0, 1, 2, 3, 20, 21, 11]        # pattern bond types `_edge_match` implements
ALL_BT = [0, 1, 2, 3, 4, 5, 6, 10, 11, 20, 21, 98, 99, 100, 101]
COMMON_BT = [1, 1, 1, 2, 3, 20, 21, 99, 0]
ASTEREO = [0, 0, 0, 1, 10, 11]
BSTEREO = [0, 0, 0, 10, 11]


# ----------------------------------------------------------------------------------------------
# graphs as plain data:  atoms = [(Z, isotope|None, stereo)],  bonds = [(a1, a2, btype, stereo, label|None, Fraction forder)]
# ----------------------------------------------------------------------------------------------
ALL_ATYPES = [1]      # filled from the live AtomType / AtomGeom enums at the start of a run
ALL_GEOMS = [0]


def a_type(a):
    return a[3] if len(a) > 3 else 1


def a_geom(a):
    return a[4] if len(a) > 4 else 0


def a_label(a, i):
    """explicit label of a described atom; by default atom i is labelled `a<i>` (unique)"""
    return a[5] if len(a) > 5 and a[5] is not None else f"a{i}"


def rand_atom(rng, plain=False):
    """(Z, isotope, stereo, AtomType value, AtomGeom value): the last two are labels no graph query may depend on"""
    if plain:
        return (rng.choice(ELEMS), None, 0)
    return (rng.choice(ELEMS), rng.choice([None, None, None, 12, 13]), rng.choice(ASTEREO),
            rng.choice(ALL_ATYPES) if rng.chance(1, 2) else 1, rng.choice(ALL_GEOMS) if rng.chance(1, 3) else 0)


def rand_bond_attrs(rng, full=False):
    bt = rng.choice(ALL_BT) if full and rng.chance(1, 3) else rng.choice(COMMON_BT)
    fo = Fraction(rng.range(0, 24), 8) if bt == 99 else Fraction(1)
    return (bt, rng.choice(BSTEREO), rng.choice([None, None, None, "a", "b"]), fo)


def decorate(rng, n, pairs):
    """random bond order in the list, random orientation, random attributes"""
    pairs = list(pairs)
    rng.shuffle(pairs)
    bonds = []
    for (i, j) in pairs:
        if rng.chance(1, 2):
            i, j = j, i
        bonds.append((i, j) + rand_bond_attrs(rng, full=True))
    atoms = [rand_atom(rng) for _ in range(n)]
    return atoms, bonds


def all_graphs(n):
    pairs = list(itertools.combinations(range(n), 2))
    for mask in range(1 << len(pairs)):
        yield [p for k, p in enumerate(pairs) if mask >> k & 1]


def random_graph(rng, nmax):
    n = rng.range(1, nmax)
    style = rng.below(4)
    edges = set()
    if style == 0:      # trees / forests with ring closures
        for v in range(1, n):
            if rng.chance(9, 10):
                edges.add((rng.below(v), v))
        for _ in range(rng.range(0, max(1, n // 4))):
            a, b = rng.below(n), rng.below(n)
            if a != b:
                edges.add((min(a, b), max(a, b)))
    elif style == 1:    # sparse random
        m = rng.range(0, 2 * n)
        for _ in range(m):
            a, b = rng.below(n), rng.below(n)
            if a != b:
                edges.add((min(a, b), max(a, b)))
    elif style == 2:    # fused rings + chains
        v = 0
        while v < n - 1:
            size = rng.range(3, 7)
            ring = list(range(v, min(n, v + size)))
            for a, b in zip(ring, ring[1:]):
                edges.add((a, b))
            if len(ring) >= 3 and rng.chance(3, 4):
                edges.add((ring[0], ring[-1]))
            v = ring[-1] if rng.chance(1, 2) else ring[-1] + 1
    else:               # dense small
        n = min(n, 9)
        for a in range(n):
            for b in range(a + 1, n):
                if rng.chance(1, 2):
                    edges.add((a, b))
    # relabel vertices at random so that index order carries no structure
    perm = list(range(n))
    rng.shuffle(perm)
    return n, sorted((min(perm[a], perm[b]), max(perm[a], perm[b])) for a, b in edges)


# ----------------------------------------------------------------------------------------------
# request lines for the model driver
# ----------------------------------------------------------------------------------------------
def frac_s(f: Fraction) -> str:
    return str(f.numerator) if f.denominator == 1 else f"{f.numerator}/{f.denominator}"


def bonds_s(bonds) -> str:
    if not bonds:
        return "-"
    return ",".join(f"{a}-{b}:{bt}:{st}:{lab or ''}:{frac_s(fo)}" for a, b, bt, st, lab, fo in bonds)


def atoms_s(atoms) -> str:
    if not atoms:
        return "-"
    return ",".join(f"{a[0]}:{'-' if a[1] is None else a[1]}:{a[2]}" for a in atoms)


def q_line(n, bonds) -> str:
    return f"q n={n} bonds={bonds_s(bonds)}"


def m_line(P, G) -> str:
    return f"m P={atoms_s(P[0])};{bonds_s(P[1])} G={atoms_s(G[0])};{bonds_s(G[1])}"


# ----------------------------------------------------------------------------------------------
# the implementation
# ----------------------------------------------------------------------------------------------
KINDS = ["connectivity", "structure", "molecule", "ensemble", "conformer", "substructure"]
DESIGNATORS = ["obj", "idx", "neg", "label", "element"]


def build(atoms, bonds, kind="connectivity", rng=None):
    """the graph as a live object of one of the classes that carry the Connectivity queries.  Atom i has the unique
    label `a<i>`.  `substructure`: a Substructure of a larger, differently numbered parent Structure whose atoms and
    bonds restricted to the chosen atoms are exactly this graph."""
    from molli.chem import Atom, AtomGeom, AtomType, Bond, BondStereo, BondType, AtomStereo, Connectivity, Element

    def mk_atoms():
        return [Atom(Element(a[0]), isotope=a[1], stereo=AtomStereo(a[2]), label=a_label(a, i),
                     atype=AtomType(a_type(a)), geom=AtomGeom(a_geom(a))) for i, a in enumerate(atoms)]

    def mk_bond(A, a1, a2, bt, st, lab, fo):
        return Bond(A[a1], A[a2], btype=BondType(bt), stereo=BondStereo(st), label=lab, f_order=float(fo))

    if kind == "substructure" and atoms:
        from molli.chem import Structure, Substructure
        A = mk_atoms()
        extra = Atom("Xe", label="extra")
        order = list(range(len(A))) + [-1]
        if rng is not None:
            rng.shuffle(order)
        parent = Connectivity()
        for k in order:
            parent.append_atom(extra if k == -1 else A[k])
        blist = [mk_bond(A, *b) for b in bonds]
        pos = rng.below(len(blist) + 1) if rng is not None else 0
        blist.insert(pos, Bond(extra, A[rng.below(len(A)) if rng is not None else 0]))
        for b in blist:
            parent.append_bond(b)
        ps = Structure(parent)
        # atoms of the copy, addressed in the original numbering through their labels
        byid = {id(a): k for k, a in enumerate(parent.atoms)}
        return Substructure(ps, [byid[id(a)] for a in A])
    c = Connectivity()
    A = mk_atoms()
    for a in A:
        c.append_atom(a)
    for b in bonds:
        c.append_bond(mk_bond(A, *b))
    if not atoms or kind == "connectivity":
        return c
    if kind == "structure" or kind == "substructure":
        from molli.chem import Structure
        return Structure(c)
    if kind == "molecule":
        from molli.chem import Molecule
        return Molecule(c)
    if kind == "ensemble":
        from molli.chem import ConformerEnsemble
        return ConformerEnsemble(c, n_conformers=2)
    if kind == "conformer":
        from molli.chem import ConformerEnsemble
        return ConformerEnsemble(c, n_conformers=2)[1]
    raise ValueError(kind)


def labs(pairs):
    return "-" if not pairs else ",".join(f"{v}:{d}" for v, d in pairs)


def nats(xs):
    return "-" if not xs else ",".join(str(x) for x in xs)


class Spelling:
    """how an atom is handed to the API (AtomLike): the Atom object, its index, its negative index, its (unique)
    label, or its Element when it is the first atom of that element"""

    def __init__(self, c, policy, rng):
        self.c, self.policy, self.rng = c, policy, rng
        self.n = len(c.atoms)
        first = {}
        for i, a in enumerate(c.atoms):
            first.setdefault(a.element, i)
        self.first_of_element = first
        labels = [a.label for a in c.atoms]
        self.unique_labels = len(set(labels)) == len(labels) and None not in labels
        self.used = {}

    def __call__(self, i):
        kind = self.policy if self.policy in DESIGNATORS else self.rng.choice(DESIGNATORS)
        a = self.c.atoms[i]
        if kind == "element" and self.first_of_element.get(a.element) != i:
            kind = "idx"
        if kind == "label" and not self.unique_labels:
            kind = "obj"
        self.used[kind] = self.used.get(kind, 0) + 1
        if kind == "obj":
            return a
        if kind == "idx":
            return i
        if kind == "neg":
            return i - self.n
        if kind == "label":
            return a.label
        return a.element


def consume(gen, c, rng, mutate):
    """read a traversal generator to the end.  With `mutate` the consumer edits atom fields between two next() calls, as
    code does that numbers / annotates atoms in traversal order: label, isotope, attrib and element of the atom just
    yielded and of another atom are changed; everything is put back when the traversal is over."""
    if not mutate:
        return list(gen)
    from molli.chem import Element
    out, saved, k = [], {}, 0
    atoms = c.atoms

    def touch(a):
        if id(a) not in saved:
            saved[id(a)] = (a, a.label, a.isotope, a.element, dict(a.attrib))
        a.label = f"visited{k}"
        a.isotope = 100 + k
        a.attrib["order"] = k
        if rng.chance(1, 2):
            a.element = Element(rng.choice([2, 10, 18, 36]))

    try:
        for item in gen:
            out.append(item)
            if k > 6 * len(atoms) + 20:
                break           # a traversal of a finite graph that does not end: leave it to the oracle
            touch(item[0] if isinstance(item, tuple) else item)
            if atoms:
                touch(atoms[rng.below(len(atoms))])
            k += 1
    finally:
        for a, lab, iso, el, attrib in saved.values():
            a.label, a.isotope, a.element = lab, iso, el
            a.attrib.clear()
            a.attrib.update(attrib)
    return out


def impl_query(c, n, bonds, policy="obj", rng=None, mutate=False):
    """everything the driver's `q` request computes, from the real object, every atom argument spelled according to
    `policy` (one designator kind, or `mixed` = drawn per argument); returns (line, raw observations)"""
    from molli.chem import Bond

    idx = {id(a): i for i, a in enumerate(c.atoms)}
    bidx = {id(b): i for i, b in enumerate(c.bonds)}
    sp = Spelling(c, policy, rng)
    obs = {"bfs": [], "bfs_nolabel": [], "dir": [], "ring": [], "ringr": [], "nb": [], "bw": [], "val": [], "deg": []}
    for s in range(n):
        r = [(idx[id(a)], d) for a, d in consume(c.yield_bfsd(sp(s)), c, rng, mutate)]
        obs["bfs"].append(r)
        obs["bfs_nolabel"].append([idx[id(a)] for a in consume(c.yield_bfs(sp(s)), c, rng, mutate)])
    for b in c.bonds:
        for s, d in ((idx[id(b.a1)], idx[id(b.a2)]), (idx[id(b.a2)], idx[id(b.a1)])):
            try:
                r = [(idx[id(a)], k) for a, k in consume(c.yield_bfsd(sp(s), sp(d)), c, rng, mutate)]
                r2 = [idx[id(a)] for a in consume(c.yield_bfs(sp(s), sp(d)), c, rng, mutate)]
            except AssertionError:
                r, r2 = "err", "err"
            obs["dir"].append((r, r2))
        obs["ring"].append(bool(c.is_bond_in_ring(b)))
        # a bond object that is not the stored one, with the ends the other way round
        obs["ringr"].append(bool(c.is_bond_in_ring(Bond(b.a2, b.a1, btype=b.btype))))
    for u in range(n):
        obs["nb"].append([idx[id(a)] for a in c.connected_atoms(sp(u))])
        obs["bw"].append([bidx[id(b)] for b in c.bonds_with_atom(sp(u))])
        obs["val"].append(Fraction(float(c.bonded_valence(sp(u)))))
        obs["deg"].append(c.n_bonds_with_atom(sp(u)))
    obs["spellings"] = sp.used
    line = ("bfs=" + ";".join(labs(r) for r in obs["bfs"]) +
            " dir=" + ";".join("err" if r == "err" else labs(r) for r, _ in obs["dir"]) +
            " ring=" + "".join("1" if x else "0" for x in obs["ring"]) +
            " ringr=" + "".join("1" if x else "0" for x in obs["ringr"]) +
            " nb=" + ";".join(nats(x) for x in obs["nb"]) +
            " bw=" + ";".join(nats(x) for x in obs["bw"]) +
            " val=" + ";".join(frac_s(x) for x in obs["val"]))
    return line, obs


def impl_match(cG, cP):
    res = [list(x) for x in cG.get_substr_indices(cP)]
    # the mapping form must say the same
    gi = {id(a): i for i, a in enumerate(cG.atoms)}
    res2 = [[gi[id(m[a])] for a in cP.atoms] for m in cG.match(cP)]
    return sorted(res), sorted(res2)


# ----------------------------------------------------------------------------------------------
# model-free oracles
# ----------------------------------------------------------------------------------------------
def adjacency(n, bonds, without_vertex=None, without_pair=None):
    adj = [set() for _ in range(n)]
    for b in bonds:
        a1, a2 = b[0], b[1]
        if without_vertex is not None and (a1 == without_vertex or a2 == without_vertex):
            continue
        if without_pair is not None and {a1, a2} == set(without_pair):
            continue
        adj[a1].add(a2)
        adj[a2].add(a1)
    return adj


def distances(adj, s):
    dist = {s: 0}
    layer = [s]
    while layer:
        nxt = []
        for u in layer:
            for v in adj[u]:
                if v not in dist:
                    dist[v] = dist[u] + 1
                    nxt.append(v)
        layer = nxt
    return dist


def bt_order(bt, fo):
    if 0 <= bt <= 6:
        return Fraction(bt)
    if bt == 20:
        return Fraction(3, 2)
    if bt == 99:
        return fo
    if bt in (101, 10, 98, 11):
        return Fraction(0)
    return Fraction(1)


def oracle_query(ctx, n, bonds, obs, tag, simple):
    # ---- traversal without direction ----
    adj = adjacency(n, bonds)
    for s in range(n):
        dist = distances(adj, s)
        got = obs["bfs"][s]
        verts = [v for v, _ in got]
        if sorted(verts) != sorted(v for v in dist if v != s):
            ctx.violation("C15:bfs-not-component-exactly-once",
                          f"yield_bfsd({s}) yields {verts}, the other atoms of the component are {sorted(v for v in dist if v != s)}", {**tag, "start": s})
        elif any(dist[v] != d for v, d in got):
            ctx.violation("C15:bfs-wrong-distance", f"yield_bfsd({s}) = {got}, true distances {dist}", {**tag, "start": s})
        elif any(x[1] > y[1] for x, y in zip(got, got[1:])):
            ctx.violation("C15:bfs-not-monotone", f"yield_bfsd({s}) = {got}", {**tag, "start": s})
        if obs["bfs_nolabel"][s] != verts:
            ctx.violation("C15:yield_bfs-differs-from-yield_bfsd", f"start {s}: {obs['bfs_nolabel'][s]} vs {verts}", {**tag, "start": s})
    # ---- with direction, ring ----
    k = 0
    for bi, b in enumerate(bonds):
        for s, d in ((b[0], b[1]), (b[1], b[0])):
            got, got2 = obs["dir"][k]
            k += 1
            if s == d:
                continue
            if got == "err":
                ctx.violation("C15:directed-rejected", f"yield_bfsd({s},{d}) raised although {d} is bonded to {s}", {**tag, "start": s, "dir": d})
                continue
            adjx = adjacency(n, bonds, without_vertex=s)
            dist = distances(adjx, d)
            verts = [v for v, _ in got]
            if sorted(verts) != sorted(dist):
                ctx.violation("C15:directed-wrong-set",
                              f"yield_bfsd({s},{d}) yields {verts}; reachable through {d} without passing {s}: {sorted(dist)}", {**tag, "start": s, "dir": d})
            elif any(dist[v] + 1 != dd for v, dd in got) or any(x[1] > y[1] for x, y in zip(got, got[1:])):
                ctx.violation("C15:directed-wrong-distance", f"yield_bfsd({s},{d}) = {got}; 1 + distances from {d} without {s}: {dist}", {**tag, "start": s, "dir": d})
            if got2 != verts:
                ctx.violation("C15:yield_bfs-differs-from-yield_bfsd", f"start {s} dir {d}", {**tag, "start": s, "dir": d})
        if b[0] != b[1] and simple:
            adjb = adjacency(n, bonds, without_pair=(b[0], b[1]))
            not_bridge = b[1] in distances(adjb, b[0])
            if obs["ring"][bi] != not_bridge:
                ctx.violation("C15:ring-vs-bridge",
                              f"is_bond_in_ring(bond {b[0]}-{b[1]}) = {obs['ring'][bi]} but the bond is {'not ' if not_bridge else ''}a bridge", {**tag, "bond": bi})
            if obs["ringr"][bi] != not_bridge:
                ctx.violation("C15:ring-vs-bridge",
                              f"is_bond_in_ring(Bond({b[1]}, {b[0]})) = {obs['ringr'][bi]} but the bond is {'not ' if not_bridge else ''}a bridge", {**tag, "bond": bi, "reversed": True})
    # ---- neighbours, incident bonds, valence ----
    for u in range(n):
        inc = [i for i, b in enumerate(bonds) if u in (b[0], b[1])]
        nb = [bonds[i][1] if bonds[i][0] == u else bonds[i][0] for i in inc]
        val = sum((bt_order(bonds[i][2], bonds[i][5]) for i in inc), Fraction(0))
        if obs["bw"][u] != inc:
            ctx.violation("C15:bonds_with_atom", f"atom {u}: {obs['bw'][u]} vs bond list {inc}", {**tag, "atom": u})
        if obs["nb"][u] != nb or obs["deg"][u] != len(inc):
            ctx.violation("C15:connected_atoms", f"atom {u}: {obs['nb'][u]} (n_bonds {obs['deg'][u]}) vs bond list {nb}", {**tag, "atom": u})
        if obs["val"][u] != val:
            ctx.violation("C15:bonded_valence", f"atom {u}: {obs['val'][u]} vs bond list {val}", {**tag, "atom": u})


def edge_lookup(bonds):
    d = {}
    for b in bonds:
        d.setdefault(frozenset((b[0], b[1])), b)
    return d


def node_ok_property(g, p):
    """the property's rule: elements agree, Unknown in the pattern matches any"""
    return p[0] == 0 or g[0] == p[0]


def node_ok_refined(g, p):
    return node_ok_property(g, p) and (p[1] is None or g[1] == p[1]) and (p[2] == 0 or g[2] == p[2])


def edge_ok_refined(g, p):
    bt = p[2]
    if bt == 0:
        ok = True
    elif bt in (1, 2, 3):
        ok = g[2] >= bt
    elif bt in (20, 21):
        ok = g[2] == bt
    else:
        ok = False
    return ok and (p[3] == 0 or g[3] == p[3]) and (p[4] is None or g[4] == p[4])


def induced_embeddings(P, G, node_ok, edge_ok):
    """backtracking search, independent of the Lean enumerator"""
    (pa, pb), (ga, gb) = P, G
    pe, ge = edge_lookup(pb), edge_lookup(gb)
    out = []
    phi = []

    def rec():
        i = len(phi)
        if i == len(pa):
            out.append(list(phi))
            return
        for x in range(len(ga)):
            if x in phi or not node_ok(ga[x], pa[i]):
                continue
            good = True
            for j in range(i):
                ep = pe.get(frozenset((j, i)))
                eg = ge.get(frozenset((phi[j], x)))
                if (ep is None) != (eg is None) or (ep is not None and not edge_ok(eg, ep)):
                    good = False
                    break
            if good:
                phi.append(x)
                rec()
                phi.pop()

    rec()
    return sorted(out)


def is_valid_by_property(P, G, phi):
    (pa, pb), (ga, gb) = P, G
    if len(phi) != len(pa) or len(set(phi)) != len(phi) or any(not (0 <= x < len(ga)) for x in phi):
        return False
    pe, ge = edge_lookup(pb), edge_lookup(gb)
    for i in range(len(pa)):
        if not node_ok_property(ga[phi[i]], pa[i]):
            return False
        for j in range(i):
            if (frozenset((j, i)) in pe) != (frozenset((phi[j], phi[i])) in ge):
                return False
    return True


def pattern_is_plain(P):
    return all(a[1] is None and a[2] == 0 for a in P[0]) and all(b[2] == 0 and b[3] == 0 and b[4] is None for b in P[1])


def oracle_match(ctx, P, G, got, tag):
    for phi in got:
        if not is_valid_by_property(P, G, phi):
            ctx.violation("C15:match-invalid", f"get_substr_indices returned {phi}, not an induced embedding respecting elements", {**tag, "phi": phi})
            return
    if len(set(map(tuple, got))) != len(got):
        ctx.violation("C15:match-duplicate", f"a mapping is returned twice: {got}", tag)
    want = induced_embeddings(P, G, node_ok_refined, edge_ok_refined)
    missed = [phi for phi in want if phi not in got]
    if missed:
        ctx.violation("C15:match-missed", f"induced embeddings not returned: {missed[:5]} (returned {len(got)}, expected {len(want)})", {**tag, "missed": missed[:5]})
    extra = [phi for phi in got if phi not in want]
    if extra and pattern_is_plain(P):
        ctx.violation("C15:match-invalid", f"returned {extra[:5]} beyond the induced embeddings", {**tag, "phi": extra[0]})


# ----------------------------------------------------------------------------------------------
# patterns
# ----------------------------------------------------------------------------------------------
def make_pattern(rng, G, maxsize=5):
    ga, gb = G
    n = len(ga)
    style = rng.below(10)
    if n == 0 or style == 0:
        # free-standing small pattern
        k = rng.range(1, 3)
        pairs = [p for p in itertools.combinations(range(k), 2) if rng.chance(2, 3)]
        atoms = [rand_atom(rng, plain=True) for _ in range(k)]
        bonds = [(a, b, 0, 0, None, Fraction(1)) for a, b in pairs]
        return atoms, bonds
    # connected induced subgraph grown from a random atom
    adj = adjacency(n, gb)
    start = rng.below(n)
    chosen = [start]
    size = rng.range(1, min(maxsize, n))
    frontier = set(adj[start])
    while len(chosen) < size and frontier:
        v = rng.choice(sorted(frontier))
        chosen.append(v)
        frontier |= adj[v]
        frontier -= set(chosen)
    rng.shuffle(chosen)
    pos = {v: i for i, v in enumerate(chosen)}
    ge = edge_lookup(gb)
    plain = style <= 4
    atoms = []
    for v in chosen:
        z, iso, st = ga[v][:3]
        if rng.chance(1, 5):
            z = 0
        if plain:
            iso, st = None, 0
        else:
            iso = iso if rng.chance(1, 2) else None
            st = st if rng.chance(1, 2) else 0
        atoms.append((z, iso, st))
    bonds = []
    for a, b in itertools.combinations(chosen, 2):
        e = ge.get(frozenset((a, b)))
        if e is None:
            continue
        if plain:
            attrs = (0, 0, None, Fraction(1))
        else:
            bt = e[2] if e[2] in PAT_BT and rng.chance(1, 2) else rng.choice(PAT_BT[:6])
            attrs = (bt, e[3] if rng.chance(1, 3) else 0, e[4] if rng.chance(1, 3) else None, Fraction(1))
        i, j = (pos[a], pos[b]) if rng.chance(1, 2) else (pos[b], pos[a])
        bonds.append((i, j) + attrs)
    if style == 9 and bonds:
        bonds.pop(rng.below(len(bonds)))          # no longer induced in G at this place
    if style == 8 and len(atoms) >= 2:
        atoms[0] = (rng.choice([6, 7, 8]), atoms[0][1], atoms[0][2])
    rng.shuffle(bonds)
    return atoms, bonds


# ----------------------------------------------------------------------------------------------
# the run
# ----------------------------------------------------------------------------------------------
def graph_json(atoms, bonds):
    return {"atoms": [list(a) for a in atoms], "bonds": [[b[0], b[1], b[2], b[3], b[4], frac_s(b[5])] for b in bonds]}


def graph_from_json(j):
    return ([tuple(a) for a in j["atoms"]], [(b[0], b[1], b[2], b[3], b[4], Fraction(b[5])) for b in j["bonds"]])


def is_simple(bonds):
    seen = set()
    for b in bonds:
        k = frozenset((b[0], b[1]))
        if b[0] == b[1] or k in seen:
            return False
        seen.add(k)
    return True


class Batch:
    """collects (request, implementation answer) pairs; identical requests are sent to the model once"""

    def __init__(self, ctx):
        self.ctx = ctx
        self.items = []

    def add(self, line, impl_line, tag):
        self.items.append((line, impl_line, tag))

    def flush(self):
        if not self.items:
            return
        uniq = list(dict.fromkeys(x[0] for x in self.items))
        outs = dict(zip(uniq, self.ctx.driver(uniq)))
        for line, impl_line, tag in self.items:
            mout = outs[line]
            if mout != impl_line:
                self.ctx.disagree("graph query results differ" if line.startswith("q ") else "match sets differ", tag, impl_line, mout)
        self.items = []


def one_graph(ctx, batch, rng, atoms, bonds, kind, origin, do_match=True, policies=("obj", "idx", "mixed")):
    n = len(atoms)
    simple = is_simple(bonds)
    gj = graph_json(atoms, bonds)
    c = build(atoms, bonds, kind, rng)
    line = q_line(n, bonds)
    ctx.case(line, nontrivial=len(bonds) > 0)
    ctx.count(f"{origin}:graphs")
    ctx.count(f"class:{type(c).__name__}")
    ctx.count(f"atoms={n}" if n <= 8 else f"atoms={(n // 8) * 8}+")
    if not simple:
        ctx.count("multigraph")
    obs = None
    for policy in policies:
        tag = {"op": "q", "graph": gj, "kind": kind, "designators": policy}
        impl_line, obs = impl_query(c, n, bonds, policy, rng, mutate=(policy == "mixed"))
        if policy == "mixed":
            ctx.count("traversals-with-mutating-consumer", 2 * n + 4 * len(bonds))
        for k, v in obs["spellings"].items():
            ctx.count(f"designator:{k}", v)
        batch.add(line, impl_line, tag)
        oracle_query(ctx, n, bonds, obs, tag, simple)
    ctx.count("has-ring-bond" if any(obs["ring"]) else "acyclic")
    if do_match and simple and n:
        P = make_pattern(rng, (atoms, bonds))
        run_match(ctx, batch, rng, (atoms, bonds), P, origin)
    return obs


# ----------------------------------------------------------------------------------------------
# query – edit – query sequences on ONE long-lived object (hidden state between calls)
# ----------------------------------------------------------------------------------------------
SESSION_KINDS = ["connectivity", "structure", "molecule", "ensemble"]


def gen_edit(rng, atoms, bonds, serial):
    """draw one edit that is legal on the current graph (graphs stay simple so that every query stays in its domain)"""
    n = len(atoms)
    present = {frozenset((b[0], b[1])) for b in bonds}
    free = [(i, j) for i in range(n) for j in range(i + 1, n) if frozenset((i, j)) not in present]
    choices = []
    if free:
        choices += ["connect"] * 4
    if bonds:
        choices += ["del_bond"] * 3 + ["set_bond"] * 2
    if n > 2:
        choices += ["del_atom"]
    if n < 12:
        choices += ["add_atom"] * 2
    if n:
        choices += ["set_atom"]
    op = rng.choice(choices)
    if op == "connect":
        i, j = rng.choice(free)
        if rng.chance(1, 2):
            i, j = j, i
        bt, st, lab, fo = rand_bond_attrs(rng, full=True)
        return {"op": "connect", "i": i, "j": j, "bt": bt, "st": st, "label": lab, "fo": frac_s(fo),
                "how": rng.choice(["connect", "append_bond"]), "spell": rng.choice(["obj", "idx", "label"])}
    if op == "del_bond":
        return {"op": "del_bond", "k": rng.below(len(bonds))}
    if op == "set_bond":
        bt, st, lab, fo = rand_bond_attrs(rng, full=True)
        return {"op": "set_bond", "k": rng.below(len(bonds)), "bt": bt, "st": st, "label": lab, "fo": frac_s(fo)}
    if op == "del_atom":
        return {"op": "del_atom", "i": rng.below(n), "spell": rng.choice(["obj", "idx", "label"])}
    if op == "add_atom":
        z, iso, st = rand_atom(rng)[:3]
        to = rng.below(n) if n and rng.chance(4, 5) else None
        bt, bst, lab, fo = rand_bond_attrs(rng)
        return {"op": "add_atom", "z": z, "iso": iso, "st": st, "name": f"n{serial}", "to": to, "bt": bt, "bst": bst,
                "blabel": lab, "fo": frac_s(fo), "how": rng.choice(["append_atom", "add_atom"])}
    z, iso, st, at, ge = rand_atom(rng)
    return {"op": "set_atom", "i": rng.below(n), "z": z, "iso": iso, "st": st, "name": f"r{serial}", "atype": at, "geom": ge}


def apply_edit(c, atoms, bonds, e):
    """the same edit on the live object and on the plain data"""
    from molli.chem import Atom, AtomStereo, Bond, BondStereo, BondType, Element

    def spell(i, how):
        a = c.atoms[i]
        return {"obj": a, "idx": i, "label": a.label, "neg": i - len(c.atoms)}[how]

    op = e["op"]
    if op == "connect":
        kw = dict(btype=BondType(e["bt"]), stereo=BondStereo(e["st"]), label=e["label"], f_order=float(Fraction(e["fo"])))
        if e["how"] == "connect":
            c.connect(spell(e["i"], e["spell"]), spell(e["j"], e["spell"]), **kw)
        else:
            c.append_bond(Bond(c.atoms[e["i"]], c.atoms[e["j"]], **kw))
        bonds.append((e["i"], e["j"], e["bt"], e["st"], e["label"], Fraction(e["fo"])))
    elif op == "del_bond":
        b = c.bonds[e["k"]]
        c.del_bond(b)        # located by identity
        bonds.pop(e["k"])
    elif op == "set_bond":
        b = c.bonds[e["k"]]
        b.btype = BondType(e["bt"])
        b.stereo = BondStereo(e["st"])
        b.label = e["label"]
        b.f_order = float(Fraction(e["fo"]))
        old = bonds[e["k"]]
        bonds[e["k"]] = (old[0], old[1], e["bt"], e["st"], e["label"], Fraction(e["fo"]))
    elif op == "del_atom":
        i = e["i"]
        c.del_atom(spell(i, e["spell"]))
        atoms.pop(i)
        kept = [b for b in bonds if i not in (b[0], b[1])]
        bonds[:] = [(b[0] - (b[0] > i), b[1] - (b[1] > i)) + tuple(b[2:]) for b in kept]
    elif op == "add_atom":
        a = Atom(Element(e["z"]), isotope=e["iso"], stereo=AtomStereo(e["st"]), label=e["name"])
        if e["how"] == "add_atom" and hasattr(c, "add_atom"):
            c.add_atom(a, [0.5, 0.25, -1.0])
        else:
            c.append_atom(a)
        atoms.append((e["z"], e["iso"], e["st"]))
        if e["to"] is not None:
            c.connect(a, e["to"], btype=BondType(e["bt"]), stereo=BondStereo(e["bst"]), label=e["blabel"], f_order=float(Fraction(e["fo"])))
            bonds.append((len(atoms) - 1, e["to"], e["bt"], e["bst"], e["blabel"], Fraction(e["fo"])))
    elif op == "set_atom":
        a = c.atoms[e["i"]]
        a.element = Element(e["z"])
        a.isotope = e["iso"]
        a.stereo = AtomStereo(e["st"])
        a.label = e["name"]
        if "atype" in e:
            from molli.chem import AtomGeom, AtomType
            a.atype, a.geom = AtomType(e["atype"]), AtomGeom(e["geom"])
        atoms[e["i"]] = (e["z"], e["iso"], e["st"], e.get("atype", 1), e.get("geom", 0))
    else:
        raise ValueError(op)


def session_step(ctx, batch, rng, c, atoms, bonds, tag, policy, pattern):
    """all queries on the live object as it is now, against the model / oracle of the graph as it is now"""
    n = len(atoms)
    line = q_line(n, bonds)
    impl_line, obs = impl_query(c, n, bonds, policy, rng, mutate=(policy == "mixed"))
    ctx.case(line + "#" + str(len(tag["edits"])), nontrivial=len(bonds) > 0 and len(tag["edits"]) > 0)
    for k, v in obs["spellings"].items():
        ctx.count(f"designator:{k}", v)
    batch.add(line, impl_line, tag)
    oracle_query(ctx, n, bonds, obs, tag, is_simple(bonds))
    if pattern is not None and n:
        G = (list(atoms), list(bonds))
        cP = build(pattern[0], pattern[1], "connectivity", rng)
        got, got2 = impl_match(c, cP)
        mtag = {**tag, "pattern": graph_json(*pattern)}
        if got != got2:
            ctx.violation("C15:match-vs-get_substr_indices", f"{type(c).__name__}: match() gives {got2[:4]}, get_substr_indices {got[:4]}", mtag)
        batch.add(m_line(pattern, G), "-" if not got else "|".join(".".join(str(x) for x in phi) for phi in got), mtag)
        oracle_match(ctx, pattern, G, got, mtag)
        ctx.count("session:matches")
    return obs


def run_session(ctx, batch, rng, atoms, bonds, kind, nsteps=None, script=None):
    """query, edit, query, … on one object.  `script` replays recorded edits; otherwise `nsteps` edits are drawn."""
    atoms, bonds = list(atoms), list(bonds)
    initial = graph_json(atoms, bonds)
    c = build(atoms, bonds, kind, rng)
    edits = []
    ctx.count("session:sessions")
    ctx.count(f"session:class:{type(c).__name__}")
    pattern = make_pattern(rng, (atoms, bonds), maxsize=4) if atoms else None
    steps = len(script) if script is not None else nsteps
    ring_before = None
    for t in range(steps + 1):
        tag = {"op": "session", "graph": initial, "kind": kind, "edits": list(edits),
               "designators": rng.choice(["obj", "idx", "mixed"])}
        obs = session_step(ctx, batch, rng, c, atoms, bonds, tag, tag["designators"], pattern)
        ring_now = {frozenset((b[0], b[1])): r for b, r in zip(bonds, obs["ring"])}
        if ring_before is not None and any(ring_before.get(k) not in (None, v) for k, v in ring_now.items()):
            ctx.count("session:ring-flag-of-a-surviving-bond-changed")
        ring_before = ring_now
        if t == steps:
            break
        e = script[t] if script is not None else gen_edit(rng, atoms, bonds, t)
        if e["op"] == "del_atom":
            ring_before = None       # indices shift
        apply_edit(c, atoms, bonds, e)
        edits.append(e)
        ctx.count(f"session:edit:{e['op']}")
        if rng.chance(1, 4) and atoms:
            pattern = make_pattern(rng, (atoms, bonds), maxsize=4)
    return c



# ----------------------------------------------------------------------------------------------
# fixed shapes under every uniform labelling: the answers are functions of the graph alone
# ----------------------------------------------------------------------------------------------
def shapes():
    ring6 = [(i, (i + 1) % 6) for i in range(6)]
    yield "biphenyl", 12, ring6 + [(6 + a, 6 + b) for a, b in ring6] + [(0, 6)]
    yield "two-rings-long-bridge", 11, [(0, 1), (1, 2), (2, 3), (3, 4), (4, 0), (0, 5), (5, 6), (6, 7), (7, 8), (8, 9), (9, 10), (10, 6)]
    yield "chain", 6, [(i, i + 1) for i in range(5)]
    yield "tree", 8, [(0, 1), (0, 2), (0, 3), (1, 4), (1, 5), (3, 6), (6, 7)]
    yield "ring-with-tails", 8, [(0, 1), (1, 2), (2, 3), (3, 0), (0, 4), (2, 5), (5, 6), (6, 7)]
    yield "fused-rings", 10, [(0, 1), (1, 2), (2, 3), (3, 4), (4, 5), (5, 0), (4, 6), (6, 7), (7, 8), (8, 9), (9, 5)]
    yield "spiro-and-bridge", 9, [(0, 1), (1, 2), (2, 0), (0, 3), (3, 4), (4, 0), (4, 5), (5, 6), (6, 7), (7, 8), (8, 6)]


def labelled_shapes(rng, quick):
    """every shape with ALL atoms carrying the same AtomType (each value in turn), the same element / isotope / label, and
    ALL bonds the same BondType (aromatic for the atom-type sweep; each value in turn for the bond-type sweep)"""
    for name, n, pairs in shapes():
        sweep = ALL_ATYPES if (not quick or name in ("biphenyl", "chain", "tree")) else sorted({2, *(rng.choice(ALL_ATYPES) for _ in range(3))})
        for t in sweep:
            atoms = [(6, None, 0, t, rng.choice(ALL_GEOMS), "C") for _ in range(n)]
            bonds = [(a, b, 20, 0, None, Fraction(1)) for a, b in pairs]
            yield f"{name}:atype={t}:bonds=aromatic", atoms, bonds
        for bt in ALL_BT:
            if quick and bt not in (0, 1, 2, 20, 21, 98, 10) and name not in ("biphenyl", "tree"):
                continue
            atoms = [(6, None, 0, 2, 0, "C") for _ in range(n)]
            bonds = [(a, b, bt, 0, None, Fraction(1, 2) if bt == 99 else Fraction(1)) for a, b in pairs]
            yield f"{name}:atype=aromatic:btype={bt}", atoms, bonds


def prefix_disconnected(P):
    """some prefix of the pattern's atom list is not connected although the pattern is (numbering not along the bonds)"""
    pa, pb = P
    for k in range(2, len(pa) + 1):
        adj = adjacency(k, [b for b in pb if b[0] < k and b[1] < k])
        if len(distances(adj, 0)) != k:
            full = adjacency(len(pa), pb)
            return len(distances(full, 0)) == len(pa)
    return False


def run_match(ctx, batch, rng, G, P, origin, host_kind=None, pattern_kind=None):
    host_kind = host_kind or rng.choice(KINDS)
    pattern_kind = pattern_kind or rng.choice(["connectivity", "connectivity", "structure", "molecule", "ensemble"])
    tag = {"op": "m", "graph": graph_json(*G), "pattern": graph_json(*P), "kind": host_kind, "pattern_kind": pattern_kind}
    cG = build(G[0], G[1], host_kind, rng)
    cP = build(P[0], P[1], pattern_kind, rng)
    got, got2 = impl_match(cG, cP)
    if got != got2:
        ctx.violation("C15:match-vs-get_substr_indices", f"{type(cG).__name__}: match() gives {got2[:4]}, get_substr_indices {got[:4]}", tag)
    line = m_line(P, G)
    ctx.case(line + "@" + host_kind, nontrivial=len(P[0]) >= 2 or bool(got))
    ctx.count(f"{origin}:matches")
    ctx.count(f"match-host:{type(cG).__name__}")
    ctx.count(f"pattern-atoms={len(P[0])}")
    ctx.count("pattern-plain" if pattern_is_plain(P) else "pattern-with-bond-types/isotopes/stereo")
    ctx.count("pattern-numbering:prefix-disconnected" if prefix_disconnected(P) else "pattern-numbering:along-bonds")
    ctx.count("match-nonempty" if got else "match-empty")
    impl_line = "-" if not got else "|".join(".".join(str(x) for x in phi) for phi in got)
    batch.add(line, impl_line, tag)
    oracle_match(ctx, P, G, got, tag)


def sort_model_embeddings(s):
    if s in ("-", "") or s.startswith("err"):
        return s
    return "|".join(".".join(map(str, phi)) for phi in sorted([int(x) for x in part.split(".")] for part in s.split("|")))


def run(ctx):
    ctx.rule = ("q-cases: one labelled graph (bond-list order, bond orientation, bond types, elements, atom type and geometry labels drawn at random; in the mixed pass the traversal generators are read by a consumer that edits atom fields between next() calls) as an object of "
                "one of the six classes carrying the queries (Connectivity, Structure, Molecule, ConformerEnsemble, Conformer, "
                "Substructure of a larger renumbered parent) with EVERY start atom, EVERY bond in both directions, every ring flag "
                "(stored bond and a fresh bond object with swapped ends), every atom's neighbours / incident bonds / valence, each "
                "asked three times: all atom arguments as Atom objects, all as integer indices, and with a designator kind drawn "
                "per argument (object, index, negative index, unique label, Element of the first atom of its element); "
                "non-trivial = at least one bond. m-cases: graph + pattern (random connected induced subgraph with elements "
                "blanked to Unknown, bond types altered, an edge dropped, or a free-standing pattern; pattern atoms numbered by a random "
                "permutation; host class drawn from the six, pattern class from four); non-trivial = pattern of "
                "≥ 2 atoms or a non-empty match set. Distinct by the canonical request line.")
    ctx.rule += (" session-cases: one long-lived object (Connectivity / Structure / Molecule / ConformerEnsemble) queried completely, "
                 "edited (connect / append_bond, del_bond, del_atom, append_atom / add_atom + connect, bond type / order / stereo / label "
                 "changed, atom element / isotope / stereo / label changed), queried again …, 3–8 edits; every answer is compared with "
                 "the model and the oracle for the graph as it is at that moment; non-trivial = after at least one edit, with a bond.")
    ctx.assumptions += [
        "A-nx: networkx' VF2 is not verified; its match sets are compared with the proven enumerator on every run",
        "A-simple: ring perception and matching are claimed for simple graphs (no parallel bonds, no loops); traversal, neighbours and valence for all bond lists",
        "A-dyadic: fractional bond orders are drawn as k/8 so that the float sum of `bonded_valence` is exact",
    ]
    from molli.chem import AtomGeom, AtomType
    ALL_ATYPES[:] = [int(t) for t in AtomType]
    ALL_GEOMS[:] = [int(g) for g in AtomGeom]
    ctx.proof(props=["Molli.Props.C15"], gen=["Valence", "MatchTable"])
    rng = ctx.rng
    batch = Batch(ctx)

    # model side sorts nothing: sort the model's embedding lists here (sets are compared as sorted lists)
    orig_driver = ctx.driver

    def driver_sorted(lines, timeout=900):
        outs = orig_driver(lines, timeout=timeout)
        return [sort_model_embeddings(o) if l.startswith("m ") else o for l, o in zip(lines, outs)]

    ctx.driver = driver_sorted

    # ---- corpus ----
    cdir = Path(__file__).resolve().parent.parent / "corpus" / "C15"
    if cdir.is_dir():
        for f in sorted(cdir.glob("*.json")):
            j = json.loads(f.read_text())
            atoms, bonds = graph_from_json(j["graph"])
            if j.get("op") == "session":
                for kd in SESSION_KINDS:
                    run_session(ctx, batch, rng, atoms, bonds, kd, script=j["edits"])
            elif j.get("op") == "m":
                P = graph_from_json(j["pattern"])
                for hk in KINDS:
                    run_match(ctx, batch, rng, (atoms, bonds), P, "corpus", host_kind=hk)
            else:
                for kd in ([j["kind"]] if "kind" in j else KINDS):
                    one_graph(ctx, batch, rng, atoms, bonds, kd, "corpus", do_match=False,
                              policies=DESIGNATORS + ["mixed"])

    # ---- exhaustive: all labelled graphs ----
    nmax = 5 if ctx.quick() else 6
    for n in range(0, nmax + 1):
        for pairs in all_graphs(n):
            ctx.check_deadline()
            atoms, bonds = decorate(rng, n, pairs)
            kind = rng.choice(KINDS)
            one_graph(ctx, batch, rng, atoms, bonds, kind, "exhaustive", do_match=(n >= 1 and (n <= 4 or rng.chance(1, 4 if n == 5 else 16))))
            if len(batch.items) >= 4000:
                batch.flush()
        ctx.count(f"exhaustive:n={n}:all-graphs")
    ctx.exhaustive = True
    ctx.extra_cov["exhaustive_upto_atoms"] = nmax
    batch.flush()

    # ---- fixed shapes, uniformly labelled (atoms that share element / isotope / label / type; bonds that share the type) ----
    for name, atoms, bonds in labelled_shapes(rng, ctx.quick()):
        ctx.check_deadline()
        pairs = list(bonds)
        rng.shuffle(pairs)
        bonds = [((b[1], b[0]) + b[2:]) if rng.chance(1, 2) else b for b in pairs]
        one_graph(ctx, batch, rng, atoms, bonds, rng.choice(KINDS), "shapes", do_match=rng.chance(1, 6),
                  policies=("obj", "mixed"))
        ctx.count("shapes:" + name.split(":")[0])
    batch.flush()

    # ---- random graphs up to 40 atoms ----
    nrand = 120 if ctx.quick() else 1500
    for k in range(nrand):
        ctx.check_deadline()
        n, pairs = random_graph(rng, 40)
        atoms, bonds = decorate(rng, n, pairs)
        if rng.chance(1, 12) and n >= 1:
            # multigraph: a parallel bond or a loop (traversal, neighbours and valence only)
            if bonds and rng.chance(1, 2):
                b = rng.choice(bonds)
                bonds.append((b[1], b[0]) + rand_bond_attrs(rng))
            else:
                v = rng.below(n)
                bonds.append((v, v) + rand_bond_attrs(rng))
        kind = rng.choice(KINDS)
        c_obs = one_graph(ctx, batch, rng, atoms, bonds, kind, "random", do_match=False)
        if is_simple(bonds):
            for _ in range(3 if ctx.quick() else 4):
                P = make_pattern(rng, (atoms, bonds))
                run_match(ctx, batch, rng, (atoms, bonds), P, "random")
        if k < 2:
            ctx.sample({"request": q_line(n, bonds)[:400], "impl_bfs_from_0": c_obs["bfs"][0][:12] if n else []})
        if len(batch.items) >= 1500:
            batch.flush()
    batch.flush()

    # ---- query – edit – query sessions on long-lived objects ----
    nsess = 70 if ctx.quick() else 1500
    for k in range(nsess):
        ctx.check_deadline()
        if rng.chance(1, 3):
            n = rng.range(2, 6)
            pairs = rng.choice(list(all_graphs(n))) if n <= 5 else []
        else:
            n, pairs = random_graph(rng, 10)
        atoms, bonds = decorate(rng, n, pairs)
        run_session(ctx, batch, rng, atoms, bonds, rng.choice(SESSION_KINDS), nsteps=rng.range(3, 8))
        if len(batch.items) >= 1500:
            batch.flush()
    batch.flush()
    ctx.driver = orig_driver


def replay(ctx, path):
    obj = json.loads(Path(path).read_text())
    print(json.dumps(obj, indent=1)[:3000])
    r = obj.get("replay") or {}
    if "graph" not in r:
        return 0
    atoms, bonds = graph_from_json(r["graph"])
    if r.get("op") == "session":
        batch = Batch(ctx)
        c = run_session(ctx, batch, ctx.rng, atoms, bonds, r.get("kind", "connectivity"), script=r["edits"])
        print(f"session of {len(r['edits'])} edits re-run on a {type(c).__name__} with all queries between the edits:")
        for e in r["edits"]:
            print("   ", e)
        batch.flush()
        print("oracle violations:", [(v["kind"], v["what"][:160]) for v in ctx.violations][:6])
        print("model disagreements:", len(ctx.disagreements))
        return 0
    c = build(atoms, bonds, r.get("kind", "connectivity"), ctx.rng)
    if r.get("op") == "m":
        P = graph_from_json(r["pattern"])
        got, _ = impl_match(c, build(P[0], P[1], r.get("pattern_kind", "connectivity"), ctx.rng))
        print("host class:", type(c).__name__)
        print("implementation get_substr_indices:", got)
        print("induced embeddings (oracle):      ", induced_embeddings(P, (atoms, bonds), node_ok_refined, edge_ok_refined))
        print("model:", ctx.driver([m_line(P, (atoms, bonds))]))
    else:
        line, obs = impl_query(c, len(atoms), bonds, r.get("designators", "obj"), ctx.rng,
                               mutate=(r.get("designators") == "mixed"))
        print(f"implementation ({type(c).__name__}, atom arguments spelled: {r.get('designators', 'obj')}):", line)
        print("model:         ", ctx.driver([q_line(len(atoms), bonds)])[0])
    return 0
