"""
C11 — geometric operations are rigid motions with the documented effect.

Proof:  Molli.Props.C11 over Molli.Model.Geom (any field): rotVec_orth/det/maps(+direction), rotVec_antiparallel
        (both variants), rotVecFull_spec, rotVec_antiparallel_ordered, rotVecFull_spec_ordered (no side condition left over ordered fields), rotAxis_orth/det/fixes_axis/angle(+row_angle), rigid_dist, rigid_chirality,
        substructure_moves_only_selected, substructure_view_moves_its_atoms,
        substructure_view_survives_parent_edits (+ substructure_cached_rows_counterexample), moved_part_rigid, dihedral_after_rotation, rotate_dihedral_hits_target
        (+ _counterexample / _shipped_partial for the code as shipped: D23), centroid_after_centering,
        ens_conformerwise, align_reports_achieved, align_final_pose, align_rigid.
Tie:    (i) rational test points (Pythagorean quadruples, tangent half-angle): the real numpy functions vs the
        model run over exact rationals in the Lean driver, entry-wise, tolerance 1e-9;
        (ii) the spec predicates the theorems establish (orth, det, maps, fixes-axis, angle, frame, rigid,
        dihedral-at-target) evaluated EXACTLY in Lean on the floats the real code returned (floats are dyadic
        rationals), incl. the degenerate neighbourhoods (v2 within 1e-3..1e-12 of −v1, v2 within 3e-2..1e-9 of +v1
        at tolerance 1e-11, exact (anti)parallel,
        angle 0 / π, axis-aligned vectors, rotation axes of length 1 ± 1e-3…1e-9 / rounded unit vectors / float32-normalised at 1e-12).
Oracle: model-free numpy: distance matrices, signed volumes, dihedral() before/after, bit-identity of unmoved
        rows, centroids, recomputed RMSD, pose independence.
"""
from __future__ import annotations

import json
import math
from fractions import Fraction
from pathlib import Path

import numpy as np

from harness import geomlib as G
from harness.geomlib import fbits, ftoks, qtoks, frtok, TOL, TOL_DEG

ELEMENTS = ["C", "N", "O", "H", "F", "S", "Cl", "P"]


NEAR_ONE = [1e-3, 1e-4, 1e-5, 3e-6, 1e-6, 1e-7, 1e-8, 1e-9]
NEAR_PAR_DELTAS = [3e-2, 1e-2, 1e-3, 3e-4, 1e-4, 3e-5, 1e-5, 1e-6, 1e-7, 1e-8, 1e-9]
TOL_AXIS = 1e-12    # rotation_matrix_from_axis always normalises: orth/det/axis/angle hold to a few 1e-16 on the unchanged code
TOL_PAR = 1e-11     # near-parallel inputs are perfectly conditioned (1 + c ≈ 2): the unchanged code is exact to ~1e-16


class Batch:
    def __init__(self):
        self.items = []

    def add(self, line: str, cb):
        self.items.append((line, cb))

    def run(self, ctx):
        if not self.items:
            return
        outs = ctx.driver([l for l, _ in self.items])
        for (line, cb), out in zip(self.items, outs):
            cb(line, out)
        ctx.extra_cov["driver_requests"] = ctx.extra_cov.get("driver_requests", 0) + len(self.items)
        self.items = []


def expect_array(ctx, what, tag, impl, prefix, tol=TOL):
    impl = np.asarray(impl, dtype=float)

    def cb(line, out):
        m = G.model_array(out, prefix, impl.shape)
        if m is None or not G.close(impl, m, tol):
            ctx.disagree(what, {"tag": tag, "request": line[:1500]}, impl.tolist(), out[:1500])
    return cb


def expect_flags(ctx, what, tag, violation_kinds=None):
    """all `name=1`; a failed flag on the implementation's own output is a violation of the property itself"""
    def cb(line, out):
        flags = dict(p.split("=") for p in out.split() if "=" in p)
        if not flags or out.startswith("err"):
            ctx.disagree(what + " (malformed spec answer)", {"tag": tag, "request": line[:1500]}, "flags", out[:300])
            return
        bad = [k for k, v in flags.items() if v != "1"]
        if bad:
            kinds = violation_kinds or {}
            for k in bad:
                if k in kinds:
                    ctx.violation(kinds[k], f"{what}: exact spec predicate `{k}` fails on the returned floats", {"tag": tag, "request": line})
                else:
                    ctx.disagree(what + f": predicate {k} false", {"tag": tag, "request": line[:1500]}, "1", out)
    return cb


# ------------------------------------------------------------------------------------------
# model-free oracles for rotation matrices
# ------------------------------------------------------------------------------------------
def rot_oracle(ctx, R, v1, v2, tol, tag, prefix):
    R = np.asarray(R, dtype=float)
    ok = True
    if R.shape != (3, 3) or not np.all(np.isfinite(R)):
        ctx.violation(f"{prefix}-not-orthogonal", "rotation matrix is not a finite 3x3 array", tag)
        return False
    if np.abs(R @ R.T - np.eye(3)).max() > tol:
        ctx.violation(f"{prefix}-not-orthogonal", f"|R R^T - I| = {np.abs(R @ R.T - np.eye(3)).max():.3g}", tag)
        ok = False
    if abs(np.linalg.det(R) - 1) > tol:
        ctx.violation(f"{prefix}-not-proper", f"det R = {np.linalg.det(R):.12g}", tag)
        ok = False
    if v1 is not None:
        w = np.asarray(v1, dtype=float) @ R
        v2 = np.asarray(v2, dtype=float)
        cr = np.linalg.norm(np.cross(w, v2)) / (np.linalg.norm(w) * np.linalg.norm(v2))
        if cr > tol or np.dot(w, v2) <= 0:
            ctx.violation(f"{prefix}-wrong-direction", f"v1 @ R is not along v2 (sin = {cr:.3g}, dot = {np.dot(w, v2):.3g})", tag)
            ok = False
    return ok


SPECROT_KINDS = {"orth": "C11:rotvec-not-orthogonal", "det": "C11:rotvec-not-proper", "maps": "C11:rotvec-wrong-direction"}
SPECAXIS_KINDS = {"orth": "C11:rotaxis-not-orthogonal", "det": "C11:rotaxis-not-proper", "fix": "C11:rotaxis-moves-axis",
                  "angle": "C11:rotaxis-wrong-angle"}


def scales(rng):
    return rng.choice([1.0, 1.0, 0.5, 2.0, 3.0, 0.125, 7.0, 1.5, 100.0, 1e-3])


# ------------------------------------------------------------------------------------------
# A. rotation_matrix_from_vectors, general position, rational points
# ------------------------------------------------------------------------------------------
def sec_rotvec(ctx, B, n):
    from molli.math.rotation import rotation_matrix_from_vectors as rmv
    rng = ctx.rng
    for _ in range(n):
        a, b = G.rational_unit(rng), G.rational_unit(rng)
        c = sum(x * y for x, y in zip(a, b))
        if c <= Fraction(-9, 10):
            continue  # near-antiparallel pairs are section B
        k1, k2 = scales(rng), scales(rng)
        v1 = np.array([float(x) for x in a]) * k1
        v2 = np.array([float(x) for x in b]) * k2
        tag = {"op": "rotation_matrix_from_vectors", "a": qtoks(a), "b": qtoks(b), "k1": k1, "k2": k2}
        R = rmv(v1, v2)
        rot_oracle(ctx, R, v1, v2, TOL, tag, "C11:rotvec")
        B.add(f"rotvec {qtoks(a)} {qtoks(b)}", expect_array(ctx, "rotation_matrix_from_vectors differs from the model", tag, R, "m"))
        B.add(f"specrot {ftoks(R)} {ftoks(v1)} {ftoks(v2)} 1/1000000000",
              expect_flags(ctx, "rotation_matrix_from_vectors", tag, SPECROT_KINDS))
        ctx.case(["rotvec", qtoks(a), qtoks(b), k1, k2], nontrivial=(a != b))
        ctx.count("rotvec.general")
        ctx.count("rotvec.parallel" if a == b else "rotvec.generic")
        if ctx.evaluations <= 2:
            ctx.sample(tag)


# ------------------------------------------------------------------------------------------
# B. degenerate neighbourhoods of rotation_matrix_from_vectors
# ------------------------------------------------------------------------------------------
def perp_unit(v, rng):
    v = np.asarray(v, dtype=float)
    while True:
        r = np.array([rng.uniform() - 0.5 for _ in range(3)])
        p = r - v * np.dot(r, v) / np.dot(v, v)
        if np.linalg.norm(p) > 0.1:
            return p / np.linalg.norm(p)


def rotvec_variant(rmv):
    """learn which variant of the antiparallel branch the code exhibits now (D25 witness)"""
    v1, v2 = np.array([0.0, 0.0, 1.0]), np.array([0.0, 0.0, -1.0])
    np.random.seed(1)
    R1 = rmv(v1, v2)
    np.random.seed(2)
    R2 = rmv(v1, v2)
    return "repaired" if np.array_equal(R1, R2) else "shipped"


def sec_rotvec_degenerate(ctx, B, nbase):
    from molli.math.rotation import rotation_matrix_from_vectors as rmv
    rng = ctx.rng
    variant = rotvec_variant(rmv)
    ctx.count(f"rotvec.antiparallel-branch-variant={variant}")
    deltas = [1e-3, 1e-4, 1e-5, 1e-6, 1e-7, 1e-8, 1e-9, 1e-10, 1e-11, 1e-12, 0.0]
    axes = [np.array(v, dtype=float) for v in ([1, 0, 0], [0, 1, 0], [0, 0, 1], [-1, 0, 0], [0, -1, 0], [0, 0, -1],
                                                [1, 1, 0], [0, 1, -1], [1, 1, 1])]
    bases = list(axes)
    for _ in range(nbase):
        bases.append(np.array([float(x) for x in G.rational_unit(rng)]) * scales(rng))
        bases.append(np.array([rng.uniform() * 4 - 2 for _ in range(3)]))
    for v1 in bases:
        if np.linalg.norm(v1) < 1e-6:
            continue
        p = perp_unit(v1, rng)
        for d in deltas:
            for tolarg in (None, 1e-6):
                k2 = scales(rng)
                v2 = (-v1 + d * np.linalg.norm(v1) * p) * k2
                tag = {"op": "rotation_matrix_from_vectors", "v1": v1.tolist(), "v2": v2.tolist(), "delta": d, "tol": tolarg}
                kw = {} if tolarg is None else {"tol": tolarg}
                np.random.seed(rng.below(2 ** 31))
                R1 = rmv(v1, v2, **kw)
                np.random.seed(rng.below(2 ** 31))
                R2 = rmv(v1, v2, **kw)
                for R in (R1, R2):
                    rot_oracle(ctx, R, v1, v2, TOL_DEG, tag, "C11:rotvec")
                B.add(f"specrot {ftoks(R1)} {ftoks(v1)} {ftoks(v2)} 1/1000000",
                      expect_flags(ctx, "rotation_matrix_from_vectors near antiparallel", tag, SPECROT_KINDS))
                ctx.case(["rotvec-deg", v1.tolist(), d, tolarg, k2], nontrivial=True)
                ctx.count(f"rotvec.degenerate.delta={d:g}")
        # nearly parallel: v2 = v1 + δ·⊥ — any "already aligned" shortcut would leave v1 up to sqrt(2·tol) off v2
        for d in NEAR_PAR_DELTAS:
            for tolarg in (None, 1e-6, 1e-4):
                k2 = scales(rng)
                v2 = (v1 + d * np.linalg.norm(v1) * p) * k2
                tag = {"op": "rotation_matrix_from_vectors", "v1": v1.tolist(), "v2": v2.tolist(), "delta_parallel": d, "tol": tolarg}
                kw = {} if tolarg is None else {"tol": tolarg}
                R = rmv(v1, v2, **kw)
                rot_oracle(ctx, R, v1, v2, TOL_PAR, tag, "C11:rotvec")
                B.add(f"specrot {ftoks(R)} {ftoks(v1)} {ftoks(v2)} 1/100000000000",
                      expect_flags(ctx, "rotation_matrix_from_vectors near parallel", tag, SPECROT_KINDS))
                ctx.case(["rotvec-nearpar", v1.tolist(), d, tolarg, k2], nontrivial=True)
                ctx.count(f"rotvec.near-parallel.delta={d:g}")
        # exactly parallel
        R = rmv(v1, v1 * 2.5)
        rot_oracle(ctx, R, v1, v1 * 2.5, TOL, {"op": "rotation_matrix_from_vectors", "v1": v1.tolist(), "v2": "2.5*v1"}, "C11:rotvec")
        ctx.case(["rotvec-par", v1.tolist()], nontrivial=False)
        ctx.count("rotvec.degenerate.parallel")
    # entry-wise against the model on exactly rational near-antiparallel pairs
    for _ in range(nbase * 3):
        b = G.rational_unit(rng)
        w = G.rational_unit(rng)
        q = rng.choice([10 ** 2, 10 ** 3, 10 ** 4, 10 ** 5, 10 ** 6, 10 ** 7, 0])
        sgn = rng.choice([-1, -1, 1])          # a near −b (antiparallel side) or near +b (parallel side)
        if q == 0:
            a = tuple(sgn * x for x in b)
        else:
            t = Fraction(1, q)
            s, c = 2 * t / (1 + t * t), (1 - t * t) / (1 + t * t)
            M = G.rot_axis_q(w, s, c)
            nb = [sgn * x for x in b]
            a = tuple(sum(nb[i] * M[i][j] for i in range(3)) for j in range(3))
        cab = sum(x * y for x, y in zip(a, b))
        for tolarg, tolq in ((None, Fraction(1, 10 ** 8)), (1e-6, Fraction(1, 10 ** 6))):
            thr = -1 + tolq
            if abs(cab - thr) < tolq / 1000:
                continue
            k1, k2 = scales(rng), scales(rng)
            v1 = np.array([float(x) for x in a]) * k1
            v2 = np.array([float(x) for x in b]) * k2
            kw = {} if tolarg is None else {"tol": tolarg}
            seed = rng.below(2 ** 31)
            np.random.seed(seed)
            R = rmv(v1, v2, **kw)
            anti = cab <= thr
            tag = {"op": "rotation_matrix_from_vectors", "a": qtoks(a), "b": qtoks(b), "k1": k1, "k2": k2, "tol": tolarg,
                   "branch": "antiparallel" if anti else "general", "variant": variant}
            v2n = v2 / np.linalg.norm(v2)
            if not anti:
                nfl, rv = 1.0, np.zeros(3)
            elif variant == "repaired":
                e = np.zeros(3)
                e[int(np.argmin(np.abs(v2n)))] = 1.0
                nfl, rv = float(np.linalg.norm(e - v2n * np.dot(e, v2n))), np.zeros(3)
            else:
                np.random.seed(seed)
                rv = np.random.rand(3)
                rv /= np.linalg.norm(rv)
                nfl = float(np.linalg.norm(rv - v2n * np.dot(rv, v2n)))
            mvar = "repaired" if variant == "repaired" else "shipped"
            ltol = TOL if (not anti and 1 + float(cab) > 1e-3) else TOL_DEG
            B.add(f"rotvecfull {mvar} {qtoks(a)} {qtoks(b)} {frtok(tolq)} {fbits(nfl)} {ftoks(rv)}",
                  expect_array(ctx, "rotation_matrix_from_vectors (near antiparallel) differs from the model", tag, R, "m", ltol))
            rot_oracle(ctx, R, v1, v2, TOL_PAR if sgn == 1 else TOL_DEG, tag, "C11:rotvec")
            ctx.case(["rotvec-anti-q", qtoks(a), qtoks(b), tolarg], nontrivial=True)
            ctx.count("rotvec.rational-near-" + ("parallel" if sgn == 1 else "antiparallel") + "." + ("anti" if anti else "general"))


# ------------------------------------------------------------------------------------------
# C. rotation_matrix_from_axis
# ------------------------------------------------------------------------------------------
def axis_oracle(ctx, R, axis, angle, tag, tol=TOL):
    axis = np.asarray(axis, dtype=float)
    u = axis / np.linalg.norm(axis)
    ok = rot_oracle(ctx, R, None, None, tol, tag, "C11:rotaxis")
    if np.abs(R @ u - u).max() > tol or np.abs(u @ R - u).max() > tol:
        ctx.violation("C11:rotaxis-moves-axis", f"R u - u = {np.abs(R @ u - u).max():.3g}", tag)
        ok = False
    e = np.zeros(3)
    e[int(np.argmin(np.abs(u)))] = 1.0
    v = np.cross(u, e)
    Rv = R @ v
    cs = np.dot(Rv, v) / np.dot(v, v)
    sn = np.dot(u, np.cross(v, Rv)) / np.dot(v, v)
    if abs(cs - math.cos(angle)) > tol or abs(sn - math.sin(angle)) > tol:
        ctx.violation("C11:rotaxis-wrong-angle", f"turns by (sin, cos) = ({sn:.9g}, {cs:.9g}), requested angle {angle!r}", tag)
        ok = False
    return ok


def sec_rotaxis(ctx, B, n):
    from molli.math.rotation import rotation_matrix_from_axis as rma
    rng = ctx.rng
    for i in range(n):
        u = G.rational_unit(rng)
        s, c = G.half_angle(rng)
        k = scales(rng) if rng.chance(1, 2) else 1.0 + rng.choice([1, -1]) * rng.choice(NEAR_ONE)   # also axes of length ALMOST 1
        axis = np.array([float(x) for x in u]) * k
        angle = math.atan2(float(s), float(c))
        tag = {"op": "rotation_matrix_from_axis", "u": qtoks(u), "k": k, "s": frtok(s), "c": frtok(c)}
        R = rma(axis, angle)
        axis_oracle(ctx, R, axis, angle, tag, TOL_AXIS)
        B.add(f"rotaxis {qtoks(u)} {frtok(s)} {frtok(c)}", expect_array(ctx, "rotation_matrix_from_axis differs from the model", tag, R, "m", TOL_AXIS))
        ctx.case(["rotaxis", qtoks(u), frtok(s), frtok(c), k], nontrivial=(s != 0 or c != 1))
        ctx.count("rotaxis.rational")
        if s == 0:
            ctx.count("rotaxis.angle-0-or-pi")
        if i < 1:
            ctx.sample(tag)
    specials = [0.0, math.pi, -math.pi, math.pi / 2, 2 * math.pi, 1e-9, math.pi - 1e-9, 3.0, -2.5, 10.0]
    axes = [[1, 0, 0], [0, 1, 0], [0, 0, 1], [0, 0, -2], [1, 1, 0]]
    for j in range(n):
        axis = np.array(axes[j % len(axes)], dtype=float) if j < 2 * len(axes) else np.array([rng.uniform() * 4 - 2 for _ in range(3)])
        if np.linalg.norm(axis) < 1e-3:
            continue
        angle = specials[j % len(specials)] if j < 3 * len(specials) else (rng.uniform() * 8 - 4)
        tag = {"op": "rotation_matrix_from_axis", "axis": axis.tolist(), "angle": angle}
        R = rma(axis, angle)
        axis_oracle(ctx, R, axis, angle, tag, TOL_AXIS)
        B.add(f"specaxis {ftoks(R)} {ftoks(axis)} {fbits(np.linalg.norm(axis))} {fbits(math.sin(angle))} {fbits(math.cos(angle))} 1/1000000000000",
              expect_flags(ctx, "rotation_matrix_from_axis", tag, SPECAXIS_KINDS))
        ctx.case(["rotaxis-f", axis.tolist(), angle], nontrivial=True)
        ctx.count("rotaxis.float")
    # axes whose length is ALMOST 1 (a caller's "unit" vector): 1 ± 1e-3…1e-9, unit vectors rounded to 4–7 decimals,
    # float32-normalised vectors — the result must be a proper rotation about that axis to float64 accuracy
    pts = np.array([[1.0, 2.0, -0.5], [-3.0, 0.25, 4.0], [0.5, -1.5, 2.5], [6.0, 6.0, -6.0]])
    for j in range(n):
        base = np.array([rng.uniform() * 2 - 1 for _ in range(3)]) if j % 3 else np.array([float(x) for x in G.rational_unit(rng)])
        if np.linalg.norm(base) < 0.1:
            continue
        u = base / np.linalg.norm(base)
        form = j % 3
        if form == 0:
            eps = rng.choice(NEAR_ONE)
            axis = u * (1.0 + rng.choice([1, -1]) * eps)
            what = f"length 1±{eps:g}"
        elif form == 1:
            nd = rng.range(4, 7)
            axis = np.round(u, nd)
            what = f"rounded to {nd} decimals"
        else:
            u32 = u.astype(np.float32)
            axis = (u32 / np.linalg.norm(u32)).astype(np.float64)
            what = "float32-normalised"
        angle = [math.pi, -math.pi, math.pi / 2, 3.0, 1.0, -2.0, math.pi - 1e-6][j % 7] if rng.chance(2, 3) else rng.uniform() * 2 * math.pi - math.pi
        tag = {"op": "rotation_matrix_from_axis", "axis": axis.tolist(), "axis_form": what, "axis_length": float(np.linalg.norm(axis)), "angle": angle}
        R = rma(axis, angle)
        ok = axis_oracle(ctx, R, axis, angle, tag, TOL_AXIS)
        if ok and np.all(np.isfinite(R)):
            moved = pts @ R
            if np.abs(G.dist_matrix(moved) - G.dist_matrix(pts)).max() > 1e-11:
                ctx.violation("C11:rotaxis-not-orthogonal", f"`coords @ R` changes distances by {np.abs(G.dist_matrix(moved) - G.dist_matrix(pts)).max():.3g} Å (axis {what})", tag)
        B.add(f"specaxis {ftoks(R)} {ftoks(axis)} {fbits(np.linalg.norm(axis))} {fbits(math.sin(angle))} {fbits(math.cos(angle))} 1/1000000000000",
              expect_flags(ctx, "rotation_matrix_from_axis (axis of length almost 1)", tag, SPECAXIS_KINDS))
        ctx.case(["rotaxis-nearunit", axis.tolist(), angle], nontrivial=True)
        ctx.count("rotaxis.near-unit-axis." + ("scaled" if form == 0 else "rounded" if form == 1 else "float32"))


# ------------------------------------------------------------------------------------------
# D. molecules: translate / transform / substructure edits / dihedral / rotate_dihedral
# ------------------------------------------------------------------------------------------
def random_molecule(ctx, ml, nmin=5, nmax=12, name="m"):
    rng = ctx.rng
    n = rng.range(nmin, nmax)
    ring = rng.chance(1, 2)
    edges = G.random_topology(rng, n, ring)
    coords = G.random_coords(rng, n)
    els = [rng.choice(ELEMENTS) for _ in range(n)]
    return G.build_molecule(ml, els, edges, coords, name=name), edges, coords


def rational_rotation(rng):
    u = G.rational_unit(rng)
    s, c = G.half_angle(rng)
    Mq = G.rot_axis_q(u, s, c)
    return Mq, G.qmat_to_np(Mq)


def check_rigid(ctx, before, after, moved, rng, tag, kind_prefix):
    """model-free: rows outside `moved` bit-identical, moved part keeps distances and signed volumes"""
    n = len(before)
    others = [i for i in range(n) if i not in moved]
    ok = True
    if after.shape != before.shape:
        ctx.violation(f"{kind_prefix}-shape", "coordinate array changed shape", tag)
        return False
    if others and not np.array_equal(before[others], after[others]):
        ctx.violation(f"{kind_prefix}-moves-unselected-atoms", "atoms outside the selection moved", tag)
        ok = False
    mv = sorted(moved)
    if mv:
        quads = G.some_quads(len(mv), rng, 30)
        d_ok, v_ok = G.rigid_same(before[mv], after[mv], quads)
        if not d_ok:
            ctx.violation(f"{kind_prefix}-changes-distances", "interatomic distances inside the moved part changed", tag)
            ok = False
        if not v_ok:
            ctx.violation(f"{kind_prefix}-changes-handedness", "signed volumes inside the moved part changed", tag)
            ok = False
    return ok


def dihedral_variant(ml):
    """D23 witness: 4-atom chain, dihedral 0 → target 0.5"""
    m = G.build_molecule(ml, ["C"] * 4, [(0, 1), (1, 2), (2, 3)],
                         [[1, 0, 0], [0, 0, 0], [0, 0, 1.5], [1, 0.5, 1.5]], name="w")
    m.rotate_dihedral((0, 1, 2, 3), 0.5)
    d = m.dihedral(0, 1, 2, 3)
    return "repaired" if abs(((d - 0.5 + math.pi) % (2 * math.pi)) - math.pi) < 1e-7 else "shipped"


def rotdih_case(ctx, B, mol, edges, atoms, far, target, dvar, sample=False):
    """dihedral() and rotate_dihedral() on one bond of `mol` (mutates mol): oracle + model + exact spec predicates"""
    rng = ctx.rng
    n = mol.n_atoms
    a1, a2, a3, a4 = atoms
    cur = mol.coords.copy()
    u1, u2, u3 = cur[a2] - cur[a1], cur[a3] - cur[a2], cur[a4] - cur[a3]
    if np.linalg.norm(np.cross(u1, u2)) < 0.2 or np.linalg.norm(np.cross(u2, u3)) < 0.2:
        ctx.count("rotate_dihedral.skipped-near-collinear")
        return
    phi = mol.dihedral(a1, a2, a3, a4)
    l = float(np.linalg.norm(u2))
    tagd = {"op": "dihedral", "coords": cur.tolist(), "atoms": [a1, a2, a3, a4]}

    def cb_dih(line, out, phi=phi, tagd=tagd):
        p = out.split()
        if len(p) != 3 or p[0] != "pair":
            ctx.disagree("dihedral: malformed model answer", tagd, phi, out[:200])
            return
        A, Bv = G.to_float(Fraction(p[1])), G.to_float(Fraction(p[2]))
        if abs(((math.atan2(A, Bv) - phi + math.pi) % (2 * math.pi)) - math.pi) > 1e-9:
            ctx.disagree("dihedral() differs from the model", tagd, phi, math.atan2(A, Bv))
    B.add(f"dihedral {ftoks(cur[a1])} {ftoks(cur[a2])} {ftoks(cur[a3])} {ftoks(cur[a4])} {fbits(l)}", cb_dih)
    if target is None:
        target = rng.choice([0.0, math.pi, -math.pi / 2, 0.5, 1.0, -2.0, 3.0]) if rng.chance(1, 2) else rng.uniform() * 2 * math.pi - math.pi
    mol.rotate_dihedral((a1, a2, a3, a4), target)
    after = mol.coords.copy()
    got = mol.dihedral(a1, a2, a3, a4)
    tag = {"op": "rotate_dihedral", "coords": cur.tolist(), "edges": [list(e) for e in edges], "atoms": [a1, a2, a3, a4], "target": target,
           "dihedral_before": float(phi), "dihedral_after": float(got)}
    check_rigid(ctx, cur, after, far, rng, tag, "C11:rotate-dihedral")
    miss = abs(((got - target + math.pi) % (2 * math.pi)) - math.pi)
    if not (miss <= 1e-7):
        ctx.violation("C11:rotate-dihedral-misses-target",
                      f"rotate_dihedral(…, {target!r}) from {float(phi)!r} ends at {float(got)!r} (2·current − target = {float(2 * phi - target)!r})", tag)
    fsel = sorted(far)
    mvar = "repaired" if dvar == "repaired" else "shipped"
    B.add(f"rotdih {mvar} {n} {ftoks(cur)} {len(fsel)} {' '.join(map(str, fsel))} {ftoks(cur[a2])} {ftoks(u2 / l)} "
          f"{fbits(math.sin(phi))} {fbits(math.cos(phi))} {fbits(math.sin(target))} {fbits(math.cos(target))}",
          expect_array(ctx, f"rotate_dihedral differs from the model ({mvar} variant)", tag, after, "c"))
    B.add(f"rigidcheck {n} {ftoks(cur)} {ftoks(after)} {len(fsel)} {' '.join(map(str, fsel))} 1/100000000",
          expect_flags(ctx, "rotate_dihedral", tag, {"frame": "C11:rotate-dihedral-moves-unselected-atoms",
                                                    "dist": "C11:rotate-dihedral-changes-distances",
                                                    "chir": "C11:rotate-dihedral-changes-handedness"}))
    B.add(f"dihcheck {ftoks(after[a1])} {ftoks(after[a2])} {ftoks(after[a3])} {ftoks(after[a4])} "
          f"{fbits(np.linalg.norm(after[a3] - after[a2]))} {fbits(math.sin(target))} {fbits(math.cos(target))} 1/10000000",
          expect_flags(ctx, "rotate_dihedral", tag, {"target": "C11:rotate-dihedral-misses-target"}))
    ctx.case(["rotdih", cur.tolist(), [a1, a2, a3, a4], target], nontrivial=miss > 1e-7 or abs(phi - target) > 1e-6)
    ctx.count("mol.rotate_dihedral")
    if sample:
        ctx.sample({k_: tag[k_] for k_ in ("op", "atoms", "target", "dihedral_before", "dihedral_after")}, limit=6)


def sec_corpus(ctx, B):
    """minimised past failures and hand-picked edge cases, always run first"""
    import molli as ml
    from molli.math.rotation import rotation_matrix_from_vectors as rmv
    cdir = Path(__file__).resolve().parent.parent / "corpus" / "C11"
    dvar = dihedral_variant(ml)
    for f in sorted(cdir.glob("*.json")):
        for r in json.loads(f.read_text()):
            if r.get("op") == "rotate_dihedral":
                c = np.array(r["coords"], dtype=float)
                edges = [tuple(e) for e in r["edges"]]
                mol = G.build_molecule(ml, ["C"] * len(c), edges, c, name="corpus")
                a = r["atoms"]
                far = G.component_without_edge(len(c), edges, a[1], a[2])
                rotdih_case(ctx, B, mol, edges, tuple(a), far, r["target"], dvar)
                ctx.count("corpus.rotate_dihedral")
            elif r.get("op") == "align_vec_is_own_row":
                c = np.array(r["coords"], dtype=float)
                edges = [tuple(e) for e in r["edges"]]
                core = list(r["core"])
                for kind in ("molecule", "ensemble"):
                    mol = G.build_molecule(ml, ["C"] * len(c), edges, c, name="corpus")
                    obj = mol if kind == "molecule" else ml.ConformerEnsemble([mol, G.build_molecule(ml, ["C"] * len(c), edges, c[::-1] * 1.0, name="c2")])
                    refm = G.build_molecule(ml, ["C"] * len(c), edges, np.array(r["ref"], dtype=float), name="ref")
                    refm.translate(-refm.coords[core].mean(axis=0))
                    vec = obj.coords[r["k"]] if kind == "molecule" else obj.coords[0, r["k"]]
                    vec0 = np.array(vec).copy()
                    ret = obj.align_to_ref_coords(G.kabsch, [core], refm.substructure(core), vec)
                    fin = np.array(obj.coords) if kind == "molecule" else np.array(obj.coords)[0]
                    ret0 = float(ret) if kind == "molecule" else float(ret[0])
                    ach = G.rmsd(fin[core], refm.coords[core] + vec0)
                    if abs(ach - ret0) > 1e-8:
                        ctx.violation("C11:aliased-argument-wrong-effect",
                                      f"{kind} align with vec = a row of its own coordinates: returned {ret0!r}, achieved {ach!r} against reference + (vec before the call)", r)
                    ctx.case(["corpus-align-alias", kind, r["coords"], core, r["k"]], nontrivial=True)
                ctx.count("corpus.align-vec-alias")
            elif r.get("op") == "rotation_matrix_from_vectors":
                v1, v2 = np.array(r["v1"], dtype=float), np.array(r["v2"], dtype=float)
                kw = {} if r.get("tol") is None else {"tol": r["tol"]}
                R = rmv(v1, v2, **kw)
                ctol = float(r.get("check_tol", TOL_DEG))
                rot_oracle(ctx, R, v1, v2, ctol, r, "C11:rotvec")
                B.add(f"specrot {ftoks(R)} {ftoks(v1)} {ftoks(v2)} {frtok(Fraction(ctol).limit_denominator(10 ** 15))}",
                      expect_flags(ctx, "rotation_matrix_from_vectors (corpus)", r, SPECROT_KINDS))
                ctx.case(["corpus-rotvec", r["v1"], r["v2"]], nontrivial=True)
                ctx.count("corpus.rotvec")


def stale_handle_case(ctx, B, ml, mol0, edges, sample=False):
    """A Substructure is created first; then the PARENT is edited (atoms deleted below / above the selection, an atom
    added, the coordinate table re-assigned); only then is the old handle used to move its atoms.  Exactly the
    handle's atoms (by identity) must move, rigidly."""
    from molli.chem import Atom, Element
    rng = ctx.rng
    n = mol0.n_atoms
    if n < 4:
        return
    els = [a.element.name for a in mol0.atoms]
    coords0 = np.array(mol0.coords, dtype=float)
    mol = G.build_molecule(ml, els, edges, coords0, name="st")
    ids = {id(a): 100 + i for i, a in enumerate(mol.atoms)}
    k = rng.range(1, n - 2)
    sel = sorted(rng.shuffle(list(range(n)))[:k])
    order = rng.shuffle(list(sel))
    handle_atoms = [mol.atoms[i] for i in order]
    handle_ids = [ids[id(a)] for a in handle_atoms]
    sub = mol.substructure(order)
    _ = sub.coords  # the handle has been used once already (whatever it caches is cached now)
    unsel = [i for i in range(n) if i not in sel]
    # parent edits after the handle exists
    below = [i for i in unsel if i < max(sel)]
    above = [i for i in unsel if i > min(sel)]
    dels = []
    if below and rng.chance(3, 4):
        dels.append(rng.choice(below))
    if above and rng.chance(1, 2):
        c = rng.choice(above)
        if c not in dels:
            dels.append(c)
    if len(dels) == len(unsel) and len(dels) > 1:
        dels.pop()
    edits = []
    for i in dels:
        mol.del_atom([a for a in mol.atoms if ids[id(a)] == 100 + i][0])
        edits.append(["del", i])
    if rng.chance(1, 2):
        na = Atom(Element.H, label="added")
        pos = [rng.range(-40, 40) / 8 for _ in range(3)]
        mol.add_atom(na, pos)
        ids[id(na)] = 100 + n
        edits.append(["add", pos])
    if rng.chance(1, 2):
        w = np.array([rng.range(-16, 16) / 8 for _ in range(3)])
        mol.coords = np.array(mol.coords) + w
        edits.append(["reassign-coords", w.tolist()])
    if not edits:
        return
    cur_ids = [ids[id(a)] for a in mol.atoms]
    m = mol.n_atoms
    Mq, Mf = rational_rotation(rng)
    v = np.array([rng.range(-24, 24) / 8 for _ in range(3)])
    before = np.array(mol.coords, dtype=float).copy()
    tag = {"op": "edit through a substructure handle created before the parent was edited", "coords0": coords0.tolist(),
           "edges": [list(e) for e in edges], "handle": order, "parent_edits": edits, "R": Mf.tolist(), "v": v.tolist()}
    try:
        sub.transform(Mf)
        sub.translate(v)
    except Exception as e:  # noqa: BLE001
        ctx.violation("C11:substructure-edit-moves-unselected-atoms", f"editing through an older substructure handle raised {type(e).__name__}: {e}", tag)
        ctx.case(["stale-handle", coords0.tolist(), order, edits], nontrivial=True)
        return
    after = np.array(mol.coords, dtype=float).copy()
    hid = set(handle_ids)
    moved = {i for i, x in enumerate(cur_ids) if x in hid}
    check_rigid(ctx, before, after, moved, rng, tag, "C11:substructure-edit")
    exp = before.copy()
    rows = sorted(moved)
    exp[rows] = before[rows] @ Mf + v
    if after.shape != exp.shape or not G.close(after, exp, 1e-9):
        ctx.violation("C11:substructure-edit-moves-unselected-atoms",
                      "after parent edits the old handle did not move exactly its own atoms by p ↦ p@R + v", tag)
    B.add(f"viewedit {m} {' '.join(map(str, cur_ids))} {ftoks(before)} {len(handle_ids)} {' '.join(map(str, handle_ids))} "
          f"{qtoks([x for row in Mq for x in row])} {ftoks(v)}",
          expect_array(ctx, "edit through an older substructure handle differs from the model", tag, after, "c"))
    B.add(f"rigidcheck {m} {ftoks(before)} {ftoks(after)} {len(rows)} {' '.join(map(str, rows))} 1/100000000",
          expect_flags(ctx, "substructure edit (handle older than parent edits)", tag,
                       {"frame": "C11:substructure-edit-moves-unselected-atoms", "dist": "C11:substructure-edit-changes-distances",
                        "chir": "C11:substructure-edit-changes-handedness"}))
    ctx.case(["stale-handle", coords0.tolist(), order, edits, Mf.tolist(), v.tolist()], nontrivial=True)
    ctx.count("mol.substructure-edit.handle-older-than-parent-edits")
    for e in edits:
        ctx.count("mol.substructure-edit.parent-edit=" + e[0])
    if sample:
        ctx.sample({"op": tag["op"], "n_atoms": n, "handle": order, "parent_edits": edits})


def sec_molecules(ctx, B, nmol):
    import molli as ml
    rng = ctx.rng
    dvar = dihedral_variant(ml)
    ctx.count(f"rotate_dihedral.variant={dvar}")
    for mi in range(nmol):
        ctx.check_deadline()
        mol, edges, coords0 = random_molecule(ctx, ml, name=f"m{mi}")
        n = mol.n_atoms
        allidx = list(range(n))
        # ---- translate ----
        v = np.array([rng.range(-40, 40) / 8 for _ in range(3)])
        before = mol.coords.copy()
        mol.translate(v)
        after = mol.coords.copy()
        tag = {"op": "translate", "coords": before.tolist(), "v": v.tolist()}
        check_rigid(ctx, before, after, set(allidx), rng, tag, "C11:translate")
        B.add(f"translate {n} {ftoks(before)} {ftoks(v)}", expect_array(ctx, "translate differs from the model", tag, after, "c"))
        ctx.case(["translate", before.tolist(), v.tolist()], nontrivial=bool(np.any(v != 0)))
        ctx.count("mol.translate")
        # ---- transform with a rational rotation ----
        Mq, Mf = rational_rotation(rng)
        before = mol.coords.copy()
        mol.transform(Mf)
        after = mol.coords.copy()
        tag = {"op": "transform", "coords": before.tolist(), "R": Mf.tolist()}
        check_rigid(ctx, before, after, set(allidx), rng, tag, "C11:transform")
        B.add(f"transform {n} {ftoks(before)} {qtoks([x for row in Mq for x in row])}",
              expect_array(ctx, "transform differs from the model", tag, after, "c"))
        B.add(f"rigidcheck {n} {ftoks(before)} {ftoks(after)} {n} {' '.join(map(str, allidx))} 1/100000000",
              expect_flags(ctx, "transform", tag, {"frame": "C11:transform-moves-unselected-atoms", "dist": "C11:transform-changes-distances",
                                                   "chir": "C11:transform-changes-handedness"}))
        ctx.case(["transform", before.tolist(), Mf.tolist()], nontrivial=True)
        ctx.count("mol.transform")
        # ---- substructure edit: translate + transform on a subset ----
        k = rng.range(1, n - 1)
        sel = sorted(rng.shuffle(list(range(n)))[:k])
        order = rng.shuffle(list(sel))           # the substructure lists its atoms in any order
        Mq, Mf = rational_rotation(rng)
        v = np.array([rng.range(-24, 24) / 8 for _ in range(3)])
        before = mol.coords.copy()
        sub = mol.substructure(order)
        sub.transform(Mf)
        sub.translate(v)
        after = mol.coords.copy()
        tag = {"op": "substructure transform+translate", "coords": before.tolist(), "sel": order, "R": Mf.tolist(), "v": v.tolist()}
        check_rigid(ctx, before, after, set(sel), rng, tag, "C11:substructure-edit")
        B.add(f"subedit {n} {ftoks(before)} {k} {' '.join(map(str, order))} {qtoks([x for row in Mq for x in row])} {ftoks(v)}",
              expect_array(ctx, "substructure edit differs from the model", tag, after, "c"))
        B.add(f"rigidcheck {n} {ftoks(before)} {ftoks(after)} {k} {' '.join(map(str, sel))} 1/100000000",
              expect_flags(ctx, "substructure edit", tag, {"frame": "C11:substructure-edit-moves-unselected-atoms",
                                                          "dist": "C11:substructure-edit-changes-distances",
                                                          "chir": "C11:substructure-edit-changes-handedness"}))
        ctx.case(["subedit", before.tolist(), order, Mf.tolist(), v.tolist()], nontrivial=True)
        ctx.count("mol.substructure-edit")
        # ---- substructure handles made BEFORE the parent is edited (delete below/above the selection, add, re-assign coords) ----
        for _rep in range(2):
            stale_handle_case(ctx, B, ml, mol, edges, sample=(mi == 0 and _rep == 0))
        # ---- dihedral + rotate_dihedral on every rotatable acyclic bond ----
        adj = G.adjacency(n, edges)
        for (x, y) in edges:
            for (a2, a3) in ((x, y), (y, x)):
                far = G.component_without_edge(n, edges, a2, a3)
                if a2 in far:
                    continue  # ring bond
                n1 = [z for z in adj[a2] if z != a3]
                n4 = [z for z in adj[a3] if z != a2]
                if not n1 or not n4:
                    continue
                a1, a4 = rng.choice(n1), rng.choice(n4)
                rotdih_case(ctx, B, mol, edges, (a1, a2, a3, a4), far, None, dvar, sample=(mi == 0))


# ------------------------------------------------------------------------------------------
# E. ensembles and alignment
# ------------------------------------------------------------------------------------------
def align_checks(ctx, B, ml, els, edges, confs, idxs, refc, vec, sample=False, best=None):
    """ConformerEnsemble.align_to_ref_coords and Molecule.align_to_ref_coords on the conformers `confs` (molecules over the same
    atoms), candidate index lists `idxs` (any number of sites / symmetry mappings), reference coordinates `refc` (centred)."""
    rng = ctx.rng
    n, nc, kcore = len(els), len(confs), len(refc)
    quads = G.some_quads(n, rng, 25)
    ens = ml.ConformerEnsemble(confs)
    refmol = G.build_molecule(ml, ["C"] * kcore, [(i, i + 1) for i in range(kcore - 1)], refc, name="ref")
    refsub = refmol.substructure(list(range(kcore)))
    target_ref = refc + (0 if vec is None else vec)

    def rigid_all(before, after, tag, kind):
        for k in range(nc):
            d_ok, v_ok = G.rigid_same(before[k], after[k], quads)
            if not d_ok:
                ctx.violation(f"C11:{kind}-changes-distances", f"conformer {k}: interatomic distances changed", tag)
            if not v_ok:
                ctx.violation(f"C11:{kind}-changes-handedness", f"conformer {k}: signed volumes changed", tag)

    def run_align(obj):
        calls = []

        def func(P, Q):
            R, r = G.kabsch(np.array(P), np.array(Q))
            calls.append((np.array(P, dtype=float).copy(), R.copy(), r))
            return R, r
        ret = obj.align_to_ref_coords(func, idxs, refsub, vec)
        return ret, calls

    def claimed(cands):
        """the mapping the call claims: the first one whose reported value is the smallest (and below 100)"""
        best_i, best_r = None, 100.0
        for i, c in enumerate(cands):
            if c[2] < best_r:
                best_i, best_r = i, c[2]
        return best_i

    def achieved_ok(final_k, returned, cands, who, tag):
        ok = True
        ach_min = min(G.rmsd(final_k[ix], target_ref) for ix in idxs)
        if abs(ach_min - float(returned)) > 1e-8:
            ctx.violation("C11:align-reports-wrong-rmsd", f"{who}: returned {float(returned)!r}, smallest RMSD achieved over the mappings {ach_min!r}", tag)
            ok = False
        ci = claimed(cands) if len(cands) == len(idxs) else None
        if ci is not None:
            ach = G.rmsd(final_k[idxs[ci]], target_ref)
            if abs(ach - float(returned)) > 1e-8:
                ctx.violation("C11:align-reports-wrong-rmsd",
                              f"{who}: returned {float(returned)!r} (reported for mapping #{ci} of {len(idxs)}), but the final coordinates of that mapping "
                              f"are {ach!r} from the reference", tag)
                ok = False
            ctx.count(f"align.winning-mapping-position={ci}/{len(idxs)}")
        return ok

    start = ens.coords.copy()
    ret, calls = run_align(ens)
    final = ens.coords.copy()
    tag = {"op": "ens.align_to_ref_coords", "coords": start.tolist(), "idxs": idxs, "ref": refc.tolist(),
           "vec": None if vec is None else vec.tolist(), "returned": [float(x) for x in ret], "site_the_reference_was_taken_from": best}
    rigid_all(start, final, tag, "align")
    for kc in range(nc):
        cands = calls[kc * len(idxs):(kc + 1) * len(idxs)]
        achieved_ok(final[kc], ret[kc], cands, f"conformer {kc}", tag)
        if len(cands) != len(idxs):
            ctx.disagree("align: the callback was not called once per candidate mapping and conformer", tag, len(calls), nc * len(idxs))
            continue
        req = (f"align {n} {ftoks(start[kc])} {kcore} {ftoks(refc)} " + ("0 " if vec is None else f"1 {ftoks(vec)} ") + f"{len(idxs)} " +
               " ".join(f"{len(ix)} {' '.join(map(str, ix))} {ftoks(c[1])} {fbits(c[2])}" for ix, c in zip(idxs, cands)))

        def cb(line, out, kc=kc, tag=tag, final=final, ret=ret):
            p = out.split()
            if len(p) < 4 or p[0] != "ok":
                ctx.disagree("align: model gives no result", tag, "ok", out[:200])
                return
            r = G.to_float(Fraction(p[1][2:]))
            arr = G.model_array(" ".join(p[3:]), "c", final[kc].shape)
            if abs(r - float(ret[kc])) > 1e-12 or arr is None or not G.close(final[kc], arr, 1e-9):
                ctx.disagree("align_to_ref_coords differs from the model", tag, [float(ret[kc]), final[kc].tolist()], out[:1500])
        B.add(req, cb)
    # pose independence (sampled): another initial pose of the same ensemble ends in the same place
    _, Rp = rational_rotation(rng)
    ens2 = ml.ConformerEnsemble(confs)
    ens2.coords = start @ Rp + np.array([rng.range(-40, 40) / 8 for _ in range(3)])
    ret2, _ = run_align(ens2)
    unique = True
    for kc in range(nc):
        rs = sorted(c[2] for c in calls[kc * len(idxs):(kc + 1) * len(idxs)])
        if len(rs) > 1 and rs[1] - rs[0] < 1e-6:
            unique = False
        for ix in idxs:
            pts = start[kc][ix]
            if np.linalg.svd(pts - pts.mean(axis=0), compute_uv=False)[-1] <= 0.3:
                unique = False
    if unique:  # every core spans 3-D and the winner is clear: the result is determined
        if not G.close(ens2.coords, final, 1e-6) or not G.close(np.array(ret2, dtype=float), np.array(ret, dtype=float), 1e-6):
            ctx.violation("C11:align-depends-on-initial-pose", "aligning a rigidly moved copy ends elsewhere", tag)
        ctx.count("align.pose-independence-checked")
    ctx.case(["ens-align", start.tolist(), idxs, refc.tolist(), None if vec is None else vec.tolist()], nontrivial=True)
    ctx.count("ens.align")
    ctx.count(f"align.n_mappings={len(idxs)}")
    # single molecule
    mol = G.build_molecule(ml, els, edges, start[0], name="am")
    startm = mol.coords.copy()
    retm, callsm = run_align(mol)
    finalm = mol.coords.copy()
    tagm = dict(tag, op="Molecule.align_to_ref_coords", coords=startm.tolist(), returned=float(retm))
    d_ok, v_ok = G.rigid_same(startm, finalm, quads)
    if not d_ok:
        ctx.violation("C11:align-changes-distances", "Molecule.align_to_ref_coords changed interatomic distances", tagm)
    if not v_ok:
        ctx.violation("C11:align-changes-handedness", "Molecule.align_to_ref_coords changed signed volumes", tagm)
    achieved_ok(finalm, retm, callsm, "molecule", tagm)
    if len(callsm) == len(idxs):
        reqm = (f"align {n} {ftoks(startm)} {kcore} {ftoks(refc)} " + ("0 " if vec is None else f"1 {ftoks(vec)} ") + f"{len(idxs)} " +
                " ".join(f"{len(ix)} {' '.join(map(str, ix))} {ftoks(c[1])} {fbits(c[2])}" for ix, c in zip(idxs, callsm)))

        def cbm(line, out, tagm=tagm, finalm=finalm, retm=retm):
            p = out.split()
            if len(p) < 4 or p[0] != "ok":
                ctx.disagree("Molecule.align: model gives no result", tagm, "ok", out[:200])
                return
            r = G.to_float(Fraction(p[1][2:]))
            arr = G.model_array(" ".join(p[3:]), "c", finalm.shape)
            if abs(r - float(retm)) > 1e-12 or arr is None or not G.close(finalm, arr, 1e-9):
                ctx.disagree("Molecule.align_to_ref_coords differs from the model", tagm, [float(retm), finalm.tolist()], out[:1500])
        B.add(reqm, cbm)
    if not G.close(finalm, final[0], 1e-9):
        ctx.disagree("Molecule.align_to_ref_coords and ConformerEnsemble.align_to_ref_coords differ on the same input", tagm, finalm.tolist(), final[0].tolist())
    ctx.case(["mol-align", startm.tolist(), idxs], nontrivial=True)
    ctx.count("mol.align")
    if sample:
        ctx.sample({"op": "align", "n_atoms": n, "n_conformers": nc, "idxs": idxs, "returned": [float(x) for x in ret]})


def multisite_align_cases(ctx, B, ml, sample=False):
    """One molecule holding 2–3 copies of a core fragment at different places and in different poses (plus other atoms);
    the candidate mappings are the SITES (plus, sometimes, a symmetry permutation of one); the reference is taken from one
    site, and that site is put at every position of the candidate list."""
    rng = ctx.rng
    kc = rng.range(4, 5)
    for _ in range(50):
        core = G.random_coords(rng, kc, span=2)
        if np.linalg.svd(core - core.mean(axis=0), compute_uv=False)[-1] > 0.5:
            break
    nsite = rng.range(2, 3)
    nlink = rng.range(1, 4)
    best = rng.below(nsite)
    pts = []
    for sidx in range(nsite):
        _, Rs = rational_rotation(rng)
        shift = np.array([sidx * 7.0, rng.range(-16, 16) / 8, rng.range(-16, 16) / 8])
        noise = np.zeros((kc, 3)) if sidx == best else np.array([[rng.range(-16, 16) / 64 for _ in range(3)] for _ in range(kc)])
        pts.append(core @ Rs + shift + noise)
    link = G.random_coords(rng, nlink, span=3) + np.array([3.5, 6.0, 0.0])
    allpts = np.vstack(pts + [link])
    n = len(allpts)
    perm = rng.shuffle(list(range(n)))                     # new position -> old index
    inv = {old: new for new, old in enumerate(perm)}
    coords = allpts[perm]
    sites = [[inv[sidx * kc + j] for j in range(kc)] for sidx in range(nsite)]
    els = [rng.choice(ELEMENTS) for _ in range(n)]
    edges = [(i, i + 1) for i in range(n - 1)]
    nc = rng.range(1, 3)
    confs = []
    for c in range(nc):
        if c == 0:
            cc = coords
        else:
            _, Rc = rational_rotation(rng)
            cc = coords @ Rc + np.array([rng.range(-24, 24) / 8 for _ in range(3)])
        confs.append(G.build_molecule(ml, els, edges, cc, name="ms"))
    _, Rf = rational_rotation(rng)
    refc = coords[sites[best]] @ Rf + np.array([[rng.range(-2, 2) / 128 for _ in range(3)] for _ in range(kc)])
    refc = refc - refc.mean(axis=0)
    others = [s for i, s in enumerate(sites) if i != best]
    for pos in range(nsite):
        idxs = [list(x) for x in others]
        idxs.insert(pos, list(sites[best]))
        if rng.chance(1, 3):
            extra = rng.shuffle(list(sites[best]))
            idxs.insert(rng.below(len(idxs) + 1), extra)   # a symmetry mapping of the same site as well
        vec = None if rng.chance(1, 2) else np.array([rng.range(-16, 16) / 8 for _ in range(3)])
        ctx.count(f"align.multisite.sites={nsite}.reference-site-at-position={pos}")
        align_checks(ctx, B, ml, els, edges, confs, idxs, refc, vec, sample=(sample and pos == 0), best=pos)


def sec_ensembles(ctx, B, nens):
    import molli as ml
    rng = ctx.rng
    for ei in range(nens):
        ctx.check_deadline()
        n = rng.range(5, 10)
        nc = rng.range(1, 4)
        if ei % 3 == 0:
            # as many conformers as atoms (and one more / one fewer): a per-conformer (n_conf, 3) array then has the shape of a
            # per-atom one — every per-conformer operation must still treat it conformer by conformer
            n = rng.range(4, 6)
            nc = n + [0, 1, -1][(ei // 3) % 3]
            ctx.count(f"ens.n_conformers-minus-n_atoms={nc - n}")
        edges = G.random_topology(rng, n, rng.chance(1, 2))
        els = [rng.choice(ELEMENTS) for _ in range(n)]
        confs = [G.build_molecule(ml, els, edges, G.random_coords(rng, n), name=f"e{ei}") for _ in range(nc)]
        ens = ml.ConformerEnsemble(confs)
        quads = G.some_quads(n, rng, 25)

        def rigid_all(before, after, tag, kind):
            for k in range(nc):
                d_ok, v_ok = G.rigid_same(before[k], after[k], quads)
                if not d_ok:
                    ctx.violation(f"C11:{kind}-changes-distances", f"conformer {k}: interatomic distances changed", tag)
                if not v_ok:
                    ctx.violation(f"C11:{kind}-changes-handedness", f"conformer {k}: signed volumes changed", tag)

        # translate, 1-d
        v = np.array([rng.range(-40, 40) / 8 for _ in range(3)])
        before = ens.coords.copy()
        ens.translate(v)
        after = ens.coords.copy()
        tag = {"op": "ens.translate(1-d)", "coords": before.tolist(), "v": v.tolist()}
        rigid_all(before, after, tag, "ens-translate")
        B.add(f"enstranslate2 {nc} {n} {ftoks(before)} {ftoks(np.tile(v, (nc, 1)))}", expect_array(ctx, "ensemble translate (1-d) differs from the model", tag, after, "e"))
        # translate, 2-d
        vs = np.array([[rng.range(-40, 40) / 8 for _ in range(3)] for _ in range(nc)])
        before = ens.coords.copy()
        ens.translate(vs)
        after = ens.coords.copy()
        tag = {"op": "ens.translate(2-d)", "coords": before.tolist(), "vs": vs.tolist()}
        rigid_all(before, after, tag, "ens-translate")
        B.add(f"enstranslate2 {nc} {n} {ftoks(before)} {ftoks(vs)}", expect_array(ctx, "ensemble translate (2-d) differs from the model", tag, after, "e"))
        # rotate, one matrix and a stack
        for stack in (False, True):
            rots = [rational_rotation(rng) for _ in range(nc if stack else 1)]
            before = ens.coords.copy()
            ens.rotate(np.array([r[1] for r in rots]) if stack else rots[0][1])
            after = ens.coords.copy()
            tag = {"op": "ens.rotate(stack)" if stack else "ens.rotate", "coords": before.tolist(), "R": [r[1].tolist() for r in rots]}
            rigid_all(before, after, tag, "ens-rotate")
            mats = rots if stack else rots * nc
            B.add(f"ensrotaten {nc} {n} {ftoks(before)} " + " ".join(qtoks([x for row in m[0] for x in row]) for m in mats),
                  expect_array(ctx, "ensemble rotate differs from the model", tag, after, "e"))
        # center_at_core
        k = rng.range(1, n)
        core = rng.shuffle(list(range(n)))[:k]
        before = ens.coords.copy()
        ens.center_at_core(core)
        after = ens.coords.copy()
        tag = {"op": "ens.center_at_core", "coords": before.tolist(), "core": core}
        rigid_all(before, after, tag, "center")
        cen = after[:, core].mean(axis=1)
        if np.abs(cen).max() > 1e-9:
            ctx.violation("C11:center-at-core-off-origin", f"centroid of the core after centring: {cen.tolist()}", tag)
        B.add(f"enscenter {nc} {n} {ftoks(before)} {k} {' '.join(map(str, core))}", expect_array(ctx, "center_at_core differs from the model", tag, after, "e"))
        # center_at_atom
        ai = rng.below(n)
        before = ens.coords.copy()
        ens.center_at_atom(ens.atoms[ai])
        after = ens.coords.copy()
        tag = {"op": "ens.center_at_atom", "coords": before.tolist(), "atom": ai}
        rigid_all(before, after, tag, "center")
        if np.abs(after[:, ai]).max() > 1e-9:
            ctx.violation("C11:center-at-atom-off-origin", "the chosen atom is not at the origin", tag)
        B.add(f"enstranslate2 {nc} {n} {ftoks(before)} {ftoks(-before[:, ai])}", expect_array(ctx, "center_at_atom differs from the model", tag, after, "e"))
        ctx.case(["ens-basic", before.tolist(), core, ai], nontrivial=True)
        ctx.count("ens.translate/rotate/center")

        # ---- alignment: ensemble and single molecule ----
        kcore = rng.range(4, min(n, 6))
        core = rng.shuffle(list(range(n)))[:kcore]
        idxs = [core]
        if rng.chance(1, 2):
            idxs.append(rng.shuffle(list(core)))      # a symmetry-equivalent mapping of the same atoms
        # reference: conformer 0's core in another pose, slightly perturbed, centred at the origin
        _, Rf = rational_rotation(rng)
        refc = ens.coords[0][core] @ Rf + np.array([[rng.range(-8, 8) / 64 for _ in range(3)] for _ in range(kcore)])
        refc = refc - refc.mean(axis=0)
        vec = None if rng.chance(1, 2) else np.array([rng.range(-16, 16) / 8 for _ in range(3)])
        align_checks(ctx, B, ml, els, edges, confs, idxs, refc, vec, sample=(ei == 0))
        # ---- alignment on molecules that contain SEVERAL DISTINCT occurrences of the core ----
        multisite_align_cases(ctx, B, ml, sample=(ei == 0))


# ------------------------------------------------------------------------------------------
# F. argument aliasing: vectors / matrices / reference coordinates that are views of live coordinate arrays
# ------------------------------------------------------------------------------------------
INT_ROTS = [[[0, -1, 0], [1, 0, 0], [0, 0, 1]], [[1, 0, 0], [0, 0, -1], [0, 1, 0]], [[0, 0, 1], [1, 0, 0], [0, 1, 0]],
            [[-1, 0, 0], [0, -1, 0], [0, 0, 1]], [[0, 1, 0], [1, 0, 0], [0, 0, -1]]]


def sec_aliasing(ctx, B, n):
    """Every operation that takes a vector, a matrix or reference coordinates is called with arguments that are
    views of the object's OWN coordinate array (a row, a column of an ensemble), views of ANOTHER object's array, read-only
    arrays and integer arrays.  (a) the effect must be the documented one for the value the argument had BEFORE the call;
    (b) whatever is not part of the moved object must be bit-identical afterwards."""
    import molli as ml
    from molli.math.rotation import rotation_matrix_from_axis as rma, rotation_matrix_from_vectors as rmv
    rng = ctx.rng

    def effect(what, got, exp, tag, tol=1e-12):
        if not G.close(np.asarray(got, dtype=float), np.asarray(exp, dtype=float), tol):
            ctx.violation("C11:aliased-argument-wrong-effect",
                          f"{what}: the result is not the documented effect for the value the argument had before the call", tag)
            return False
        return True

    def untouched(what, arr, before_bytes, tag):
        if np.asarray(arr).tobytes() != before_bytes:
            ctx.violation("C11:argument-modified", f"{what}: an array that is not part of the moved object was overwritten by the call", tag)
            return False
        return True

    def attempt(what, fn, tag):
        try:
            return True, fn()
        except Exception as e:  # noqa: BLE001
            ctx.violation("C11:argument-form-rejected", f"{what} raised {type(e).__name__}: {e}", tag)
            return False, None

    for it in range(n):
        ctx.check_deadline()
        mol, edges, _ = random_molecule(ctx, ml, 5, 9, name=f"al{it}")
        other, _, _ = random_molecule(ctx, ml, 5, 9, name=f"ao{it}")
        nat = mol.n_atoms
        quads = G.some_quads(nat, rng, 20)

        def vec_arg(form, own_arr, own_row):
            """a 3-vector argument of the given form; returns (argument, value before, array that must stay bit-identical or None)"""
            if form == "own-row":
                a = own_arr[own_row]
                return a, np.array(a, dtype=float).copy(), None
            if form == "other-row":
                a = other.coords[rng.below(other.n_atoms)]
                return a, np.array(a, dtype=float).copy(), other.coords
            if form == "read-only":
                a = np.array([rng.range(-24, 24) / 8 for _ in range(3)])
                if not np.any(a):
                    a[0] = 1.0
                a.setflags(write=False)
                return a, np.array(a).copy(), a
            a = np.array([rng.range(-3, 3) for _ in range(3)], dtype=np.int64)
            if not np.any(a):
                a[2] = 2
            return a, np.array(a, dtype=float), a

        forms = ["own-row", "other-row", "read-only", "int"]
        # ---- rotation_matrix_from_axis(axis, angle) followed by transform(R) ----
        for form in forms:
            k = rng.below(nat)
            while np.linalg.norm(mol.coords[k]) < 0.3:
                k = (k + 1) % nat
            ax, ax0, keepsame = vec_arg(form, mol.coords, k)
            if np.linalg.norm(ax0) < 0.3:
                continue
            angle = rng.choice([math.pi, 1.0, -2.0, 0.5, math.pi / 2])
            before = np.array(mol.coords).copy()
            ob = other.coords.tobytes()
            kb = None if keepsame is None else np.asarray(keepsame).tobytes()
            tag = {"op": "rotation_matrix_from_axis + transform", "argument_form": form, "coords": before.tolist(), "axis": ax0.tolist(), "angle": angle,
                   "axis_is_row": k if form == "own-row" else None}
            R_exp = rma(ax0.copy(), angle)
            ok, R = attempt("rotation_matrix_from_axis", lambda: rma(ax, angle), tag)
            if ok:
                effect("rotation_matrix_from_axis", R, R_exp, tag)
                untouched("rotation_matrix_from_axis: the structure's coordinates", mol.coords, before.tobytes(), tag)
                if kb is not None:
                    untouched("rotation_matrix_from_axis: the axis argument", keepsame, kb, tag)
                mol.transform(R)
                after = np.array(mol.coords).copy()
                effect("transform(rotation_matrix_from_axis(row of the structure's own coordinates, angle))" if form == "own-row" else "transform", after, before @ R_exp, tag)
                d_ok, v_ok = G.rigid_same(before, after, quads)
                if not d_ok:
                    ctx.violation("C11:transform-changes-distances", f"axis given as {form}: interatomic distances changed", tag)
                if not v_ok:
                    ctx.violation("C11:transform-changes-handedness", f"axis given as {form}: signed volumes changed", tag)
                untouched("transform: another structure's coordinates", other.coords, ob, tag)
                B.add(f"transform {nat} {ftoks(before)} {ftoks(R_exp)}", expect_array(ctx, "transform (axis argument aliasing) differs from the model", tag, after, "c"))
            ctx.case(["alias-rotaxis", form, before.tolist(), ax0.tolist(), angle], nontrivial=True)
            ctx.count(f"alias.rotaxis+transform.{form}")
        # ---- rotation_matrix_from_vectors(v1, v2) ----
        for form in forms:
            v1, v10, keep1 = vec_arg(form, mol.coords, rng.below(nat))
            v2, v20, keep2 = vec_arg(forms[(forms.index(form) + 1) % 4], mol.coords, rng.below(nat))
            if np.linalg.norm(v10) < 0.3 or np.linalg.norm(v20) < 0.3 or np.linalg.norm(np.cross(v10, v20)) < 0.1:
                continue
            before = np.array(mol.coords).copy()
            ob = other.coords.tobytes()
            tag = {"op": "rotation_matrix_from_vectors", "argument_form": form, "v1": v10.tolist(), "v2": v20.tolist()}
            ok, R = attempt("rotation_matrix_from_vectors", lambda: rmv(v1, v2), tag)
            if ok:
                effect("rotation_matrix_from_vectors", R, rmv(v10.copy(), v20.copy()), tag)
                rot_oracle(ctx, R, v10, v20, TOL, tag, "C11:rotvec")
                untouched("rotation_matrix_from_vectors: the structure's coordinates", mol.coords, before.tobytes(), tag)
                untouched("rotation_matrix_from_vectors: another structure's coordinates", other.coords, ob, tag)
                for kp in (keep1, keep2):
                    if kp is not None and kp is not other.coords:
                        untouched("rotation_matrix_from_vectors: argument", kp, np.asarray(kp).tobytes(), tag)
            ctx.case(["alias-rotvec", form, v10.tolist(), v20.tolist()], nontrivial=True)
            ctx.count(f"alias.rotvec.{form}")
        # ---- translate(v) on the molecule and through a substructure ----
        for form in forms:
            k = rng.below(nat)
            v, v0, keepsame = vec_arg(form, mol.coords, k)
            before = np.array(mol.coords).copy()
            ob = other.coords.tobytes()
            tag = {"op": "translate", "argument_form": form, "coords": before.tolist(), "v": v0.tolist(), "v_is_row": k if form == "own-row" else None}
            ok, _ = attempt("translate", lambda: mol.translate(v), tag)
            if ok:
                after = np.array(mol.coords).copy()
                effect("translate(row of the structure's own coordinates)" if form == "own-row" else "translate", after, before + v0, tag)
                untouched("translate: another structure's coordinates", other.coords, ob, tag)
                B.add(f"translate {nat} {ftoks(before)} {ftoks(v0)}", expect_array(ctx, "translate (argument aliasing) differs from the model", tag, after, "c"))
            ctx.case(["alias-translate", form, before.tolist(), v0.tolist()], nontrivial=True)
            ctx.count(f"alias.translate.{form}")
            # substructure edit with a vector that is a row of the parent (inside or outside the selection)
            sel = sorted(rng.shuffle(list(range(nat)))[:rng.range(1, nat - 1)])
            sub = mol.substructure(rng.shuffle(list(sel)))
            k = rng.below(nat)
            v, v0, keepsame = vec_arg(form, mol.coords, k)
            before = np.array(mol.coords).copy()
            tag = {"op": "substructure.translate", "argument_form": form, "coords": before.tolist(), "sel": sel, "v": v0.tolist(),
                   "v_is_row": k if form == "own-row" else None}
            ok, _ = attempt("substructure.translate", lambda: sub.translate(v), tag)
            if ok:
                after = np.array(mol.coords).copy()
                exp = before.copy()
                exp[sel] = before[sel] + v0
                effect("substructure.translate", after, exp, tag)
                untouched("substructure.translate: another structure's coordinates", other.coords, ob, tag)
            ctx.case(["alias-subtranslate", form, before.tolist(), sel, v0.tolist()], nontrivial=True)
            ctx.count(f"alias.substructure-translate.{form}")
        # ---- transform(M) with matrices held in other arrays / read-only / integer ----
        for form in ("other-array-view", "read-only", "int"):
            if form == "int":
                M = np.array(rng.choice(INT_ROTS), dtype=np.int64)
                keepsame = M
            else:
                _, Mf = rational_rotation(rng)
                if form == "read-only":
                    M = Mf.copy()
                    M.setflags(write=False)
                    keepsame = M
                else:
                    store = np.zeros((5, 3))
                    store[1:4] = Mf
                    M = store[1:4]
                    keepsame = store
            M0 = np.array(M, dtype=float).copy()
            kb = np.asarray(keepsame).tobytes()
            before = np.array(mol.coords).copy()
            tag = {"op": "transform", "argument_form": form, "coords": before.tolist(), "R": M0.tolist()}
            ok, _ = attempt("transform", lambda: mol.transform(M), tag)
            if ok:
                after = np.array(mol.coords).copy()
                effect("transform", after, before @ M0, tag)
                untouched("transform: the matrix argument", keepsame, kb, tag)
                d_ok, v_ok = G.rigid_same(before, after, quads)
                if not (d_ok and v_ok):
                    ctx.violation("C11:transform-changes-distances", f"matrix given as {form}: not a rigid motion", tag)
                B.add(f"transform {nat} {ftoks(before)} {ftoks(M0)}", expect_array(ctx, "transform (matrix argument form) differs from the model", tag, after, "c"))
            ctx.case(["alias-transform", form, before.tolist(), M0.tolist()], nontrivial=True)
            ctx.count(f"alias.transform.{form}")
        # ---- ensembles: translate / rotate / align with aliased arguments ----
        nc = rng.range(2, 3)
        els = [a.element.name for a in mol.atoms]
        confs = [G.build_molecule(ml, els, edges, G.random_coords(rng, nat), name="ae") for _ in range(nc)]
        ens = ml.ConformerEnsemble(confs)
        ens_o = ml.ConformerEnsemble([G.build_molecule(ml, els, edges, G.random_coords(rng, nat), name="ao") for _ in range(nc)])
        for form in ("own-row", "own-column", "other-column", "read-only", "int"):
            c, k = rng.below(nc), rng.below(nat)
            keepsame = None
            if form == "own-row":
                v = ens.coords[c, k]
            elif form == "own-column":
                v = ens.coords[:, k]
            elif form == "other-column":
                v = ens_o.coords[:, k]
                keepsame = ens_o.coords
            elif form == "read-only":
                v = np.array([[rng.range(-24, 24) / 8 for _ in range(3)] for _ in range(nc)])
                v.setflags(write=False)
                keepsame = v
            else:
                v = np.array([[rng.range(-3, 3) for _ in range(3)] for _ in range(nc)], dtype=np.int64)
                keepsame = v
            v0 = np.array(v, dtype=float).copy()
            kb = None if keepsame is None else np.asarray(keepsame).tobytes()
            before = np.array(ens.coords).copy()
            tag = {"op": "ens.translate", "argument_form": form, "coords": before.tolist(), "v": v0.tolist()}
            ok, _ = attempt("ens.translate", lambda: ens.translate(v), tag)
            if ok:
                after = np.array(ens.coords).copy()
                exp = before + (v0 if v0.ndim == 1 else v0[:, None, :])
                effect(f"ens.translate({form} of the ensemble's coordinates)" if form.startswith("own") else "ens.translate", after, exp, tag)
                if kb is not None:
                    untouched("ens.translate: argument / another ensemble's coordinates", keepsame, kb, tag)
                for cc in range(nc):
                    d_ok, v_ok = G.rigid_same(before[cc], after[cc], quads)
                    if not (d_ok and v_ok):
                        ctx.violation("C11:ens-translate-changes-distances", f"vector given as {form}: conformer {cc} not moved rigidly", tag)
                B.add(f"enstranslate2 {nc} {nat} {ftoks(before)} {ftoks(v0 if v0.ndim == 2 else np.tile(v0, (nc, 1)))}",
                      expect_array(ctx, "ensemble translate (argument aliasing) differs from the model", tag, after, "e"))
            ctx.case(["alias-enstranslate", form, before.tolist(), v0.tolist()], nontrivial=True)
            ctx.count(f"alias.ens-translate.{form}")
        # axis taken from the ensemble's own coordinates, then rotate
        c, k = rng.below(nc), rng.below(nat)
        if np.linalg.norm(ens.coords[c, k]) > 0.3:
            axv = ens.coords[c, k]
            ax0 = np.array(axv).copy()
            angle = rng.choice([math.pi, 1.0, -2.0])
            before = np.array(ens.coords).copy()
            tag = {"op": "rotation_matrix_from_axis(ens.coords[c, k]) + ens.rotate", "coords": before.tolist(), "conformer": c, "atom": k, "angle": angle}
            R_exp = rma(ax0.copy(), angle)
            ok, R = attempt("rotation_matrix_from_axis", lambda: rma(axv, angle), tag)
            if ok:
                untouched("rotation_matrix_from_axis: the ensemble's coordinates", ens.coords, before.tobytes(), tag)
                ens.rotate(R)
                after = np.array(ens.coords).copy()
                effect("ens.rotate(rotation_matrix_from_axis(ens.coords[c, k], angle))", after, before @ R_exp, tag)
                for cc in range(nc):
                    d_ok, v_ok = G.rigid_same(before[cc], after[cc], quads)
                    if not (d_ok and v_ok):
                        ctx.violation("C11:ens-rotate-changes-distances", f"axis = ens.coords[{c}, {k}]: conformer {cc} not moved rigidly", tag)
            ctx.case(["alias-ensrotate", before.tolist(), c, k, angle], nontrivial=True)
            ctx.count("alias.ens-rotate.own-row-axis")
        for form in ("other-array-view", "read-only", "int"):
            if form == "int":
                Rs = np.array([rng.choice(INT_ROTS) for _ in range(nc)], dtype=np.int64)
                keepsame = Rs
            else:
                mats = np.array([rational_rotation(rng)[1] for _ in range(nc)])
                if form == "read-only":
                    Rs = mats.copy()
                    Rs.setflags(write=False)
                    keepsame = Rs
                else:
                    store = np.zeros((nc + 2, 3, 3))
                    store[1:nc + 1] = mats
                    Rs = store[1:nc + 1]
                    keepsame = store
            R0 = np.array(Rs, dtype=float).copy()
            kb = np.asarray(keepsame).tobytes()
            before = np.array(ens.coords).copy()
            tag = {"op": "ens.rotate(stack)", "argument_form": form, "coords": before.tolist(), "R": R0.tolist()}
            ok, _ = attempt("ens.rotate", lambda: ens.rotate(Rs), tag)
            if ok:
                after = np.array(ens.coords).copy()
                effect("ens.rotate", after, before @ R0, tag)
                untouched("ens.rotate: the matrix argument", keepsame, kb, tag)
            ctx.case(["alias-ensrotate-stack", form, before.tolist(), R0.tolist()], nontrivial=True)
            ctx.count(f"alias.ens-rotate.{form}")
        # center_at_core / align: index lists, the reference's parent, vec must be left as they were
        core = rng.shuffle(list(range(nat)))[:rng.range(4, min(nat, 5))]
        core_before = list(core)
        before = np.array(ens.coords).copy()
        ens.center_at_core(core)
        if core != core_before:
            ctx.violation("C11:argument-modified", "center_at_core changed the index list it was given", {"op": "center_at_core", "core": core_before})
        refm = G.build_molecule(ml, ["C"] * nat, edges, G.random_coords(rng, nat), name="refhost")
        refm.translate(-refm.coords[core].mean(axis=0))
        refsub = refm.substructure(core)
        refb = refm.coords.tobytes()
        for form in ("own-row", "other-row", "read-only", "int", "none"):
            idxs = [list(core)]
            if form == "none":
                vec, vec0, keepsame = None, None, None
            else:
                vec, vec0, keepsame = vec_arg(form, mol.coords, rng.below(nat))
            kb = None if keepsame is None else np.asarray(keepsame).tobytes()
            ob = other.coords.tobytes()
            start = np.array(mol.coords).copy()
            tag = {"op": "Molecule.align_to_ref_coords", "argument_form_of_vec": form, "coords": start.tolist(), "core": core_before,
                   "vec": None if vec0 is None else vec0.tolist()}
            ok, ret = attempt("align_to_ref_coords", lambda: mol.align_to_ref_coords(G.kabsch, idxs, refsub, vec), tag)
            if ok:
                final = np.array(mol.coords).copy()
                target = np.frombuffer(refb, dtype=float).reshape(-1, 3)[core] + (0 if vec0 is None else vec0)
                if abs(G.rmsd(final[core], target) - float(ret)) > 1e-8:
                    ctx.violation("C11:aliased-argument-wrong-effect" if form == "own-row" else "C11:align-reports-wrong-rmsd",
                                  f"align with vec given as {form}: returned {float(ret)!r}, achieved {G.rmsd(final[core], target)!r} "
                                  "against reference + (vec as it was before the call)", tag)
                d_ok, v_ok = G.rigid_same(start, final, quads)
                if not (d_ok and v_ok):
                    ctx.violation("C11:align-changes-distances", f"align with vec given as {form}: not a rigid motion", tag)
                untouched("align_to_ref_coords: the reference's parent structure", refm.coords, refb, tag)
                untouched("align_to_ref_coords: another structure's coordinates", other.coords, ob, tag)
                if kb is not None and form != "other-row":
                    untouched("align_to_ref_coords: vec", keepsame, kb, tag)
                if idxs != [core_before]:
                    ctx.violation("C11:argument-modified", "align_to_ref_coords changed the index lists it was given", tag)
            ctx.case(["alias-align", form, start.tolist(), core_before], nontrivial=True)
            ctx.count(f"alias.align.vec={form}")
        # the same for the ensemble: vec = one of its own rows (1-d) / one of its own columns (one vector per conformer)
        for form in ("own-row", "own-column", "read-only"):
            c, k = rng.below(nc), rng.below(nat)
            if form == "own-row":
                vec = ens.coords[c, k]
            elif form == "own-column":
                vec = ens.coords[:, k]
            else:
                vec = np.array([rng.range(-16, 16) / 8 for _ in range(3)])
                vec.setflags(write=False)
            vec0 = np.array(vec, dtype=float).copy()
            idxs = [list(core)]
            start = np.array(ens.coords).copy()
            tag = {"op": "ens.align_to_ref_coords", "argument_form_of_vec": form, "coords": start.tolist(), "core": core_before, "vec": vec0.tolist()}
            ok, ret = attempt("ens.align_to_ref_coords", lambda: ens.align_to_ref_coords(G.kabsch, idxs, refsub, vec), tag)
            if ok:
                final = np.array(ens.coords).copy()
                refc = np.frombuffer(refb, dtype=float).reshape(-1, 3)[core]
                for cc in range(nc):
                    target = refc + (vec0 if vec0.ndim == 1 else vec0[cc])
                    if abs(G.rmsd(final[cc][core], target) - float(ret[cc])) > 1e-8:
                        ctx.violation("C11:aliased-argument-wrong-effect" if form.startswith("own") else "C11:align-reports-wrong-rmsd",
                                      f"ensemble align with vec given as {form}: conformer {cc} returned {float(ret[cc])!r}, achieved "
                                      f"{G.rmsd(final[cc][core], target)!r} against reference + (vec as it was before the call)", tag)
                    d_ok, v_ok = G.rigid_same(start[cc], final[cc], quads)
                    if not (d_ok and v_ok):
                        ctx.violation("C11:align-changes-distances", f"ensemble align with vec given as {form}: conformer {cc} not moved rigidly", tag)
                untouched("ens.align_to_ref_coords: the reference's parent structure", refm.coords, refb, tag)
            ctx.case(["alias-ens-align", form, start.tolist(), core_before], nontrivial=True)
            ctx.count(f"alias.ens-align.vec={form}")


def run(ctx):
    ctx.rule = ("rotation constructors: rational unit vectors (Pythagorean quadruples ≤ 21, random signs/permutations, scaled by "
                "1e-3…100) and tangent-half-angle (sin, cos) incl. angle 0/±90°/180°; degenerate neighbourhoods: v2 = −v1 + δ·⊥ for "
                "δ ∈ {1e-3 … 1e-12, 0} on axis-aligned, rational and random v1, both tol = 1e-8 (default) and 1e-6 (join), each called "
                "twice under different numpy RNG states; NEARLY PARALLEL pairs v2 = v1 + δ·⊥, δ ∈ {3e-2 … 1e-9}, tol ∈ {default, 1e-6, 1e-4}, "
                "direction checked to 1e-11; rational unit pairs within 2·atan(1/q), q = 1e2…1e7, of ±b against the model; molecules: random 3-D trees / single-ring graphs of 5–12 atoms on a 1/8 Å grid: "
                "translate, transform, substructure edits on random subsets — also through handles created BEFORE the parent was edited "
                "(atoms deleted below/above the selection, atom added, coordinate table re-assigned) —, dihedral and rotate_dihedral on EVERY rotatable acyclic "
                "bond in both directions; ensembles of 1–4 conformers and ensembles with as many conformers as atoms (±1): translate (1-d, 2-d), rotate (matrix, stack), center_at_core, "
                "center_at_atom, align_to_ref_coords (Kabsch callback, 1–2 index lists, with/without vec) + Molecule.align_to_ref_coords; "
                "alignment also on molecules holding 2–3 DISTINCT occurrences of the core (different places and poses, the others perturbed), the "
                "reference taken from one site which is put at EVERY position of the candidate list (optionally plus a symmetry mapping), 1–3 conformers; "
                "the achieved RMSD is recomputed from the final coordinates for the mapping the call claims (the one whose reported value is returned). "
                "Argument aliasing: every operation taking a vector / matrix / reference / index list is called with rows and columns of the object's OWN "
                "coordinate array, views of another object's array, read-only arrays and integer arrays; effect = the documented one for the value before "
                "the call, everything outside the moved object bit-identical afterwards. "
                "Non-trivial: the operation is not the identity (a ≠ b, angle ≠ 0, v ≠ 0, target ≠ current dihedral); distinct by input.")
    ctx.assumptions += [
        "A-fp: float64 evaluation of the rotation/translation expressions is within 1e-9 (absolute, relative above 1) of exact arithmetic on the generated inputs; within 1e-6 in the near-antiparallel neighbourhood where the code divides by 1 + c ≥ 1e-8",
        "arctan2(ρ sin τ, ρ cos τ) = τ for ρ > 0 (math library), sqrt/norm of the runtime: norms passed to the model are certified by the exact check |l² − v·v| ≤ 1e-12 v·v",
        "alignment: pose independence depends on the external Kabsch callback and is sampled by the harness (unique optimum only), not proved",
    ]
    ctx.proof(props=["Molli.Props.C11"])
    q = ctx.quick()
    if not q:
        G.leanchecker(ctx, ["Molli.Props.C11", "Molli.Lemmas.GeomView", "Molli.Lemmas.GeomOrdered", "Molli.Lemmas.GeomField", "Molli.Lemmas.Geom", "Molli.Lemmas.GeomCert"])
    B = Batch()
    sec_corpus(ctx, B)
    sec_rotvec(ctx, B, 400 if q else 20000)
    sec_rotvec_degenerate(ctx, B, 12 if q else 250)
    sec_rotaxis(ctx, B, 200 if q else 8000)
    B.run(ctx)
    sec_aliasing(ctx, B, 8 if q else 150)
    B.run(ctx)
    for _ in range(1 if q else 15):
        sec_molecules(ctx, B, 40 if q else 100)
        B.run(ctx)
        sec_ensembles(ctx, B, 30 if q else 80)
        B.run(ctx)


def replay(ctx, path):
    obj = json.loads(Path(path).read_text())
    print(json.dumps(obj, indent=1)[:3000])
    r = obj.get("replay") or {}
    if isinstance(r, dict) and r.get("op") == "rotate_dihedral":
        import molli as ml
        c = np.array(r["coords"])
        m = G.build_molecule(ml, ["C"] * len(c), [tuple(e) for e in r["edges"]], c, name="r")
        a = r["atoms"]
        print("dihedral before:", m.dihedral(*a))
        m.rotate_dihedral(tuple(a), r["target"])
        print("target:", r["target"], " dihedral after rotate_dihedral on the real code:", m.dihedral(*a))
    return 0
