"""Instrumented real sessions for C04: run one reading()/writing() session of a real Collection with a fault
injected at a chosen step, log which steps were entered, and observe the after-state.  Used by the table
generator (harness/gen/Sessions.py) and by the correspondence (harness/c04.py)."""
from __future__ import annotations

import os
import subprocess
import sys
from pathlib import Path

from harness import common

KINDS = ["reading", "writing"]
FAULTS = ["none", "atBegin", "atUpdate", "atBody", "atFlush", "atEnd", "atBodyBase"]


class Injected(Exception):
    pass


class _LockProxy:
    def __init__(self, lock, log):
        self._l = lock
        self._log = log

    def acquire_read_lock(self, *a, **k):
        self._log.append("acquire")
        return self._l.acquire_read_lock(*a, **k)

    def acquire_write_lock(self, *a, **k):
        self._log.append("acquire")
        return self._l.acquire_write_lock(*a, **k)

    def release_read_lock(self, *a, **k):
        self._log.append("release")
        return self._l.release_read_lock(*a, **k)

    def release_write_lock(self, *a, **k):
        self._log.append("release")
        return self._l.release_write_lock(*a, **k)

    def __getattr__(self, n):
        return getattr(self._l, n)


class _TearStream:
    """lets `left` more bytes reach the file, flushes them, then every write raises (a device that fills up / an I/O
    error in the middle of a record)"""

    def __init__(self, stream, left):
        self._s, self._left = stream, left

    def write(self, data):
        if len(data) >= self._left:
            if self._left > 0:
                self._s.write(bytes(data[:self._left]))
                self._s.flush()
            self._left = 0
            raise Injected("flush-torn")
        self._left -= len(data)
        return self._s.write(data)

    def __getattr__(self, name):
        return getattr(self._s, name)


def instrument(col, log, fault, tear=0):
    """wrap the backend of `col` (instance-level patches only; the repo is untouched)"""
    b = col._backend
    if not isinstance(b._lock, _LockProxy):
        b._lock = _LockProxy(b._lock, log)
    else:
        b._lock._log = log
    cls = type(b)
    fired = {"flush": False}

    def begin(real):
        def f():
            if fault == "atBegin":
                raise Injected("begin")
            real(b)
            log.append("begin")          # listed once the file is open
        return f

    def end(real):
        def f():
            log.append("end")
            real(b)
            if fault == "atEnd":
                raise Injected("end")    # after the file was closed
        return f

    def update():
        log.append("update")
        if fault == "atUpdate":
            raise Injected("update")
        cls.update_keys(b)

    def flush():
        log.append("flush")
        cls.flush(b)

    def write(key, value):
        if fault == "atFlush" and not fired["flush"]:
            fired["flush"] = True
            raise Injected("flush")
        if fault == "atFlushTorn" and not fired["flush"]:
            # the first backend write of the flush gets `tear` bytes of its record into the file and then fails
            fired["flush"] = True
            b._ukvfile._stream = _TearStream(b._ukvfile._stream, tear)
        cls._write(b, key, value)

    b.begin_read = begin(cls.begin_read)
    b.begin_write = begin(cls.begin_write)
    b.end_read = end(cls.end_read)
    b.end_write = end(cls.end_write)
    b.update_keys = update
    b.flush = flush
    b._write = write


def run_session(col, kind, fault, puts, cut=1, reads=(), in_body=None, tear=0):
    """run one instrumented session; returns dict(trace, exc, listed_at_start, read_values)"""
    log: list = []
    instrument(col, log, fault, tear)
    out = {"exc": None, "listed": None, "reads": {}}
    try:
        cm = col.writing(timeout=5) if kind == "writing" else col.reading(timeout=5)
        with cm:
            log.append("body")
            out["listed"] = sorted(col.keys())
            if in_body is not None:
                out["in_body"] = in_body()
            if kind == "writing":
                for k in reads:                       # read-then-write inside one writing session
                    try:
                        out["reads"][k] = col[k]
                    except Exception as e:
                        out["reads"][k] = e
                for n, (k, v) in enumerate(puts):
                    if fault in ("atBody", "atBodyBase") and n == cut:
                        raise (Injected("body") if fault == "atBody" else KeyboardInterrupt())
                    if fault == "badValueCaught" and not isinstance(v, bytes):
                        try:
                            col[k] = v
                        except Exception:
                            pass                     # user code catches the failing put and carries on
                        continue
                    col[k] = v
                if fault in ("atBody", "atBodyBase") and cut >= len(puts):
                    raise (Injected("body") if fault == "atBody" else KeyboardInterrupt())
            else:
                for k in reads:
                    try:
                        out["reads"][k] = col[k]
                    except Exception as e:
                        out["reads"][k] = e
                if fault == "atBody":
                    raise Injected("body")
                if fault == "atBodyBase":
                    raise KeyboardInterrupt()
    except KeyboardInterrupt:
        out["exc"] = "injected:KeyboardInterrupt"
    except Injected as e:
        out["exc"] = "injected:" + str(e)
    except TimeoutError:
        out["exc"] = "timeout"
    except Exception as e:  # an exception the session machinery itself produced
        out["exc"] = f"{type(e).__name__}"
    out["trace"] = log
    b = col._backend
    out["state"] = b._state
    out["closed"] = (not hasattr(b, "_ukvfile")) or b._ukvfile.closed
    return out


def force_cleanup(col):
    """after a leaked session: free everything so that the run can go on"""
    b = col._backend
    for rel in ("release_write_lock", "release_read_lock"):
        try:
            getattr(b._lock._l if isinstance(b._lock, _LockProxy) else b._lock, rel)()
        except Exception:
            pass
    try:
        if hasattr(b, "_ukvfile"):
            b._ukvfile.close()
    except Exception:
        pass
    b._state = "idle"
    b._write_queue.clear()


PROBE_SRC = r'''
import sys, os
sys.path.insert(0, os.environ["VERIF_REPO_PATH"])
from molli.storage import Collection, UkvCollectionBackend
cols = {}
for line in sys.stdin:
    parts = line.split()
    if not parts:
        continue
    cmd, path = parts[0], parts[1]
    tmo = float(parts[2]) if len(parts) > 2 else 2.0
    try:
        c = cols.get(path)
        if c is None:
            c = cols[path] = Collection(path, UkvCollectionBackend, readonly=False)
        cm = c.writing(timeout=tmo) if cmd == "w" else c.reading(timeout=tmo)
        with cm:
            items = sorted((k, c[k].hex()) for k in c.keys())
        print("ok " + ";".join(f"{k.encode().hex() or '-'}={v or '-'}" for k, v in items), flush=True)
    except TimeoutError:
        print("timeout", flush=True)
    except Exception as e:
        print("err " + type(e).__name__, flush=True)
'''


class Probe:
    """a second process that takes the lock (with a timeout) and lists the library"""

    def __init__(self, scratch: Path):
        self.scratch = scratch
        self.p = None

    def start(self):
        env = dict(os.environ)
        env["VERIF_REPO_PATH"] = str(common.REPO)
        self.p = subprocess.Popen([common.repo_python(), "-c", PROBE_SRC], stdin=subprocess.PIPE, stdout=subprocess.PIPE,
                                  stderr=subprocess.DEVNULL, text=True, env=env)

    def ask(self, mode: str, path: Path, timeout: float = 15.0, lock_timeout: float = 2.0):
        import select
        if self.p is None or self.p.poll() is not None:
            self.start()
        self.p.stdin.write(f"{mode} {path} {lock_timeout}\n")
        self.p.stdin.flush()
        r, _, _ = select.select([self.p.stdout], [], [], timeout)
        if not r:
            self.p.kill()
            self.p = None
            return "hung"
        return self.p.stdout.readline().strip()

    def stop(self):
        if self.p is not None:
            try:
                self.p.stdin.close()
                self.p.wait(timeout=5)
            except Exception:
                self.p.kill()
            self.p = None
