"""
C05 — atoms, bonds, coordinates and charges stay aligned under every edit history.

Proof:  Molli.Props.C05 (inv_init_*, inv_step, inv_history, delAtom_bonds, survivor_payload, index theorems)
        about the executable model Molli/Model/MolEdit.lean (ghost-tagged coordinate rows and charges).
Tie:    random and bounded-exhaustive edit histories run on real Molecule / Structure objects (start: empty,
        a 4-atom molecule, dendrobine.mol2, a clone of it); after EVERY step the molecule is snapshot through
        public accessors and compared with the state the Lean model predicts for the same history.
Oracle: model-free — a reference keyed by Python object identity (atom -> coordinate and charge it was
        given); after every step: one row and one numeric charge per atom, each atom has the values it was
        given, bonds join member atoms, del_atom removed exactly the atom addressed and exactly its bonds,
        parents and indices (a.idx, get_atom_index, index_atom, index_bond) are right.
"""
from __future__ import annotations

import itertools
import json
from pathlib import Path

from harness import common
from harness.moledit import Runner, parse_state

STARTS = ["empty", "small", "file", "clone"]


# ----------------------------------------------------------------------------------------------------------
# generation of one op against the live molecule
# ----------------------------------------------------------------------------------------------------------
class Gen:
    def __init__(self, rng, runner: Runner):
        self.rng = rng
        self.r = runner
        self.ext = 0
        self.c = 0
        self.deleted_bonds: list[int] = []
        self.pending: list[list] = []
        self.seen_members: set[str] = set()

    def fresh_ext(self) -> str:
        self.ext += 1
        return f"e{self.ext}"

    def fresh_xyz(self):
        self.c += 1
        return [float(self.c), self.c + 0.5, -float(self.c)]

    def members(self):
        return [self.r.atom_ids[id(a)] for a in self.r.mol.atoms if id(a) in self.r.atom_ids]

    def nonmembers(self):
        mem = set(self.members())
        return [k for k in self.r.atom_objs if k not in mem]

    def ref(self, valid_pct=85):
        rng, mol = self.rng, self.r.mol
        n = mol.n_atoms
        mem = self.members()
        t = rng.weighted([("obj", 35), ("idx", 30), ("label", 15), ("elem", 20)])
        good = rng.below(100) < valid_pct and n > 0
        self.seen_members.update(mem)
        if t == "obj" and self.stale_atoms() and rng.below(100) < 10:
            return "@" + rng.choice(self.stale_atoms())
        if t == "obj":
            if good:
                return "@" + rng.choice(mem)
            non = self.nonmembers()
            if non:
                return "@" + rng.choice(non)
            self.r._end([self.fresh_ext(), 6, None])  # a free atom that was never added
            return "@" + f"e{self.ext}"
        if t == "idx":
            if good:
                return "#" + str(rng.below(n) if rng.below(100) < 80 else -1 - rng.below(n))
            return "#" + str(rng.choice([n, n + 3, -n - 1, -n - 5]))
        if t == "label":
            labels = [a.label for a in mol.atoms if a.label is not None]
            if good and labels:
                return "L" + rng.choice(labels)
            return "Lnolabel"
        elems = [int(a.element) for a in mol.atoms]
        if good and elems:
            return "E" + str(rng.choice(elems))
        return "E79"

    def mark(self, op):
        """spell out every optional argument as its documented default, or omit it"""
        return op + [self.rng.choice(["+spelled", "+omitted"])]

    def stale_atoms(self):
        """atoms that were in the molecule earlier in this history and are not now"""
        mem = set(self.members())
        return [k for k in self.seen_members if k not in mem]

    def stale_bonds(self):
        mol = self.r.mol
        return [b for b, o in self.r.bond_objs.items() if not any(o is x for x in mol.bonds)]

    def end(self, foreign_pct):
        rng = self.rng
        self.seen_members.update(self.members())
        st = self.stale_atoms()
        if st and rng.below(100) < 22:
            return rng.choice(st)      # a stale handle: an atom deleted earlier in this history
        mem = self.members()
        if mem and rng.below(100) >= foreign_pct:
            return rng.choice(mem)
        e = [self.fresh_ext(), rng.choice([1, 6, 7, 8, 9, 17]), rng.choice([None, f"X{self.ext}"])]
        if rng.below(100) < 15:
            e.append("stolen")
        return e

    def op(self):
        if self.pending:
            return self.pending.pop(0)
        rng, mol = self.rng, self.r.mol
        n = mol.n_atoms
        nv = len(self.r.views)
        kind = rng.weighted([("add", 10), ("new", 8), ("del", 24), ("con", 10), ("bond", 16), ("bonds", 4),
                             ("delb", 8), ("rmsub", 6), ("addh", 5), ("addbad", 3), ("readd", 4),
                             ("mkview", 7 if n else 0), ("vread", 9 if nv else 0), ("vwrite", 8 if nv else 0),
                             ("pair", 8 if n else 0), ("rebond", 9 if self.r.bond_objs else 0), ("newbonds", 8), ("vedit", 9 if nv else 0),
                             ("clone", 7), ("scribble", 6 if self.r.alias else 0), ("setq", 4 if self.r.kind == "m" else 0), ("setc", 4)])
        if kind == "clone":
            return ["clone", rng.choice(["shallow", "shallow", "deepcopy", "pickle", "ctor"]), rng.choice(["keep", "drop", "drop"])]
        if kind == "scribble":
            return ["scribble"]
        if kind == "setq":
            return ["setq", rng.below(1000), rng.choice(["array", "array", "list", "f32"])]
        if kind == "setc":
            return ["setc", rng.below(1000)]
        if kind == "vedit":
            k = max(0, nv - 1 - rng.below(min(nv, 3)))
            v = self.r.views[k][0]
            opts = ["append-foreign", "addatom", "addh"]
            if len(v.atoms):
                opts += ["append-new", "connect", "delatom", "append-new"]
            if len(v.bonds):
                opts += ["delbond-own", "delbond-own", "delbond-own"]
            if mol.n_bonds:
                opts += ["append-parentbond", "append-parentbond"]
            if any(not any(b is x for x in v.bonds) for b in mol.bonds):
                opts += ["delbond-parent"]
            return ["vedit", k, rng.choice(opts), rng.below(1000)]
        if kind == "newbonds":
            k = rng.range(1, 3)
            own = rng.choice([None, None, "other"])
            # bonds of another molecule join atoms of that molecule: all ends are new free atoms then
            ends = [[self.end(100 if own else 35), self.end(100 if own else 60)] for _ in range(k)]
            ends = [[x, y] for x, y in ends if not own or (isinstance(x, list) and isinstance(y, list))] or \
                   [[[self.fresh_ext(), 6, None], [self.fresh_ext(), 8, None]]]
            k = len(ends)
            base = list(range(k))
            rng.shuffle(base)
            shape = rng.weighted([("distinct", 40), ("twice-adjacent", 15), ("twice-apart", 20), ("thrice-apart", 25)])
            if shape == "distinct":
                pattern = base
            elif shape == "twice-adjacent":
                pattern = base + [base[-1]]
            elif shape == "twice-apart":
                pattern = [base[0]] + base[1:] + [base[0]] if k > 1 else [base[0], base[0]]
            else:
                rest = base[1:] or []
                pattern = [base[0]] + rest[:1] + [base[0]] + rest[1:] + [base[0]]
            return ["newbonds", ends, pattern, rng.choice(["many", "extend"]), own]
        self.seen_members.update(self.members())
        if kind == "rebond":
            st = self.stale_bonds()
            live = [self.r.bond_ids[id(b)] for b in mol.bonds]
            how = rng.weighted([("one", 5), ("many", 3), ("extend", 3)])
            if how == "one":
                pool = st if (st and rng.below(100) < 85) else (live or st)
                if not pool:
                    return self.op()
                return ["rebond", [rng.choice(pool)], "one"]
            k = rng.range(0, 3)
            picks = []
            for _ in range(k):
                pool = st if (st and rng.below(100) < 88) else (live or st)
                if pool:
                    picks.append(rng.choice(pool))       # may repeat a bond within the call
            if rng.below(100) < 80:
                picks = list(dict.fromkeys(picks))
            return ["rebond", picks, how]
        if kind == "mkview":
            how = rng.weighted([("sub", 5), ("cls", 3), ("heavy", 2)])
            k = rng.range(0, min(4, n))
            refs = [self.ref(93) for _ in range(k)]
            if rng.below(100) < 70:
                # distinct member atoms, addressed in mixed ways, not in list order
                mem = self.members()
                rng.shuffle(mem)
                refs = []
                for aid in mem[:k]:
                    a = self.r.atom_objs[aid]
                    refs.append("@" + aid if rng.below(2) else "#" + str(mol.atoms.index(a)))
            return ["mkview", refs, how]
        if kind == "vread":
            return ["vread", max(0, nv - 1 - rng.below(min(nv, 3)))]
        if kind == "vwrite":
            return ["vwrite", max(0, nv - 1 - rng.below(min(nv, 3))), rng.choice(["assign", "translate", "translate", "scale", "transform"]),
                    rng.below(1000)]
        if kind == "pair":
            # an edit pair that keeps the number of atoms: delete + create (either order), usually followed by a use of a view
            d = ["del", "#" + str(rng.below(n))] if rng.below(100) < 70 else ["del", self.ref(95)]
            c = ["new", rng.choice([1, 6, 7, 8]), None, self.fresh_xyz()] if rng.below(2) else \
                ["add", self.fresh_ext(), 6, None, self.fresh_xyz(), None]
            seq = [d, c] if rng.below(100) < 65 else [c, d]
            if nv and rng.below(100) < 80:
                seq.append(["vread", nv - 1] if rng.below(2) else ["vwrite", nv - 1, "translate", rng.below(1000)])
            self.pending = seq[1:]
            return seq[0]
        if kind == "add":
            q = None if rng.below(2) == 0 or self.r.kind == "s" else 0.01 * (self.c + 1)
            return self.mark(["add", self.fresh_ext(), rng.choice([1, 6, 7, 8, 16]), rng.choice([None, f"A{self.ext}", "DUP"]),
                              self.fresh_xyz(), q])
        if kind == "readd":
            pool = (self.stale_atoms() or self.nonmembers()) if rng.below(100) < 75 else self.members()
            if not pool:
                return self.op()
            return self.mark(["readd", rng.choice(pool), self.fresh_xyz(), None])
        if kind == "addbad":
            from harness.moledit import BAD_SHAPES
            if rng.below(100) < 35:
                return ["newbad", rng.choice([1, 6, 8]), rng.choice(BAD_SHAPES)]
            return self.mark(["addbad", self.fresh_ext(), 6, None, rng.choice(BAD_SHAPES)])
        if kind == "new":
            return self.mark(["new", rng.choice([1, 6, 7, 8]), rng.choice([None, f"N{self.c}", "DUP"]), self.fresh_xyz()])
        if kind == "del":
            return ["del", self.ref()]
        if kind == "con":
            if mol.n_bonds and rng.below(100) < 20:  # a second bond between the same two atoms
                b = rng.choice(mol.bonds)
                x, y = self.r.atom_ids[id(b.a1)], self.r.atom_ids[id(b.a2)]
                return ["con", "@" + y, "@" + x] if rng.below(2) else ["con", "@" + x, "@" + y]
            return self.mark(["con", self.ref(92), self.ref(92)])
        if kind == "bond":
            shape = rng.weighted([("mf", 50), ("mm", 22), ("ff", 12), ("same", 6), ("fm", 10)])
            if shape == "mf":
                return ["bond", self.end(0), self.end(100)]
            if shape == "fm":
                return ["bond", self.end(100), self.end(0)]
            if shape == "mm":
                return ["bond", self.end(0), self.end(0)]
            if shape == "ff":
                return ["bond", self.end(100), self.end(100)]
            e = self.end(100)
            return ["bond", e, e[0] if isinstance(e, list) else e]
        if kind == "bonds":
            k = rng.range(0, 3)
            pairs = []
            shared = None
            for _ in range(k):
                x = self.end(30)
                y = shared if (shared is not None and rng.below(2)) else self.end(70)
                if isinstance(y, list):
                    shared = y[0]
                pairs.append([x, y])
            return ["bonds", pairs]
        if kind == "delb":
            if self.stale_bonds() and rng.below(100) < 15:
                return ["delb", rng.choice(self.stale_bonds())]
            if not mol.n_bonds:
                return self.op()
            b = rng.choice(mol.bonds)
            return ["delb", self.r.bond_ids[id(b)]]
        if kind == "rmsub":
            if not mol.n_bonds:
                return self.op()
            if rng.below(100) < 12:
                return ["rmsub", self.ref(95), self.ref(95), None]
            b = rng.choice(mol.bonds)
            a1, a2 = (b.a1, b.a2) if rng.below(2) else (b.a2, b.a1)
            r1 = "@" + self.r.atom_ids[id(a1)]
            if rng.below(100) < 25:
                r1 = "#" + str(mol.atoms.index(a1))
            r2 = "@" + self.r.atom_ids[id(a2)]
            if rng.below(100) < 15:
                r2 = "#" + str(mol.atoms.index(a2))
            return self.mark(["rmsub", r1, r2, rng.choice([None, "AP"])])
        if kind == "addh":
            heavy = [self.r.atom_ids[id(a)] for a in mol.atoms if int(a.element) in (6, 7, 8) and id(a) in self.r.atom_ids]
            if not heavy:
                return self.op()
            k = rng.range(1, 2)
            return ["addh", [rng.choice(heavy) for _ in range(k)][: len(set(heavy))]]
        raise AssertionError(kind)


# ----------------------------------------------------------------------------------------------------------
# running one history on the real code
# ----------------------------------------------------------------------------------------------------------
def run_history(kind, start, ops=None, rng=None, length=0):
    """ops given: replay them; else generate `length` ops against the live molecule.
    returns dict(tokens, outs, snaps, viol, ops, init)"""
    r = Runner(kind, start)
    g = Gen(rng, r) if ops is None else None
    res = {"init": r.init_token, "init_snap": r.snapshot(), "tokens": [], "outs": [], "snaps": [], "viol": [],
           "ops": [], "kind": kind, "start": start, "errs": []}
    v0 = r.oracle(["init"], "ok", list(r.mol.atoms), list(r.mol.bonds))
    if v0:
        res["viol"] = [(k, w, -1) for k, w in v0]
        return res
    n = length if ops is None else len(ops)
    for i in range(n):
        op = g.op() if ops is None else ops[i]
        token, out, snap, viol = r.apply(op)
        if op[0] == "delb" and out == "ok" and g is not None:
            g.deleted_bonds.append(op[1])
        res["ops"].append(op)
        res["tokens"].append(token)
        res["outs"].append(out)
        res["snaps"].append(snap)
        if out == "err":
            res["errs"].append(getattr(r, "err_type", "?"))
        if viol:
            res["viol"] = [(k, w, i) for k, w in viol]
            break
    return res


def replay_obj(res, upto=None):
    ops = res["ops"] if upto is None else res["ops"][: upto + 1]
    return {"kind": res["kind"], "start": res["start"], "ops": ops}


def shrink(res, kind_name):
    """greedy removal of ops while the same violation class is still produced"""
    ops = list(res["ops"])
    budget = 60
    i = len(ops) - 2
    while i >= 0 and budget > 0:
        cand = ops[:i] + ops[i + 1:]
        budget -= 1
        try:
            r2 = run_history(res["kind"], res["start"], ops=cand)
            if any(k == kind_name for k, _, _ in r2["viol"]):
                ops = r2["ops"]
        except Exception:
            pass
        i -= 1
    return {"kind": res["kind"], "start": res["start"], "ops": ops}


def nontrivial(res) -> bool:
    added = False
    for op, out in zip(res["ops"], res["outs"]):
        if out != "ok":
            continue
        if op[0] in ("add", "new", "bond", "bonds", "addh", "readd", "newbonds", "rebond"):
            added = True
        if op[0] in ("del", "rmsub", "vread", "vwrite") and added:
            return True
    return False


# ----------------------------------------------------------------------------------------------------------
# bounded-exhaustive alphabet on the 4-atom molecule
# ----------------------------------------------------------------------------------------------------------
def alphabet(big: bool):
    """op makers: each call yields a fresh descriptor (fresh atom ids) for position `k` of the sequence"""
    def add(k): return ["add", f"e{10 + k}", 6, f"A{k}", [10.0 + k, 0.5, -1.0 * k], None]
    def del_idx(k): return ["del", "#1"]
    def del_elem(k): return ["del", "E8"]
    def bond_foreign(k): return ["bond", "o0", [f"e{20 + k}", 7, None]]
    def con(k): return ["con", "#0", "#-1"]
    def rmsub(k): return ["rmsub", "@o0", "@o1", "AP"]
    base = [add, del_idx, del_elem, bond_foreign, con, rmsub]
    if not big:
        return base
    def del_obj(k): return ["del", "@o3"]
    def del_label(k): return ["del", "LH2"]
    def delb(k): return ["delb", 4]
    def new(k): return ["new", 8, None, [30.0 + k, 1.0, 2.0]]
    def addh(k): return ["addh", ["o0"]]
    def mkview(k): return ["mkview", ["#1", "@o3"], "sub"]
    def vread(k): return ["vread", 0]
    def vwrite(k): return ["vwrite", 0, "translate", k]
    return base + [del_obj, del_label, delb, new, addh, mkview, vread, vwrite]


# ----------------------------------------------------------------------------------------------------------
# Conformer views held across edits of their ensemble (oracle only; the ensemble model is property C14's)
# ----------------------------------------------------------------------------------------------------------
def ens_history(ctx, case_seed):
    """conformer views c_i = ens[i] are made once and KEPT; the ensemble is then edited (append / extend conformers, translate,
    scale, assignment) and written through the views; after every step every kept view must show the coordinates and charges of
    its own conformer (reference keyed by conformer index) and its atoms must be the ensemble's atoms"""
    import warnings

    import numpy as np
    import molli as ml

    rng = common.Prng(case_seed)
    n = rng.range(1, 5)
    base = ml.Molecule(n_atoms=n)
    for i in range(1, n):
        base.connect(rng.below(i), i)
    k = rng.range(1, 3)
    ens = ml.ConformerEnsemble(base, n_conformers=k)
    ref_c = [np.array([[10.0 * c + a, 0.5 * a, -1.0 * c] for a in range(n)]) for c in range(k)]
    ref_q = [np.array([0.125 * (c + 1) + a for a in range(n)]) for c in range(k)]
    ens.coords = np.array(ref_c)
    ens.atomic_charges = np.array(ref_q)
    held = {}
    ops, viol = [], []
    tag = {"case": "conformer-views", "case_seed": case_seed}

    def geom(j):
        g = ml.Molecule(base)
        g.coords = np.array([[100.0 * j + a, 1.0, 2.0 + a] for a in range(n)])
        g.atomic_charges = np.array([0.5 * j + a for a in range(n)])
        return g

    for step in range(rng.range(4, 14)):
        nconf = len(ref_c)
        op = rng.weighted([("hold", 4), ("append", 3), ("extend", 2), ("translate", 2), ("scale", 1), ("c.assign", 3),
                           ("c.translate", 3), ("c.charges", 2), ("e.assign", 1),
                           ("c.connect", 2), ("c.append_bond", 2), ("c.del_bond", 2), ("c.add_atom", 1), ("c.del_atom", 1)])
        ops.append(op)
        try:
            with warnings.catch_warnings():
                warnings.simplefilter("ignore")
                if op == "hold":
                    i = rng.below(nconf)
                    held.setdefault(i, []).append(ens[i] if rng.below(2) else ens[i:i + 1][0])
                elif op == "append":
                    g = geom(step)
                    ens.append(g)
                    ref_c.append(np.array(g.coords)); ref_q.append(np.array(g.atomic_charges))
                elif op == "extend":
                    gs = [geom(step), geom(step + 50)]
                    ens.extend(gs)
                    for g in gs:
                        ref_c.append(np.array(g.coords)); ref_q.append(np.array(g.atomic_charges))
                elif op == "translate":
                    v = np.array([1.0, -2.0, 0.5]); ens.translate(v)
                    ref_c = [c + v for c in ref_c]
                elif op == "scale":
                    ens.scale(2.0)
                    ref_c = [c * 2.0 for c in ref_c]
                elif op == "e.assign":
                    i = rng.below(nconf)
                    new = np.array([[7.0 * step + a, 3.0, -a] for a in range(n)])
                    ens.coords[i] = new
                    ref_c[i] = new
                elif held:
                    i = rng.choice(sorted(held))
                    cf = rng.choice(held[i])
                    if op == "c.assign":
                        new = np.array([[9.0 * step + a, -3.0, a] for a in range(n)])
                        cf.coords = new
                        ref_c[i] = new
                    elif op == "c.translate":
                        v = np.array([0.5, 0.25, -1.0]); cf.translate(v)
                        ref_c[i] = ref_c[i] + v
                    elif op in ("c.connect", "c.append_bond", "c.del_bond", "c.add_atom", "c.del_atom"):
                        # edits of the atom / bond lists THROUGH a conformer: bonds are the ensemble's (a live list), atoms cannot be
                        # added or deleted through one conformer; the ensemble must stay a well-formed parent either way
                        before = (list(ens.atoms), list(ens.bonds))
                        try:
                            if op == "c.connect":
                                cf.connect(0, n - 1)
                            elif op == "c.append_bond":
                                cf.append_bond(ml.Bond(cf.atoms[0], cf.atoms[rng.below(n)]))
                            elif op == "c.del_bond":
                                if len(cf.bonds):
                                    cf.del_bond(cf.bonds[rng.below(len(cf.bonds))])
                            elif op == "c.add_atom":
                                cf.add_atom(ml.Atom("H"), [0.0, 0.0, 0.0])
                            else:
                                cf.del_atom(0)
                        except Exception:
                            if [id(a) for a in ens.atoms] != [id(a) for a in before[0]] or [id(b) for b in ens.bonds] != [id(b) for b in before[1]]:
                                viol.append(("C05:refused-view-edit-changed-parent", f"{op} through a Conformer raised but changed the ensemble [ops {ops}]"))
                                break
                    else:
                        q = np.array([0.0625 * step + a for a in range(n)])
                        cf.atomic_charges = q
                        ref_q[i] = q
        except Exception as e:
            viol.append(("C05:conformer-view-unusable", f"{op} raised {type(e).__name__}: {str(e)[:60]} [ops {ops}]"))
            break
        bad = None
        for i, cfs in held.items():
            for cf in cfs:
                try:
                    if cf.atoms is not ens.atoms and list(cf.atoms) != list(ens.atoms):
                        bad = f"conformer {i}: atoms are not the ensemble's"
                    elif not np.array_equal(np.asarray(cf.coords), ref_c[i]) or not np.array_equal(np.asarray(ens.coords[i]), ref_c[i]):
                        bad = f"conformer {i}: coordinates are not those it was given"
                    elif not np.array_equal(np.asarray(cf.atomic_charges), ref_q[i]):
                        bad = f"conformer {i}: partial charges are not those it was given"
                except Exception as e:
                    bad = f"conformer {i}: reading through the kept view raised {type(e).__name__}"
        if bad is None:
            # the ensemble itself: every atom and bond names the ensemble as parent and knows its index, bonds join its atoms
            for j, a in enumerate(ens.atoms):
                if a.parent is not ens or a.idx != j:
                    bad = f"atom {j} of the ensemble names {type(a.parent).__name__} as parent / index {a.idx if a.parent is not None else None}"
            for j, b in enumerate(ens.bonds):
                if b.parent is not ens or ens.index_bond(b) != j or not any(b.a1 is a for a in ens.atoms) or not any(b.a2 is a for a in ens.atoms):
                    bad = f"bond {j} of the ensemble names {type(b.parent).__name__} as parent, or has a wrong index / a foreign end"
            if ens.n_atoms != n:
                bad = f"the ensemble has {ens.n_atoms} atoms, its arrays are for {n}"
        if bad is None and (ens.coords.shape != (len(ref_c), n, 3) or ens.atomic_charges.shape != (len(ref_c), n)):
            bad = f"ensemble arrays have shapes {ens.coords.shape} / {ens.atomic_charges.shape} for {len(ref_c)} conformers of {n} atoms"
        if bad:
            viol.append(("C05:conformer-view-misaligned", f"after {op}: {bad} [ops {ops}]"))
            break
    ctx.count("conformer_view_steps", len(ops))
    return viol, tag, ops


# ----------------------------------------------------------------------------------------------------------
def compare(ctx, res, mline):
    """diff the real snapshots with the model's predicted states"""
    parts = mline.split(";")
    tag = {"kind": res["kind"], "start": res["start"], "ops": res["ops"]}
    if mline.startswith("err:"):
        ctx.disagree("driver rejected the request", tag, res["tokens"], mline)
        return False
    obs = [("ok", res["init_snap"])] + list(zip(res["outs"], res["snaps"]))
    for i, (out, snap) in enumerate(obs):
        if i >= len(parts):
            break
        p = parts[i]
        if i == 0:
            mout, mstate = "ok", parse_state(p)
        else:
            mout, _, st = p.partition("#")
            mstate = parse_state(st)
        ids = ",".join(x.rstrip("!") for x in mstate["A"].split(",")) if mstate["A"] else ""
        if mstate.get("inv") != "1" or mstate["T"] != ids or mstate["U"] != ids:
            ctx.disagree("the model's own invariant check failed (model is broken)", {**tag, "step": i - 1}, "-", p)
            return False
        fields = ["A", "R", "B"] + (["Q"] if res["kind"] == "m" else [])
        diff = [f for f in fields if snap[f] != mstate[f]]
        if snap.get("X") != mstate.get("X"):
            diff.append("X")
        # add_implicit_hydrogens: whether the routine raises is decided by property C16; the model op
        # takes the hydrogens that were in fact added, so only the state is compared for it
        if out != mout and not (i > 0 and res["ops"][i - 1][0] in ("addh", "vedit", "clone")):
            diff.append("out")
        if diff:
            ctx.disagree(f"state after step {i - 1} differs in {diff}", {**tag, "step": i - 1, "op": res["ops"][i - 1] if i else None},
                         {"out": out, **snap}, {"out": mout, **{k: mstate[k] for k in fields}})
            return False
    return True


def run(ctx):
    import molli as ml  # noqa: F401

    ctx.rule = ("edit histories on real Molecule (70%) / Structure (30%) objects starting from empty, a labelled 4-atom "
                "molecule, dendrobine.mol2 and a clone of it; ops: add_atom (fresh / re-added / already a member / malformed "
                "coordinate), new_atom, del_atom by object|index|label|element (valid, negative, absent), connect (incl. a second "
                "bond between the same atoms), append_bond(s) with member / free / foreign-owned endpoints, del_bond, "
                "remove_substituent, add_implicit_hydrogens; state compared after EVERY step. Bounded-exhaustive: all sequences "
                "of length <= 3 (thorough: <= 4) over a 6-op alphabet (thorough: also 11 ops, length <= 3) on the 4-atom molecule, "
                "both kinds. Non-trivial: at least one successful delete after at least one successful add; distinct by "
                "(kind, start, op tokens).")
    ctx.assumptions += [
        "coordinates and charges are compared exactly (IEEE bit patterns interned to payload codes); no arithmetic is involved",
        "atoms handed to append_bond from another molecule: only the adopting molecule is checked",
        "positions and number of hydrogens added by add_implicit_hydrogens are taken from the run (property C16 decides them)",
    ]
    ctx.proof(props=["Molli.Props.C05"])

    histories = []
    # ---- corpus first
    cdir = common.VERIF / "corpus" / "C05"
    for p in sorted(cdir.glob("*.json")) if cdir.exists() else []:
        for o in json.loads(p.read_text()):
            histories.append(("corpus", o["kind"], o["start"], o["ops"]))
    # ---- bounded-exhaustive
    small_alpha = alphabet(False)
    maxlen = 3 if ctx.quick() else 4
    for kind in ("m", "s"):
        for L in range(1, maxlen + 1):
            for seq in itertools.product(range(len(small_alpha)), repeat=L):
                histories.append(("exh", kind, "small", [small_alpha[j](k) for k, j in enumerate(seq)]))
    if not ctx.quick():
        big = alphabet(True)
        for L in range(1, 4):
            for seq in itertools.product(range(len(big)), repeat=L):
                if all(j < 6 for j in seq):
                    continue
                histories.append(("exh", "m", "small", [big[j](k) for k, j in enumerate(seq)]))
    # ---- random
    nrand = 900 if ctx.quick() else 20000
    for _ in range(nrand):
        histories.append(("rand", ctx.rng.weighted([("m", 70), ("s", 30)]),
                          ctx.rng.weighted([("empty", 18), ("small", 26), ("file", 18), ("clone", 14), ("clonesrc", 10), ("clonekw", 8), ("fromconf", 6)]), None))

    lines, results = [], []
    seen_kinds = set()
    for src, kind, start, ops in histories:
        ctx.check_deadline()
        if ops is None:
            length = ctx.rng.range(4, 40 if start in ("empty", "small", "fromconf") else 30)
            res = run_history(kind, start, rng=ctx.rng, length=length)
        else:
            try:
                res = run_history(kind, start, ops=ops)
            except (KeyError, IndexError):
                continue  # exhaustive sequence addressing an object that does not exist (e.g. bond 4 / view 0 never made)
        results.append(res)
        lines.append(";".join([res["init"]] + res["tokens"]))
        ctx.case(f"{kind}:{start}:{lines[-1]}", nontrivial=nontrivial(res))
        ctx.count(f"source={src}")
        ctx.count(f"kind={kind}")
        ctx.count(f"start={start}")
        ctx.count("steps", len(res["ops"]))
        for op, out in zip(res["ops"], res["outs"]):
            ctx.count(f"op={op[0]}:{out}")
        for e in res["errs"]:
            ctx.count(f"error={e}")
        for k, what, step in res["viol"]:
            if k not in seen_kinds:
                seen_kinds.add(k)
                ctx.violation(k, what + f" [{kind}/{start}, step {step}]", shrink(res, k))
        if len(ctx.samples) < 3 and src == "rand" and nontrivial(res):
            ctx.sample({"kind": kind, "start": start, "request": lines[-1][:600], "outs": res["outs"]})

    # ---- Conformer views held across edits of their ensemble (oracle only)
    for _ in range(60 if ctx.quick() else 2000):
        cs = ctx.rng.next() >> 16
        viol, tag, eops = ens_history(ctx, cs)
        ctx.case(f"ensviews:{cs}:{eops}", nontrivial=any(o.startswith("c.") for o in eops) and any(o in ("append", "extend") for o in eops))
        ctx.count("source=conformer-views")
        for k, what in viol:
            if k not in seen_kinds:
                seen_kinds.add(k)
                ctx.violation(k, what, tag)

    # ---- model side
    outs = ctx.driver(lines)
    nd = 0
    for res, mline in zip(results, outs):
        if not compare(ctx, res, mline):
            nd += 1
            if nd > 20:
                break
    ctx.exhaustive = False
    ctx.extra_cov["driver_requests"] = len(lines)
    ctx.extra_cov["steps_compared"] = ctx.dist.get("steps", 0)


def replay(ctx, path):
    common.use_repo()
    obj = json.loads(Path(path).read_text())
    print(json.dumps(obj, indent=1)[:3000])
    r = obj.get("replay") or obj
    if r.get("case") == "conformer-views":
        class _C:
            def count(self, *a, **k):
                pass
        viol, _, eops = ens_history(_C(), r["case_seed"])
        print("ops:", eops)
        print("violations:", viol)
        return 1 if viol else 0
    if "ops" in r:
        res = run_history(r["kind"], r["start"], ops=r["ops"])
        print("outs on the real code:", res["outs"])
        print("violations:", res["viol"])
        if res["snaps"]:
            print("last snapshot:", res["snaps"][-1])
        return 1 if res["viol"] else 0
    return 0
