"""
C18 — jobmap computes each item once, reuses only valid results, resumes cleanly.

Proof:  Molli.Props.C18 (executed_exactly, invalid_cache_not_reused, valid_cache_reused, executed_once, dest_exactly,
        postOf_isSome_iff, dest_only_keys_untouched, dest_no_foreign_keys, rerun_executes_only_missing, rerun_completes,
        dest_stable_history, wf_runs, executed_only_for_missing_history, complete_after_ok_run, rerun_fixpoint,
        resume_after_history, vectorised_same, vectorised_executed, + closed counterexamples D35/D36/D37) about
        Molli.Model.Jobmap.
Tie:    histories of real `jobmap` calls (harness/c18_child.py, one child process per history, hard timeout, own
        MOLLI_HOME, run in parallel): 3..5-item source libraries (MoleculeLibrary / ConformerLibrary for vectorised jobs),
        pre-populated destinations (source keys and destination-only keys), per-job scripted behaviour (succeed / fail /
        write-then-fail / succeed from the n-th attempt / omit the return file), argument changes between runs,
        strict and non-strict hash check.  The scripted `sh -c` commands bump one counter file per job: executed sets,
        destination contents, cache files and counters after each run are compared with the driver.
Oracle: model-free bookkeeping over the observations (which jobs ran, what the cache files recorded, what the
        destination holds) against the clauses of the property.
"""
from __future__ import annotations

import json
import os
import subprocess
import sys
import time
from concurrent.futures import ThreadPoolExecutor
from pathlib import Path

from harness import common

CHILD = Path(__file__).resolve().parent / "c18_child.py"
PLANS = [("S", 10), ("F3", 2), ("W4", 2), ("N2,5", 2), ("N3,2", 1), ("O", 2), ("K9", 2), ("K15", 1), ("U2,3", 3)]
# ways a cache output can be unreadable: empty, torn at the first byte / in the header / in the middle / before the last byte,
# overwritten with garbage, a valid msgpack document of the wrong type or with other keys
DAMAGE = ["empty", "cut1", "cuthead", "cutmid", "cutlast", "garbage", "wrongtype", "scalar", "otherkeys"]
# jobs of several commands, one plan per command (the runner stops at the first failing one)
MULTI = [["F3", "S"], ["O", "S"], ["S", "F3"], ["N2,5", "S"], ["K9", "S"], ["O", "O", "S"], ["W4", "S"], ["U2,3", "S"], ["S", "O"],
         ["O", "F3"], ["O", "N2,5", "S"], ["S", "S"]]
# everything a library key may be (bytes up to 255 long): dots, several dots, leading/trailing dots, stems and prefixes of
# each other, suffixes the pipeline uses itself, spaces, non-ASCII.  (`/`, NUL, `:`, `,`, `|` are left out: the harness
# uses job names as file names and `:,|` as separators of its own payload format)
KEYS_SINGLE = ["m0", "lig", "lig.1", "lig.2", "lig.1.rot180", "cat_7.rot180", "cat_7.rot90", "cat_7", "a.b.c", "a.b", ".hidden",
               "trail.", "x..y", "with space", "two  spaces.v2", "ünï.ß", "Lig", "o'neil.1", "m1.out", "m1.inp", "m1", "-dash", "k" * 40 + ".1"]
KEYS_VECTOR = ["e0", "e", "e.1", "e.1.0", "ens 3", "ünï", ".h", "conf.set.2", "e0.out"]


def hx(s: str) -> str:
    return s.encode().hex() if s else "-"


def job_names(it):
    return [it["key"]] if it["subs"] is None else [f"{it['key']}.{i}" for i in range(it["subs"])]


def gen_history(rng, quick, mode=None):
    mode = mode or rng.weighted([("single", 3), ("vector", 2)])
    n = rng.range(3, 5)
    pool = list(KEYS_SINGLE if mode == "single" else KEYS_VECTOR)
    rng.shuffle(pool)
    if rng.chance(1, 2):      # a family of keys that are stems / prefixes of each other
        fam = [k for k in pool if k.startswith(("lig", "cat_7", "a.b", "m1") if mode == "single" else ("e",))]
        pool = fam + [k for k in pool if k not in fam]
    items = [{"key": k, "subs": None if mode == "single" else rng.range(1, 3)} for k in pool[:n]]
    # the shape of the prepared inputs: where the result comes from and how the optional fields are spelled
    shape = rng.weighted([("file", 3), ("stdout-none", 2), ("stdout-empty", 1)])
    plans = {}
    for it in items:
        for j in job_names(it):
            if rng.chance(2, 5):      # a job of several commands: compute / collect steps, tails that succeed after a failure
                p = ";".join(rng.choice(MULTI))
            else:
                p = rng.weighted(PLANS)
                if p == "O" and shape != "file":
                    p = "S"          # (without a requested file "exit 0 and nothing written" is a plain success with an empty result)
            if p != "S":
                plans[j] = p
    pre = []
    for it in items:
        if rng.chance(1, 5):
            pre.append({"key": it["key"], "marker": f"pre-{it['key']}"})
    if rng.chance(1, 3):
        pre.append({"key": "zz_only", "marker": "only-in-destination"})
    nruns = rng.range(2, 3) if quick else rng.range(2, 4)
    runs, tag, var = [], "A", ""
    for i in range(nruns):
        flipped = i > 0 and rng.chance(1, 4)
        if flipped:
            tag = "B" if tag == "A" else "A"
        run = {"tag": tag, "strict": not rng.chance(1, 8)}
        if i > 0 and rng.chance(1, 3 if mode == "single" else 6):
            run["reset_dest"] = True       # a new, empty destination with the old cache directory
        if i > 0 and not flipped and rng.chance(1, 3):
            # the arguments change exactly ONE field of every prepared input (envars / files / return_files / one command);
            # usually against a fresh destination, so that the cached outputs of the other input are all that is left
            var = f"{rng.choice(['env', 'files', 'ret', 'cmd'])}{i}"
            if var.startswith("ret"):
                var = "ret0"        # the re-spelling of return_files is ONE alternative input: two such runs prepare the same input
            run["reset_dest"] = run.get("reset_dest") or rng.chance(3, 4)
        if var:
            run["var"] = var
        if i > 0 and rng.chance(1, 3):
            # cache outputs left behind by a killed run
            jobs = [j for it in items for j in job_names(it)]
            run["damage"] = [[rng.choice(jobs), rng.choice(DAMAGE)] for _ in range(rng.range(1, 3))]
        runs.append(run)
    return {"section": "history", "mode": mode, "items": items, "plans": plans, "pre_dest": pre, "runs": runs, "n_workers": 4,
            "shape": shape, "envars": rng.choice(["none", "empty", "some"]), "files": rng.choice(["none", "empty", "xyz"])}


def run_child(ctx, scen, idx):
    work = ctx.scratch / f"h{idx}"
    work.mkdir(parents=True, exist_ok=True)
    sfile = work / "scenario.json"
    sfile.write_text(json.dumps(scen))
    env = dict(os.environ)
    env["PYTHONPATH"] = str(common.REPO)
    env["MOLLI_HOME"] = str(work / "molli_home")
    (work / "molli_home").mkdir(exist_ok=True)
    t0 = time.time()
    try:
        r = subprocess.run([sys.executable, str(CHILD), str(sfile), str(work / "w")], env=env, capture_output=True, text=True,
                           timeout=60 + 60 * len(scen["runs"]), cwd=work)
    except subprocess.TimeoutExpired:
        return {"timeout": True, "wall": time.time() - t0}
    for line in r.stdout.splitlines():
        if line.startswith("C18RESULT "):
            res = json.loads(line[len("C18RESULT "):])
            res["wall"] = time.time() - t0
            return res
    return {"crash": (r.stderr or r.stdout)[-1500:], "wall": time.time() - t0}


def full_tag(r) -> str:
    """the arguments of a run as one token: the tag the commands print, plus the single-field variation"""
    return r["tag"] + (f"~{r['var']}" if r.get("var") else "")


def normalise(scen, res):
    """The commands print `<job>:<tag>:<attempt>`; the single-field variation of the arguments is (deliberately) not visible to
    them.  From the counters it is known in which run each attempt happened: every payload is rewritten to carry the full
    arguments of the run that executed it, in the cache files and in the stored results."""
    exec_var = {}
    for r, rec in zip(scen["runs"], res.get("runs", [])):
        for j in rec.get("executed", []):
            exec_var[(j, rec["attempts"].get(j))] = r.get("var", "")

        def fix(pay):
            # (the tag stays as printed by the command: only the invisible variation is added)
            parts = pay.rsplit(":", 2)
            if len(parts) == 3 and parts[2].isdigit() and exec_var.get((parts[0], int(parts[2]))) and "~" not in parts[1]:
                return f"{parts[0]}:{parts[1]}~{exec_var[(parts[0], int(parts[2]))]}:{parts[2]}"
            return pay

        for j, v in rec.get("cache", {}).items():
            if isinstance(v[1], str) and v[0] != "unreadable":
                v[1] = fix(v[1])
        for k, v in list(rec.get("dest", {}).items()):
            if v and "|" in v and not any(p["key"] == k and p["marker"] == v for p in scen["pre_dest"]):
                head, body = v.split("|", 1)
                # the head is the tag the post-processing saw; the run that stored the item is the first whose destination has it
                rec["dest"][k] = head + "|" + ",".join(fix(p) for p in body.split(","))
    # the head of a stored value: full arguments of the run in which the key first appeared
    seen = {p["key"] for p in scen["pre_dest"]}
    stored_in = {}
    for r, rec in zip(scen["runs"], res.get("runs", [])):
        if r.get("reset_dest"):
            seen, stored_in = set(), {}
        for k in rec.get("dest", {}):
            if k not in seen:
                seen.add(k)
                stored_in[k] = full_tag(r)
        for k, v in list(rec.get("dest", {}).items()):
            if k in stored_in and v and "|" in v and v.split("|", 1)[0] == stored_in[k].split("~")[0]:
                rec["dest"][k] = stored_in[k] + "|" + v.split("|", 1)[1]
    return res


def model_line(scen) -> str:
    items = ",".join(f"{hx(it['key'])}:{'-' if it['subs'] is None else it['subs']}" for it in scen["items"])
    pre = ",".join(f"{hx(p['key'])}={hx(p['marker'])}" for p in scen["pre_dest"]) or "-"
    plans = ",".join(f"{hx(j)}={p.replace(',', '/').replace(';', '+')}" for j, p in scen["plans"].items()) or "-"
    runs = ";".join(f"{full_tag(r)}:{1 if r.get('strict', True) else 0}:{1 if r.get('reset_dest') else 0}:"
                    + ("+".join(hx(j) for j, _ in r.get("damage", [])) or "-") for r in scen["runs"])
    return f"hist r {items} {pre} {plans} {runs}"


def observed_line(scen, res) -> str:
    jobs = sorted({j for it in scen["items"] for j in job_names(it)}, key=hx)
    out = []
    for rec in res["runs"]:
        if rec["raised"]:
            out.append("raise")
            continue
        d = ",".join(f"{hx(k)}={hx(v or '')}" for k, v in sorted(rec["dest"].items(), key=lambda kv: hx(kv[0])))
        c = ",".join(f"{hx(j)}={rec['cache'][j][0]}/{hx(rec['cache'][j][1]) if rec['cache'][j][1] is not None else '-'}"
                     for j in jobs if j in rec["cache"] and rec["cache"][j][0] != "unreadable")      # (unreadable = no output)
        a = ",".join(f"{hx(j)}={rec['attempts'][j]}" for j in jobs if rec["attempts"].get(j))
        out.append(f"ex={','.join(sorted(hx(j) for j in rec['executed']))} dest={d} cache={c} att={a}")
    return " | ".join(out)


def command_outcome(plan: str, attempt: int):
    """(exited 0, wrote the result) of one command, from its scripted plan"""
    if plan == "S":
        return True, True
    if plan == "O":
        return True, False
    if plan.startswith("N"):
        ok = attempt >= int(plan[1:].split(",")[0])
        return ok, ok
    if plan.startswith("U"):
        ok = attempt < int(plan[1:].split(",")[0])
        return ok, ok
    return False, plan[0] in "WK"        # F<c>; W<c>, K<signal> write first


def truly_succeeded(plan: str, attempt: int) -> bool:
    """ground truth from the scripted plan (`PLAN;PLAN;…`, one per command): every command of the job exited 0 on that
    attempt and the result was produced"""
    outs = [command_outcome(p, attempt) for p in plan.split(";")]
    return all(ok for ok, _ in outs) and any(w for _, w in outs)


def oracle(ctx, scen, res):
    """clauses of the property checked on the observations alone"""
    items = scen["items"]
    src_keys = {it["key"] for it in items}
    dest = {p["key"]: p["marker"] for p in scen["pre_dest"]}
    last_tag = {}      # job -> tag of its latest execution
    attempts = {}      # job -> number of executions so far (counter files)
    cache = {}         # job -> (exitcode, payload) as last observed
    for ri, (r, rec) in enumerate(zip(scen["runs"], res["runs"])):
        tag = {"history": scen, "run": ri}
        if r.get("reset_dest"):
            dest = {}
        for j, _kind in r.get("damage", []):
            cache.pop(j, None)            # an unreadable output is no output
        if rec["raised"]:
            if r.get("damage"):
                ctx.violation("C18:jobmap-aborted-on-damaged-cache-output",
                              f"run {ri}: jobmap raised {rec['raised']} with damaged cache outputs {r['damage']} instead of computing those items again: {rec.get('trace', '')[-160:]}", tag)
                return
            only = sorted(set(dest) - src_keys)
            if rec["raised"] == "KeyError" and only:
                ctx.violation("C18:jobmap-raised-on-destination-only-key", f"run {ri}: jobmap raised KeyError; keys only in the destination: {only}", tag)
            elif scen["mode"] == "vector" and rec["raised"] == "AttributeError":
                ctx.violation("C18:vectorised-rerun-raised", f"run {ri}: vectorised jobmap with cached outputs raised AttributeError: {rec.get('trace', '')[-160:]}", tag)
            else:
                ctx.violation("C18:jobmap-raised", f"run {ri}: jobmap raised {rec['raised']}: {rec.get('trace', '')[-200:]}", tag)
            return
        squat = [j for j, kind in r.get("damage", []) if kind == "dir"]
        if squat:
            # a directory squats the output path: the runner cannot write there, so nothing can be stored; the call must still
            # finish (checked above) and must try the job again — the rest of such a history is outside the model
            todo_jobs = {j for it in items if it["key"] not in dest for j in job_names(it)}
            for j in squat:
                if j in todo_jobs and j not in rec["executed"]:
                    ctx.violation("C18:invalid-cache-reused", f"run {ri}: job {j} (a directory in place of its output file) was not executed", tag)
            return
        executed = rec["executed"]
        if len(set(executed)) != len(executed):
            ctx.violation("C18:job-executed-twice", f"run {ri}: executed {executed}", tag)
        ex = set(executed)
        todo = [it for it in items if it["key"] not in dest]
        todo_jobs = {j for it in todo for j in job_names(it)}
        extra = ex - todo_jobs
        if extra:
            ctx.violation("C18:executed-item-already-in-destination", f"run {ri}: executed {sorted(extra)} although their items are in the destination (or not in the source)", tag)
        for j in sorted(todo_jobs):
            valid = j in cache and cache[j][0] == 0 and (not r.get("strict", True) or last_tag.get(j) == full_tag(r))
            if valid and j in ex:
                ctx.violation("C18:valid-cache-not-reused", f"run {ri}: job {j} has a cached successful output for the same input and was executed again", tag)
            if not valid and j not in ex:
                why = "no cache" if j not in cache else ("failed run" if cache[j][0] != 0 else "different input")
                ctx.violation("C18:invalid-cache-reused", f"run {ri}: job {j} was not executed although its cache is unusable ({why})", tag)
            elif j not in ex and attempts.get(j) and not truly_succeeded(scen["plans"].get(j, "S"), attempts[j]):
                ctx.violation("C18:failed-run-output-reused",
                              f"run {ri}: job {j} was not executed again although its latest run (attempt {attempts[j]}, plan {scen['plans'].get(j, 'S')}) "
                              f"did not succeed; the cache file records exit code {cache[j][0]}", tag)
        for j in ex:
            last_tag[j] = full_tag(r)
        cache = {j: tuple(v) for j, v in rec["cache"].items() if v[0] != "unreadable"}
        attempts = dict(rec["attempts"])
        # what was executed is the input prepared for THIS call (its arguments), and its record says how it really ended
        for j in sorted(ex):
            plan, att = scen["plans"].get(j, "S"), attempts.get(j, 0)
            want_payload = f"{j}:{full_tag(r)}:{att}"
            if j in cache and cache[j][1] is not None and cache[j][1] != want_payload:
                ctx.violation("C18:executed-input-not-prepared-with-current-arguments",
                              f"run {ri}: job {j} was executed with arguments {full_tag(r)!r} (attempt {att}) but its output {cache[j][1]!r} comes from another input", tag)
            if j in cache and (cache[j][0] == 0) != truly_succeeded(plan, att):
                ctx.violation("C18:recorded-exit-code-wrong",
                              f"run {ri}: job {j} (plan {plan}, attempt {att}) {'succeeded' if truly_succeeded(plan, att) else 'did not succeed'} "
                              f"but its cache file records exit code {cache[j][0]}", tag)
        # destination
        for k, v in dest.items():
            if rec["dest"].get(k) != v:
                ctx.violation("C18:destination-entry-changed", f"run {ri}: entry {k!r} was {v!r}, now {rec['dest'].get(k)!r}", tag)
        for it in todo:
            k = it["key"]
            ents = [cache.get(j) for j in job_names(it)]
            ok = all(e is not None and e[0] == 0 and e[1] is not None for e in ents)
            if k in rec["dest"] and not ok:
                ctx.violation("C18:failed-item-stored", f"run {ri}: item {k!r} is in the destination although its outputs are {ents}", tag)
            elif k not in rec["dest"] and ok:
                ctx.violation("C18:succeeded-item-not-stored", f"run {ri}: item {k!r} succeeded ({ents}) but is not in the destination", tag)
            elif k in rec["dest"] and ok:
                want = full_tag(r) + "|" + ",".join(e[1] for e in ents)
                if rec["dest"][k] != want:
                    ctx.violation("C18:stored-result-wrong", f"run {ri}: item {k!r} stored {rec['dest'][k]!r}, processed result is {want!r}", tag)
            if k in rec["dest"] and r.get("strict", True):
                # whatever the cache files say: a result stored by this call is computed from this call's arguments, and
                # from executions that really succeeded
                body = (rec["dest"][k] or "").split("|", 1)[-1]
                for j, pay in zip(job_names(it), body.split(",")):
                    parts = pay.rsplit(":", 2)
                    if len(parts) != 3 or parts[0] != j or parts[1] != full_tag(r):
                        ctx.violation("C18:stored-result-from-other-arguments",
                                      f"run {ri} (arguments {full_tag(r)!r}): item {k!r} stored {rec['dest'][k]!r} — the part for job {j!r} was not computed from this call's input", tag)
                        break
                    if not truly_succeeded(scen["plans"].get(j, "S"), int(parts[2])):
                        ctx.violation("C18:failed-item-stored",
                                      f"run {ri}: item {k!r} stored {rec['dest'][k]!r} although attempt {parts[2]} of job {j!r} (plan {scen['plans'].get(j, 'S')}) did not succeed", tag)
                        break
        foreign = set(rec["dest"]) - set(dest) - src_keys
        if foreign:
            ctx.violation("C18:foreign-key-stored", f"run {ri}: keys {sorted(foreign)} appeared in the destination", tag)
        if rec["scratch_residue"]:
            ctx.violation("C18:scratch-residue", f"run {ri}: {rec['scratch_residue']}", tag)
        dest = dict(rec["dest"])


def load_corpus():
    d = common.VERIF / "corpus" / "C18"
    out = []
    if d.is_dir():
        for p in sorted(d.glob("*.json")):
            obj = json.loads(p.read_text())
            out.extend(obj if isinstance(obj, list) else [obj])
    return out


def run(ctx):
    ctx.rule = ("histories of 2..4 jobmap runs over 3..5 source items whose keys are drawn from a pool of awkward library keys (dots, several "
                "dots, leading/trailing dots, stems/prefixes of each other, `.out`/`.inp` endings, spaces, non-ASCII); single jobs (MoleculeLibrary) or vectorised jobs with 1..3 "
                "sub-jobs per item (ConformerLibrary); per-job plans S / F3 / W4 (file written, then exit 4) / K9, K15 (file written, then killed by that signal) / N2,5 / N3,2 (succeed from "
                "the n-th attempt) / O (return file omitted); 2 of 5 jobs have 2..3 commands with one plan each (compute + tolerant collect step, "
                "failure followed by commands that would succeed, …); job shapes: result in a returned file or on stdout with return_files None / (), "
                "envars None / {} / set, files None / {} / present; destinations pre-populated with source keys and destination-only keys; "
                "argument tag changed between runs with probability 1/4, arguments that change exactly one field of the prepared inputs "
                "(envars / files / return_files / one command) 1/3, cache outputs made unreadable before a run (empty, torn at four positions, garbage, "
                "wrong msgpack type / keys) 1/3, non-strict hash check 1/8, the destination replaced by a new empty "
                "one (cache directory kept) before a later run with probability 1/3 (single) / 1/6 (vectorised). Non-trivial: some job does not "
                "simply succeed, or the destination is pre-populated, or the arguments change. Distinct by canonical history.")
    ctx.assumptions += [
        "each job executes in its own `_molli_run` process (C17); the scripted commands are `sh -c` scripts keyed by the job name",
        "job names of different items are distinct (source keys are unique, `<key>.<i>` does not collide with a key)",
        "SHA3 input hashes are compared by the code; the model abstracts them to (job, argument tag) — equal iff the prepared inputs are equal",
        "a runner process that dies without writing its output file is outside the model",
    ]
    ctx.proof(props=["Molli.Props.C18"], gen=[])
    corpus = [c for c in load_corpus() if c.get("section") == "history"]
    n = 8 if ctx.quick() else 120
    scens = corpus + [gen_history(ctx.rng, ctx.quick()) for _ in range(n)]
    workers = 6 if ctx.quick() else 8
    results = [None] * len(scens)
    with ThreadPoolExecutor(max_workers=workers) as ex:
        futs = {ex.submit(run_child, ctx, s, i): i for i, s in enumerate(scens)}
        for f, i in futs.items():
            results[i] = f.result()
    lines = []
    walls = []
    for s, res in zip(scens, results):
        ctx.check_deadline()
        nontrivial = bool(s["plans"]) or bool(s["pre_dest"]) or len({r["tag"] for r in s["runs"]}) > 1
        ctx.case(json.dumps(s, sort_keys=True), nontrivial=nontrivial)
        ctx.count(f"history-mode:{s['mode']}")
        ctx.count(f"history-runs={len(s['runs'])}")
        ctx.count(f"history-items={len(s['items'])}")
        for p in s["plans"].values():
            ctx.count(f"plan:{p}" if ";" not in p else "plan:multi-command")
            if ";" in p:
                ctx.count("plan-multi:" + ("fails-then-later-command-would-succeed" if not command_outcome(p.split(";")[0], 1)[0] and p.split(";")[-1] == "S" else "other"))
        ctx.count(f"job-shape:{s.get('shape', 'file')}/envars-{s.get('envars', 'none')}/files-{s.get('files', 'xyz')}")
        if any(p["key"] == "zz_only" or p["key"] not in {it['key'] for it in s['items']} for p in s["pre_dest"]):
            ctx.count("history-destination-only-key")
        if len({r["tag"] for r in s["runs"]}) > 1:
            ctx.count("history-argument-change")
        for r in s["runs"]:
            if r.get("var"):
                ctx.count("history-arguments-change-one-field:" + r["var"].rstrip("0123456789"))
            for _j, kind in r.get("damage", []):
                ctx.count(f"history-damaged-cache-output:{kind}")
        if any(r.get("reset_dest") for r in s["runs"]):
            ctx.count("history-destination-replaced-by-empty-one")
        if res.get("timeout"):
            ctx.violation("C18:jobmap-hung", "the history did not finish within the hard timeout (a lock that is never released?)", {"history": s})
            continue
        if "crash" in res:
            ctx.disagree("the child process running the history failed", s, res["crash"], "history result")
            continue
        walls.append(res["wall"])
        ctx.count("jobs-executed", sum(len(r["executed"]) for r in res["runs"]))
        normalise(s, res)
        oracle(ctx, s, res)
        if not any(kind == "dir" for r in s["runs"] for _j, kind in r.get("damage", [])):
            lines.append((model_line(s), observed_line(s, res), s))
        ctx.sample({"history": {k: s[k] for k in ("mode", "plans", "pre_dest", "runs")},
                    "executed_per_run": [r["executed"] for r in res["runs"]],
                    "dest_after": res["runs"][-1]["dest"] if res["runs"] else None}, limit=3)
    outs = ctx.driver([l[0] for l in lines])
    for (ml_, obs, s), mo in zip(lines, outs):
        if mo != obs:
            mr, orr = mo.split(" | "), obs.split(" | ")
            k = next((i for i, (a, b) in enumerate(zip(mr, orr)) if a != b), min(len(mr), len(orr)))
            ctx.disagree("jobmap history differs from the model", {"history": s, "first_differing_run": k},
                         orr[k] if k < len(orr) else "(missing)", mr[k] if k < len(mr) else "(missing)")
    ctx.extra_cov["histories"] = len(scens)
    if walls:
        ctx.extra_cov["history_wall_s_max"] = round(max(walls), 1)


def replay(ctx, path):
    obj = json.loads(Path(path).read_text())
    print(json.dumps(obj, indent=1)[:3000])
    r = obj.get("replay") or {}
    s = r.get("history")
    if s:
        res = run_child(ctx, s, 0)
        print("observed on the real code:")
        for rec in res.get("runs", []):
            print("  ", json.dumps({k: rec[k] for k in ("tag", "raised", "executed", "dest", "cache")})[:600])
        print("model:", ctx.driver([model_line(s)])[0])
    return 0
