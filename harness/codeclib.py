"""
Shared pieces of the C01 check (library round trip):

  tokens        canonical text form of msgpack data-model values and of molecule / ensemble
                records (the language the Lean driver `C01` speaks); floats are IEEE bit patterns
  snapshot_*    record of a live Molecule / ConformerEnsemble through public accessors only
  build_*       a live object from a record, through the public constructors only
  store/load    real MoleculeLibrary / ConformerLibrary sessions in a scratch directory, raw stored
                value read with UKVFile + msgpack; every session under a hard timeout
  probe_schemas wire orders of the real serialisers and decoders by sentinel probing
  gen_*         random records (every element incl. Unknown, dummies, every enum member, None/empty
                labels, isotopes, negative charges, NaN / +-0 / inf coordinates, 0 atoms, 0 bonds,
                0..k conformers, nested attribute trees)
  compare       the model-free field-by-field oracle
"""
from __future__ import annotations

import copy
import math
import os
import signal
import struct
from contextlib import contextmanager
from pathlib import Path

AFIELDS = ["element", "isotope", "label", "atype", "stereo", "geom", "formal_charge", "formal_spin", "attrib"]
BFIELDS = ["a1", "a2", "label", "btype", "stereo", "f_order", "attrib"]
TFIELDS = ["name", "n_conformers", "n_atoms", "n_bonds", "charge", "mult", "atoms", "bonds", "coords", "weights",
           "atomic_charges", "attrib", "skip", "other"]
SESSION_TIMEOUT = 60.0


class HardTimeout(Exception):
    pass


@contextmanager
def hard_timeout(seconds: float, what: str = ""):
    """a molli session that blocks on a lock never returns by itself (D06): bound it with SIGALRM"""
    def _raise(signum, frame):
        raise HardTimeout(f"hard timeout after {seconds}s: {what}")
    old = signal.signal(signal.SIGALRM, _raise)
    signal.setitimer(signal.ITIMER_REAL, seconds)
    try:
        yield
    finally:
        signal.setitimer(signal.ITIMER_REAL, 0)
        signal.signal(signal.SIGALRM, old)


# --------------------------------------------------------------------------------------
# tokens
# --------------------------------------------------------------------------------------
def f64_bits(x: float) -> int:
    return struct.unpack(">Q", struct.pack(">d", float(x)))[0]


def bits_f64(b: int) -> float:
    return struct.unpack(">d", struct.pack(">Q", b))[0]


def f32_bits_of_f64(x: float) -> int:
    """numpy's astype('>f4') on one value (C conversion, NaN payload kept by the hardware)"""
    import numpy as np
    return int(np.array([x], dtype=np.float64).astype(">f4").view(">u4")[0])


def hexs(b: bytes) -> str:
    return b.hex() if b else "-"


def tok(v, out: list):
    """tokens of one data-model value (typed: bool/int/float and list/tuple are told apart)"""
    import numpy as np
    if v is None:
        out.append("n")
    elif isinstance(v, (bool, np.bool_)):
        out.append("t" if v else "f")
    elif isinstance(v, (int, np.integer)):
        out.append(f"i{int(v)}")
    elif isinstance(v, (float, np.floating)):
        out.append("d%016x" % f64_bits(float(v)))
    elif isinstance(v, str):
        out.append("s" + hexs(v.encode("utf8", "surrogatepass")))
    elif isinstance(v, (bytes, bytearray)):
        out.append("b" + hexs(bytes(v)))
    elif isinstance(v, list):
        out.append(f"L{len(v)}")
        for x in v:
            tok(x, out)
    elif isinstance(v, tuple):
        out.append(f"T{len(v)}")
        for x in v:
            tok(x, out)
    elif isinstance(v, dict):
        out.append(f"M{len(v)}")
        for k, x in v.items():
            tok(k, out)
            tok(x, out)
    else:
        raise TypeError(f"not a msgpack data-model value: {type(v).__name__}")
    return out


def toks(v) -> list:
    return tok(v, [])


def untok(ts: list, i: int = 0):
    """inverse of tok: (value, next index)"""
    t = ts[i]
    c, r = t[0], t[1:]
    if c == "n":
        return None, i + 1
    if c == "t":
        return True, i + 1
    if c == "f":
        return False, i + 1
    if c == "i":
        return int(r), i + 1
    if c == "d":
        return bits_f64(int(r, 16)), i + 1
    if c == "e":
        return struct.unpack(">f", struct.pack(">I", int(r, 16)))[0], i + 1
    if c == "s":
        return (b"" if r == "-" else bytes.fromhex(r)).decode("utf8", "surrogatepass"), i + 1
    if c == "b":
        return (b"" if r == "-" else bytes.fromhex(r)), i + 1
    if c in "LT":
        n, i, xs = int(r), i + 1, []
        for _ in range(n):
            x, i = untok(ts, i)
            xs.append(x)
        return (xs if c == "L" else tuple(xs)), i
    if c == "M":
        n, i, d = int(r), i + 1, {}
        for _ in range(n):
            k, i = untok(ts, i)
            x, i = untok(ts, i)
            d[k] = x
        return d, i
    raise ValueError(f"bad token {t!r}")


def fx(xs) -> list:
    """X<k> + k float64 bit patterns"""
    xs = [float(x) for x in xs]
    return [f"X{len(xs)}"] + ["%016x" % f64_bits(x) for x in xs]


def record_tokens(rec: dict) -> list:
    """canonical tokens of a molecule ('mol') / ensemble ('ens') record"""
    out = []
    for f in ("name", "charge", "mult", "attrib"):
        tok(rec[f], out)
    out.append(f"A{len(rec['atoms'])}")
    for a in rec["atoms"]:
        for v in a:
            tok(v, out)
    out.append(f"B{len(rec['bonds'])}")
    for b in rec["bonds"]:
        for v in b:
            tok(v, out)
    if rec["kind"] == "mol":
        out.append(f"R{len(rec['coords'])}")
        for r in rec["coords"]:
            out += fx(r)
        out += fx(rec["charges"])
    else:
        out.append(f"Q{len(rec['coords'])}")
        for c in rec["coords"]:
            out.append(f"R{len(c)}")
            for r in c:
                out += fx(r)
        out += fx(rec["weights"])
        out.append(f"R{len(rec['charges'])}")
        for q in rec["charges"]:
            out += fx(q)
    return out


def record_from_tokens(kind: str, ts: list) -> dict:
    rec = {"kind": kind}
    i = 0
    for f in ("name", "charge", "mult", "attrib"):
        rec[f], i = untok(ts, i)

    def many(prefix, width, i):
        assert ts[i][0] == prefix, (prefix, ts[i])
        n, i, rows = int(ts[i][1:]), i + 1, []
        for _ in range(n):
            row = []
            for _ in range(width):
                v, i = untok(ts, i)
                row.append(v)
            rows.append(row)
        return rows, i

    def xs(i):
        assert ts[i][0] == "X", ts[i]
        n = int(ts[i][1:])
        return [bits_f64(int(t, 16)) for t in ts[i + 1:i + 1 + n]], i + 1 + n

    def rows(i):
        assert ts[i][0] == "R", ts[i]
        n, i, out = int(ts[i][1:]), i + 1, []
        for _ in range(n):
            r, i = xs(i)
            out.append(r)
        return out, i

    rec["atoms"], i = many("A", len(AFIELDS), i)
    rec["bonds"], i = many("B", len(BFIELDS), i)
    if kind == "mol":
        rec["coords"], i = rows(i)
        rec["charges"], i = xs(i)
    else:
        assert ts[i][0] == "Q", ts[i]
        n, i, cs = int(ts[i][1:]), i + 1, []
        for _ in range(n):
            c, i = rows(i)
            cs.append(c)
        rec["coords"] = cs
        rec["weights"], i = xs(i)
        rec["charges"], i = rows(i)
    assert i == len(ts), (i, len(ts))
    return rec


def canon_nan(ts: list) -> list:
    """all NaN bit patterns are one value for the comparison (payloads are hardware business)"""
    out = []
    for t in ts:
        if len(t) == 17 and t[0] == "d":
            b = int(t[1:], 16)
            if (b >> 52) & 0x7FF == 0x7FF and b & ((1 << 52) - 1):
                t = "d7ff8000000000000"
        elif len(t) == 16 and all(c in "0123456789abcdef" for c in t):
            b = int(t, 16)
            if (b >> 52) & 0x7FF == 0x7FF and b & ((1 << 52) - 1):
                t = "7ff8000000000000"
        out.append(t)
    return out


def canon_bin_nan(ts: list) -> list:
    """float32 NaNs inside byte strings whose length is a multiple of four (wire arrays)"""
    out = []
    for t in ts:
        if t[0] == "b" and t != "b-" and (len(t) - 1) % 8 == 0:
            b = bytes.fromhex(t[1:])
            ws = []
            for k in range(0, len(b), 4):
                w = int.from_bytes(b[k:k + 4], "big")
                if (w >> 23) & 0xFF == 0xFF and w & ((1 << 23) - 1):
                    w = 0x7FC00000
                ws.append(w.to_bytes(4, "big"))
            t = "b" + b"".join(ws).hex()
        out.append(t)
    return out


def lists_as_tuples(ts: list) -> list:
    return [("T" + t[1:]) if t[0] == "L" else t for t in ts]


# --------------------------------------------------------------------------------------
# live objects <-> records (public API only)
# --------------------------------------------------------------------------------------
def snapshot_atoms_bonds(obj) -> tuple[list, list]:
    atoms = [[getattr(a, f) for f in AFIELDS] for a in obj.atoms]
    idx = {id(a): i for i, a in enumerate(obj.atoms)}
    bonds = []
    for b in obj.bonds:
        bonds.append([idx.get(id(b.a1), -1), idx.get(id(b.a2), -1)] + [getattr(b, f) for f in BFIELDS[2:]])
    return atoms, bonds


def snapshot(obj) -> dict:
    import numpy as np
    import molli as ml
    atoms, bonds = snapshot_atoms_bonds(obj)
    rec = {"name": obj.name, "charge": obj.charge, "mult": obj.mult, "attrib": obj.attrib, "atoms": atoms, "bonds": bonds}
    if isinstance(obj, ml.ConformerEnsemble):
        rec["kind"] = "ens"
        c = np.asarray(obj.coords)
        rec["shape"] = {"coords": list(c.shape), "weights": list(np.shape(obj.weights)),
                        "charges": list(np.shape(obj.atomic_charges))}
        rec["coords"] = [[[float(x) for x in r] for r in conf] for conf in c.tolist()] if c.ndim == 3 else c.tolist()
        rec["weights"] = [float(x) for x in np.asarray(obj.weights).ravel().tolist()]
        q = np.asarray(obj.atomic_charges)
        rec["charges"] = [[float(x) for x in r] for r in q.tolist()] if q.ndim == 2 else [q.ravel().tolist()]
    else:
        rec["kind"] = "mol"
        c = np.asarray(obj.coords)
        rec["shape"] = {"coords": list(c.shape), "charges": list(np.shape(obj.atomic_charges))}
        rec["coords"] = [[float(x) for x in r] for r in c.tolist()] if c.ndim == 2 else c.tolist()
        rec["charges"] = [float(x) for x in np.asarray(obj.atomic_charges).ravel().tolist()]
    return rec


def _mk_atoms(rec):
    from molli.chem import Atom
    return [Atom(**dict(zip(AFIELDS, a))) for a in rec["atoms"]]


def _connect(obj, atoms, rec):
    """the bond SEQUENCE of the record, one bond object per entry: the first bond of a pair of atoms through `connect`,
    every further bond of the same pair (parallel bonds, either orientation) and every self-bond through `Bond` + `append_bond`
    (a structure is a multigraph: nothing in the API merges bonds)"""
    from molli.chem import Bond
    seen = set()
    for b in rec["bonds"]:
        pair = frozenset((b[0], b[1]))
        kw = dict(zip(BFIELDS[2:], b[2:]))
        if pair in seen or b[0] == b[1]:
            obj.append_bond(Bond(atoms[b[0]], atoms[b[1]], **kw))
        else:
            obj.connect(atoms[b[0]], atoms[b[1]], **kw)
        seen.add(pair)
    if len(obj.bonds) != len(rec["bonds"]):
        raise RuntimeError(f"the public API built {len(obj.bonds)} bonds out of {len(rec['bonds'])}")


def build(rec: dict):
    """a live object holding exactly the record (constructed through the public API)"""
    import numpy as np
    import molli as ml
    atoms = _mk_atoms(rec)
    na = len(atoms)
    if rec["kind"] == "mol":
        m = ml.Molecule(atoms, name=rec["name"], charge=rec["charge"], mult=rec["mult"],
                        coords=np.array(rec["coords"], dtype=float).reshape((na, 3)),
                        atomic_charges=np.array(rec["charges"], dtype=float).reshape((na,)))
        m.attrib = rec["attrib"]
        _connect(m, atoms, rec)
        return m
    nc = len(rec["coords"])
    e = ml.ConformerEnsemble(atoms if na else None, n_conformers=nc, n_atoms=na, name=rec["name"],
                             charge=rec["charge"], mult=rec["mult"],
                             coords=np.array(rec["coords"], dtype=float).reshape((nc, na, 3)),
                             weights=np.array(rec["weights"], dtype=float).reshape((nc,)),
                             atomic_charges=np.array(rec["charges"], dtype=float).reshape((nc, na)))
    e.attrib = rec["attrib"]
    _connect(e, atoms, rec)
    return e


# provenance of the object that is stored: the same record, reached through different public constructions
HOWS = {
    "mol": ["plain", "reparented", "shallow", "shallow-orphan", "copy-ctor", "conformer", "substructure-copy", "edited"],
    "ens": ["plain", "reparented", "shallow", "shallow-orphan", "copy-ctor", "from-molecules"],
}


def build_variant(rec: dict, how: str):
    """(object to store, objects that must stay alive until it is stored).  All through the public API:
      plain             the constructors of `build`
      reparented        afterwards ANOTHER molecule is built from the very same Atom objects in reversed order
                        (copy_atoms is False by default), so every atom's parent is that other object
      shallow           copy.copy(obj), the source stays alive
      shallow-orphan    copy.copy(obj), the source is deleted and collected (atoms' parent reference is dead)
      copy-ctor         Molecule(obj) / ConformerEnsemble(obj), the source is collected
      conformer         (mol) row 1 of a two-conformer ensemble, stored as a molecule
      substructure-copy (mol) Molecule(Substructure(bigger molecule, first atoms))
      edited            (mol) built with an extra first atom bonded to the next one, then del_atom(extra): indices shift
      from-molecules    (ens) ConformerEnsemble([molecule per conformer]), then another molecule re-parents its atoms
    The record that counts is snapshot(object)."""
    import copy
    import gc
    import numpy as np
    import molli as ml
    kind = rec["kind"]
    if how == "plain":
        return build(rec), []
    if how == "reparented":
        o = build(rec)
        n = len(o.atoms)
        other = ml.Molecule(list(reversed(o.atoms)), name="other", coords=np.zeros((n, 3)))
        for i in range(n - 1):
            other.connect(i, i + 1)
        return o, [other]
    if how == "shallow":
        src = build(rec)
        return copy.copy(src), [src]
    if how == "shallow-orphan":
        src = build(rec)
        o = copy.copy(src)
        del src
        gc.collect()
        return o, []
    if how == "copy-ctor":
        src = build(rec)
        o = ml.Molecule(src) if kind == "mol" else ml.ConformerEnsemble(src)
        del src
        gc.collect()
        return o, []
    if how == "conformer" and kind == "mol":
        na = len(rec["atoms"])
        e = build({**rec, "kind": "ens", "coords": [[[0.0] * 3 for _ in range(na)], rec["coords"]],
                   "weights": [1.0, 1.0], "charges": [[0.0] * na, rec["charges"]]})
        return e[1], [e]
    if how == "substructure-copy" and kind == "mol":
        big = build(rec)
        k = max(1, (2 * len(big.atoms)) // 3) if big.atoms else 0
        o = ml.Molecule(ml.Substructure(big, list(range(k))))
        return o, [big]
    if how == "edited" and kind == "mol":
        r2 = copy.deepcopy(rec)
        r2["atoms"].insert(0, [6, None, "extra", 1, 0, 0, 0, 0, {}])
        r2["bonds"] = [[b[0] + 1, b[1] + 1] + b[2:] for b in r2["bonds"]]
        if len(r2["atoms"]) > 1:
            r2["bonds"].insert(0, [0, 1, None, 1, 0, 1.0, {}])
        r2["coords"].insert(0, [9.0, 9.0, 9.0])
        r2["charges"].insert(0, 0.5)
        o = build(r2)
        o.del_atom(o.atoms[0])
        return o, []
    if how == "from-molecules" and kind == "ens" and rec["coords"]:
        mols = []
        for c, q in zip(rec["coords"], rec["charges"]):
            mols.append(build({**rec, "kind": "mol", "coords": c, "charges": q}))
        o = ml.ConformerEnsemble(mols)
        o.weights = np.array(rec["weights"], dtype=float)
        n = len(o.atoms)
        other = ml.Molecule(list(reversed(o.atoms)), name="other", coords=np.zeros((n, 3)))
        return o, [other, mols]
    return build(rec), []


# --------------------------------------------------------------------------------------
# real library sessions
# --------------------------------------------------------------------------------------
V1_MAGIC = b"ML10Library"


def lib_class(kind: str):
    import molli as ml
    return ml.MoleculeLibrary if kind == "mol" else ml.ConformerLibrary


def new_library_file(kind: str, path: Path, version: int):
    """an empty library file of the wanted encoding version, made through the public constructor
    (the version of an existing file is decided by its header magic)"""
    if path.exists():
        path.unlink()
    with hard_timeout(SESSION_TIMEOUT, "create library"):
        if version == 1:
            lib_class(kind)(path, readonly=False, h1=V1_MAGIC)
        else:
            lib_class(kind)(path, readonly=False)


def store(kind: str, path: Path, items: list):
    """items: [(key, object)] written in ONE writing() session; returns {key: exception} for failed puts"""
    errs = {}
    with hard_timeout(SESSION_TIMEOUT + 0.05 * len(items), "writing session"):
        lib = lib_class(kind)(path, readonly=False)
        with lib.writing(timeout=SESSION_TIMEOUT):
            for k, o in items:
                try:
                    lib[k] = o
                except HardTimeout:
                    raise
                except Exception as e:  # noqa: BLE001
                    errs[k] = e
    return errs


def file_keys(path: Path) -> list:
    """the keys the file itself holds (UKVFile, no library object involved)"""
    from molli.storage.ukvfile import UKVFile
    with UKVFile(path, mode="r") as f:
        return sorted(k.decode() for k in f.keys())


def run_multi(libs: list, events: list):
    """several libraries on DIFFERENT paths in one process, their sessions overlapping in time.
       libs   = [(kind, path, version, bufsize, {key: object})]
       events = [("open", li) | ("close", li) | ("put", li, key) | ("get", li, key) | ("keys", li)]
    Returns the observations [(event index, event, result)]: result = deep-copied snapshot of the object read / sorted key
    list / None / the exception raised."""
    objs = []
    for kind, path, version, bufsize, _ in libs:
        new_library_file(kind, path, version)
    obs, cms = [], {}
    with hard_timeout(SESSION_TIMEOUT + 0.1 * len(events), "several libraries"):
        handles = [lib_class(kind)(path, readonly=False, bufsize=bufsize) for kind, path, version, bufsize, _ in libs]
        try:
            for n, ev in enumerate(events):
                op, li = ev[0], ev[1]
                try:
                    if op == "open":
                        cms[li] = handles[li].writing(timeout=SESSION_TIMEOUT)
                        cms[li].__enter__()
                        res = None
                    elif op == "close":
                        cm = cms.pop(li)
                        cm.__exit__(None, None, None)
                        res = None
                    elif op == "put":
                        handles[li][ev[2]] = libs[li][4][ev[2]]
                        res = None
                    elif op == "get":
                        res = copy.deepcopy(snapshot(handles[li][ev[2]]))
                    else:
                        res = sorted(handles[li].keys())
                except HardTimeout:
                    raise
                except Exception as e:  # noqa: BLE001
                    res = e
                obs.append((n, ev, res))
        finally:
            for li, cm in list(cms.items()):
                try:
                    cm.__exit__(None, None, None)
                except HardTimeout:
                    raise
                except Exception as e:  # noqa: BLE001
                    obs.append((len(events), ("close", li), e))
    return obs


def run_iteration(kind: str, path: Path, version: int, items: dict, how: str, plan: dict, bufsize: int, in_writing: bool):
    """a library holding `items` ({key: object}) is iterated - how = 'items' | 'keys' (for k in lib.keys(): lib[k]) |
    'iter' (for k in lib: lib[k]) | 'values' - and between two steps other entries are looked up by key:
    plan = {step number: [keys to look up after that step]}.
    Returns ([(yielded key | None, snapshot | exception)], [(step, key, snapshot | exception)])."""
    new_library_file(kind, path, version)
    yielded, lookups = [], []

    def snap(f):
        try:
            return copy.deepcopy(snapshot(f()))
        except HardTimeout:
            raise
        except Exception as e:  # noqa: BLE001
            return e

    with hard_timeout(SESSION_TIMEOUT + 0.1 * len(items), "iteration"):
        lib = lib_class(kind)(path, readonly=False, bufsize=bufsize)
        keys = list(items)
        half = len(keys) // 2 if in_writing else len(keys)
        with lib.writing(timeout=SESSION_TIMEOUT):
            for k in keys[:half]:
                lib[k] = items[k]
        with (lib.writing(timeout=SESSION_TIMEOUT) if in_writing else lib.reading(timeout=SESSION_TIMEOUT)):
            for k in keys[half:]:
                lib[k] = items[k]          # (writing session) some records may still wait in the write queue
            try:
                if how == "items":
                    it = iter(lib.items())
                elif how == "values":
                    it = iter(lib.values())
                elif how == "iter":
                    it = iter(lib)
                else:
                    it = iter(list(lib.keys()))
                step = 0
                while True:
                    try:
                        x = next(it)
                    except StopIteration:
                        break
                    if how == "items":
                        k, o = x
                        yielded.append((k, snap(lambda: o)))
                    elif how == "values":
                        yielded.append((None, snap(lambda: x)))
                    else:
                        yielded.append((x, snap(lambda: lib[x])))
                    for lk in plan.get(step, []):
                        lookups.append((step, lk, snap(lambda: lib[lk])))
                    step += 1
            except HardTimeout:
                raise
            except Exception as e:  # noqa: BLE001
                yielded.append((None, e))
    return yielded, lookups


def raw_bytes(path: Path, keys: list) -> dict:
    """the stored bytes per key (UKVFile.get)"""
    from molli.storage.ukvfile import UKVFile
    out = {}
    with UKVFile(path, mode="r") as f:
        listed = set(f.keys())
        for k in keys:
            kb = k.encode()
            if kb in listed:
                out[k] = bytes(f.get(kb))
    return out


def raw_values(path: Path, keys: list) -> dict:
    """the stored wire value per key: UKVFile.get + msgpack (tuples, any map key)"""
    import msgpack
    return {k: msgpack.loads(b, use_list=False, strict_map_key=False) for k, b in raw_bytes(path, keys).items()}


def load(kind: str, path: Path, keys: list) -> dict:
    """{key: object | exception} read in ONE reading() session through lib[key]"""
    out = {}
    with hard_timeout(SESSION_TIMEOUT + 0.05 * len(keys), "reading session"):
        lib = lib_class(kind)(path)
        with lib.reading(timeout=SESSION_TIMEOUT):
            listed = set(lib.keys())
            for k in keys:
                if k not in listed:
                    out[k] = KeyError(k)
                    continue
                try:
                    out[k] = lib[k]
                except HardTimeout:
                    raise
                except Exception as e:  # noqa: BLE001
                    out[k] = e
    return out


def mutate_in_place(obj):
    """the caller edits an object it got from the library: name, charge, multiplicity, attributes, coordinates, partial
    charges, weights, first atom (label, isotope, attributes), first bond (type, order, label) - all through public attributes"""
    edits = [
        lambda: setattr(obj, "name", "edited"),
        lambda: setattr(obj, "charge", (obj.charge or 0) + 3),
        lambda: setattr(obj, "mult", (obj.mult or 1) + 1),
        lambda: obj.attrib.__setitem__("tag", "edited"),
        lambda: obj.coords.__setitem__(Ellipsis, 99.0),
        lambda: obj.atomic_charges.__setitem__(Ellipsis, -7.0),
        lambda: obj.weights.__setitem__(Ellipsis, 5.0),
        lambda: setattr(obj.atoms[0], "label", "XX"),
        lambda: setattr(obj.atoms[0], "isotope", 99),
        lambda: obj.atoms[0].attrib.__setitem__("tag", "edited"),
        lambda: setattr(obj.bonds[0], "btype", 3 if int(obj.bonds[0].btype) != 3 else 2),
        lambda: setattr(obj.bonds[0], "f_order", 7.5),
        lambda: setattr(obj.bonds[0], "label", "YY"),
    ]
    for e in edits:
        try:
            e()
        except Exception:  # noqa: BLE001   (no weights on a molecule, no atoms, no bonds ...)
            pass


def load_twice(kind: str, path: Path, keys: list):
    """every key is read, the object returned is recorded (snapshot) and then EDITED IN PLACE by the caller, and the key is
    read again from the same library object in the same reading() session; the last key is, after another caller-side
    edit, read a third time in a second reading() session of the same object.
    Returns ({key: snapshot of the first read | exception}, {key: object of the latest read | exception})."""
    firsts, out = {}, {}
    with hard_timeout(SESSION_TIMEOUT + 0.1 * len(keys), "reading sessions"):
        lib = lib_class(kind)(path)
        last = None
        with lib.reading(timeout=SESSION_TIMEOUT):
            listed = set(lib.keys())
            for k in keys:
                if k not in listed:
                    firsts[k] = out[k] = KeyError(k)
                    continue
                try:
                    o1 = lib[k]
                    firsts[k] = copy.deepcopy(snapshot(o1))     # a record of its own: the object is edited next
                    mutate_in_place(o1)
                    out[k] = lib[k]
                    last = k
                except HardTimeout:
                    raise
                except Exception as e:  # noqa: BLE001
                    firsts.setdefault(k, e)
                    out[k] = e
        if last is not None and not isinstance(out[last], Exception):
            mutate_in_place(out[last])
            with lib.reading(timeout=SESSION_TIMEOUT):
                try:
                    out[last] = lib[last]
                except HardTimeout:
                    raise
                except Exception as e:  # noqa: BLE001
                    out[last] = e
    return firsts, out


def run_script(kind: str, path: Path, version: int, objs: list, script: list, bufsize: int):
    """ONE long-lived library object goes through the sessions of `script`:
         script = [(mode, [(op, i), ...]), ...]   mode 'w' = writing(), 'r' = reading(); op 'put' | 'get' | 'edit' | 'keys'
       record i is stored under key f"k{i}".  Returns the observations [(session, position, op, i, result)]
       (result: the object read / sorted key list / None for a put / the exception raised)."""
    new_library_file(kind, path, version)
    obs = []
    got = {}
    n_ops = sum(len(ops) for _, ops in script)
    with hard_timeout(SESSION_TIMEOUT + 0.1 * n_ops, "mixed sessions"):
        lib = lib_class(kind)(path, readonly=False, bufsize=bufsize)
        for si, (mode, ops) in enumerate(script):
            try:
                with (lib.writing(timeout=SESSION_TIMEOUT) if mode == "w" else lib.reading(timeout=SESSION_TIMEOUT)):
                    for oi, (op, i) in enumerate(ops):
                        try:
                            if op == "put":
                                lib[f"k{i}"] = objs[i]
                                res = None
                            elif op == "get":
                                got[i] = lib[f"k{i}"]
                                res = copy.deepcopy(snapshot(got[i]))   # what this read returned, recorded before the caller edits it
                            elif op == "edit":
                                # the caller edits, in place, the object its latest read of k{i} returned;
                                # the observation of that read was taken (snapshot) before
                                res = None
                                if i in got:
                                    mutate_in_place(got[i])
                            else:
                                res = sorted(lib.keys())
                        except HardTimeout:
                            raise
                        except Exception as e:  # noqa: BLE001
                            res = e
                        obs.append((si, oi, op, i, res))
            except HardTimeout:
                raise
            except Exception as e:  # noqa: BLE001   (raised by entering / leaving the session, e.g. the flush)
                obs.append((si, len(ops), "session", -1, e))
    return obs


def put_raw(path: Path, version: int, kind: str, items: list):
    """a library file whose records are the given wire tuples (decoder probing)"""
    import msgpack
    from molli.storage.ukvfile import UKVFile
    if path.exists():
        path.unlink()
    new_library_file(kind, path, version)
    with UKVFile(path, mode="a") as f:
        for k, w in items:
            f.put(k.encode(), msgpack.dumps(w))


# --------------------------------------------------------------------------------------
# the model-free oracle: field by field
# --------------------------------------------------------------------------------------
def _feq(a: float, b: float) -> bool:
    return (a == b and math.copysign(1, a) == math.copysign(1, b)) or (a != a and b != b)


def _f32eq(a: float, b: float) -> bool:
    x, y = f32_bits_of_f64(a), f32_bits_of_f64(b)
    isnan = lambda w: (w >> 23) & 0xFF == 0xFF and w & ((1 << 23) - 1)  # noqa: E731
    return x == y or (isnan(x) and isnan(y))


def _flat(x):
    if isinstance(x, (list, tuple)):
        for y in x:
            yield from _flat(y)
    else:
        yield x


def _shape(x):
    s = []
    while isinstance(x, (list, tuple)):
        s.append(len(x))
        x = x[0] if x else None
    return s


def has_list(v) -> bool:
    if isinstance(v, list):
        return True
    if isinstance(v, tuple):
        return any(has_list(x) for x in v)
    if isinstance(v, dict):
        return any(has_list(k) or has_list(x) for k, x in v.items())
    return False


def has_float(v) -> bool:
    if isinstance(v, float):
        return True
    if isinstance(v, (list, tuple)):
        return any(has_float(x) for x in v)
    if isinstance(v, dict):
        return any(has_float(k) or has_float(x) for k, x in v.items())
    return False


def has_nonstr_key(v) -> bool:
    if isinstance(v, (list, tuple)):
        return any(has_nonstr_key(x) for x in v)
    if isinstance(v, dict):
        return any((not isinstance(k, str)) or has_nonstr_key(x) for k, x in v.items())
    return False


def _narrow(a: float) -> float:
    import numpy as np
    with np.errstate(all="ignore"):
        return float(np.float32(a))


def _narrowed(a, b) -> bool:
    """b is a with every float pushed through float32 (and lists possibly turned into tuples)"""
    if isinstance(a, float) and isinstance(b, float):
        return _feq(_narrow(a), b) or _feq(a, b)
    if isinstance(a, (list, tuple)) and isinstance(b, (list, tuple)):
        return len(a) == len(b) and all(_narrowed(x, y) for x, y in zip(a, b))
    if isinstance(a, dict) and isinstance(b, dict):
        ka, kb = list(a.items()), list(b.items())
        return len(ka) == len(kb) and all(_narrowed(k1, k2) and _narrowed(v1, v2) for (k1, v1), (k2, v2) in zip(ka, kb))
    return type(a) is type(b) and a == b


def value_diff(a, b):
    """None if typed-equal (NaN == NaN, -0.0 != 0.0, bool != int, list != tuple) else a class:
    'list->tuple' (equal modulo msgpack's single array type), 'float32' (floats narrowed), 'other'"""
    ta, tb = canon_nan(toks(a)), canon_nan(toks(b))
    if ta == tb:
        return None
    if lists_as_tuples(ta) == tb:
        return "list->tuple"
    try:
        if _narrowed(a, b):
            return "float32"
    except Exception:  # noqa: BLE001
        pass
    return "other"


def compare(inp: dict, back: dict) -> list:
    """differences between what was stored and what was read back, as (kind-suffix, description).
    Discrete fields typed-exact; float arrays to single precision; shapes and counts exact."""
    out = []

    def attr(where, a, b):
        d = value_diff(a, b)
        if d == "list->tuple":
            out.append(("list-read-back-as-tuple", f"{where}: a list came back as a tuple"))
        elif d == "float32":
            out.append(("float-narrowed-to-single", f"{where}: a Python float came back rounded to float32"))
        elif d:
            out.append(("attribute-changed", f"{where}: {a!r} -> {b!r}"))

    def scalar(where, a, b, kind="field-changed"):
        d = value_diff(a, b)
        if d == "float32":
            out.append(("float-narrowed-to-single", f"{where}: {a!r} -> {b!r}"))
        elif d:
            out.append((kind, f"{where}: {a!r} -> {b!r}"))

    if inp["kind"] != back["kind"]:
        out.append(("field-changed", f"class changed {inp['kind']} -> {back['kind']}"))
        return out
    scalar("name", inp["name"], back["name"])
    scalar("charge", inp["charge"], back["charge"])
    scalar("mult", inp["mult"], back["mult"])
    attr("attrib", inp["attrib"], back["attrib"])
    if len(inp["atoms"]) != len(back["atoms"]):
        out.append(("atom-count-changed", f"n_atoms {len(inp['atoms'])} -> {len(back['atoms'])}"))
    for i, (a, b) in enumerate(zip(inp["atoms"], back["atoms"])):
        for f, x, y in zip(AFIELDS, a, b):
            (attr if f == "attrib" else scalar)(f"atom[{i}].{f}", x, y)
    if len(inp["bonds"]) != len(back["bonds"]):
        # the sequences cannot be aligned any more: say which bonds (endpoints, label) are gone / new, not a cascade of field diffs
        ends = lambda bs: [(b[0], b[1], b[2]) for b in bs]  # noqa: E731
        gone = list(ends(inp["bonds"]))
        for x in ends(back["bonds"]):
            if x in gone:
                gone.remove(x)
        out.append(("bond-count-changed", f"n_bonds {len(inp['bonds'])} -> {len(back['bonds'])}; missing (a1, a2, label): {gone[:4]}"))
    for i, (a, b) in enumerate(zip(inp["bonds"], back["bonds"]) if len(inp["bonds"]) == len(back["bonds"]) else []):
        for f, x, y in zip(BFIELDS, a, b):
            if f == "attrib":
                attr(f"bond[{i}].attrib", x, y)
            elif f in ("a1", "a2"):
                scalar(f"bond[{i}].{f}", x, y, "bond-endpoint-changed")
            else:
                scalar(f"bond[{i}].{f}", x, y)
    names = ("coords", "charges") + (("weights",) if inp["kind"] == "ens" else ())
    for nm in names:
        if inp["shape"][nm.replace("charges", "charges")] != back["shape"][nm]:
            out.append(("shape-changed", f"{nm} shape {inp['shape'][nm]} -> {back['shape'][nm]}"))
            continue
        xs, ys = list(_flat(inp[nm])), list(_flat(back[nm]))
        bad = [(k, x, y) for k, (x, y) in enumerate(zip(xs, ys)) if not _f32eq(x, y)]
        if len(xs) != len(ys) or bad:
            out.append(("array-changed", f"{nm}: differs beyond single precision at {bad[:3]}"))
    return out
