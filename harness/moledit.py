"""
Real-code side of property C05: runs edit histories on real molli Molecule / Structure objects,
numbers every object the way the Lean model does (harness-made atoms `e<n>`, library-made atoms and
all bonds by the molecule's serial counter), snapshots the molecule through public accessors after
every step in the driver's canonical form, and evaluates the model-free oracle of the property
(reference keyed by Python object identity).

Op descriptors (JSON-able lists), the unit of generation and replay:
  ["add", "e7", elem, label|None, [x,y,z], charge|None]      mol.add_atom(Atom(elem,label=..), xyz[, charge])
  ["readd", ref_id, [x,y,z], charge|None]                   mol.add_atom(<known atom object>, ...)   (member -> error; deleted -> re-added)
  ["addbad", "e7", elem, label|None[, shape]]               mol.add_atom(atom, <coordinate that is not of shape (3,)>)   shape: len2 len4 scalar row k0 k2 k3 col nested
  ["newbad", elem, shape]                                   mol.new_atom(elem, coord=<the same>)
  any op may end with "+spelled": every optional argument of the call is written out as its documented default
  (add_atom(…, charge=None), new_atom(…, isotope=None), connect(…, label=None), remove_substituent(…, ap_label=None));
  without it the optional arguments are omitted where the op allows
  ["clone", "shallow"|"deepcopy"|"pickle"|"ctor", "keep"|"drop"]   copy.copy(mol) | copy.deepcopy(mol) | pickle round trip | type(mol)(mol); the copy is kept
                                                            alive or dropped and garbage-collected — the molecule under edit must not notice
  ["setq", n, "array"|"list"|"f32"]                         mol.atomic_charges = <array of the caller>, which the caller then overwrites in place
  ["setc", n]                                               mol.coords = <array of the caller>, overwritten afterwards
  ["scribble"]                                              in-place writes to every array the molecule was built from / given (the clone source's coords and
                                                            charges, the ensemble's arrays, keyword arrays of the constructor, arrays assigned earlier)
  ["vedit", k, what, n]                                     an edit THROUGH views[k]: delbond-own | delbond-parent | append-parentbond | append-new |
                                                            append-foreign | connect | delatom | addatom | addh
  ["new", elem, label|None, [x,y,z]]                        mol.new_atom(elem, label=.., coord=..)
  ["del", ref]                                              mol.del_atom(ref)
  ["con", ref, ref]                                         mol.connect(ref, ref)
  ["bond", end, end]                                        mol.append_bond(Bond(x, y))
  ["bonds", [[end, end], ...]]                              mol.append_bonds(...)
  ["delb", bid]                                             mol.del_bond(<bond object bid>)
  ["rmsub", ref, ref, label|None]                           mol.remove_substituent(ref, ref, ap_label=..)
  ["addh", [atom ids] | None]                               mol.add_implicit_hydrogens(*atoms)
  ["newbonds", [[end, end], ...], [i, j, ...], "many"|"extend", None|"other"]
                                                            new Bond objects b_k = Bond(end, end) (parent None, or first appended to ANOTHER molecule),
                                                            then mol.append_bonds(b_i, b_j, …) | mol.extend_bonds([b_i, b_j, …]) — the index list may
                                                            name an object twice or three times, adjacent or not
  ["rebond", [bids], "one"|"many"|"extend"]                 mol.append_bond(b) | mol.append_bonds(*bs) | mol.extend_bonds(bs) with bond OBJECTS that exist
                                                            already (stale handles: bonds deleted earlier; also bonds still in the molecule)
  ["mkview", [refs], "sub"|"cls"|"heavy"]                   mol.substructure(refs) | Substructure(mol, refs) | mol.heavy   (a view that is KEPT)
  ["vread", k]                                              views[k].coords        (the k-th view made so far, whatever happened to the molecule since)
  ["vwrite", k, "assign"|"translate"|"scale"|"transform", seed]   views[k].coords = X | .translate(v) | .scale(f) | .transform(P)
  ref = "@<atomid>" | "#<int>" | "L<label string>" | "E<Z>"
  end = "<known atom id>" | ["e7", elem, label|None] (fresh free atom) | ["e7", elem, label|None, "stolen"] (atom of another molecule)
"""
from __future__ import annotations

import math
import struct
import warnings

import numpy as np


def bad_coord(shape: str):
    """coordinate arguments that are not ONE position"""
    return {"len2": [1.0, 2.0], "len4": [1.0, 2.0, 3.0, 4.0], "scalar": 5.0, "row": np.array([[1.0, 2.0, 3.0]]),
            "k0": np.zeros((0, 3)), "k2": np.array([[1.0, 2.0, 3.0], [4.0, 5.0, 6.0]]), "k3": np.ones((3, 3)),
            "col": np.array([[1.0], [2.0], [3.0]]), "nested": [[1.0, 2.0, 3.0]], "empty": []}[shape]


BAD_SHAPES = ["len2", "len4", "scalar", "row", "k0", "k2", "k3", "col", "nested", "empty"]


def _bits(x) -> str:
    x = float(x)
    if math.isnan(x):
        return "nan"
    return struct.pack(">d", x).hex()


class Runner:
    def __init__(self, kind: str, start: str):
        import molli as ml

        self.ml = ml
        self.kind = kind  # "m" | "s"
        self.start = start
        self.cls = ml.Molecule if kind == "m" else ml.Structure
        self.coord_codes = {("nan", "nan", "nan"): 0}
        self.code_vals = {0: (float("nan"),) * 3}
        self.views = []                       # [(Substructure, [atom objects])]
        self.alias = []                       # arrays of the caller / of the source the molecule must not depend on
        self.charge_codes = {_bits(0.0): 0}
        self.label_codes: dict[str, int] = {}
        self.atom_ids: dict[int, str] = {}   # id(obj) -> "e3" / "o5"
        self.atom_objs: dict[str, object] = {}
        self.bond_ids: dict[int, int] = {}
        self.bond_objs: dict[int, object] = {}
        self.given: dict[int, tuple] = {}    # id(atom) -> (coord code, charge code)   [the identity-keyed reference]
        self.keep = []                        # keeps foreign molecules alive (weak parents)
        self.mol = self._make_start(start)
        self.next = 0
        self.init_token = self._register_start()

    # ------------------------------------------------------------------ start states
    def _make_start(self, start: str):
        ml = self.ml
        if start == "empty":
            return self.cls()
        if start in ("file", "clone"):
            m = self.cls.load_mol2(ml.files.dendrobine_mol2)
            if start == "clone":
                src = m
                self.keep.append(src)
                m = self.cls(src)
        elif start == "small":
            # C(-H)(-O-H): 4 atoms, labelled, chain C0-O1-H2, C0-H3
            m = self.cls(n_atoms=4)
            for a, (e, l) in zip(m.atoms, [("C", "C0"), ("O", "O1"), ("H", "H2"), ("H", "H3")]):
                a.element = e
                a.label = l
            m.coords = np.array([[0.0, 0.0, 0.0], [1.0, 0.0, 0.0], [2.0, 1.0, 0.0], [-1.0, 0.0, 1.0]])
            m.connect(0, 1)
            m.connect(1, 2)
            m.connect(0, 3)
        elif start in ("clonesrc", "clonekw", "fromconf"):
            # the molecule is built FROM arrays that stay with somebody else, who writes to them later (op "scribble")
            if start == "fromconf":
                ens = ml.ConformerEnsemble.load_mol2(ml.files.pentane_confs_mol2)
                ens.atomic_charges = np.array([[0.125 * (i + 1) + c for i in range(ens.n_atoms)] for c in range(ens.n_conformers)])
                self.keep.append(ens)
                m = self.cls(ens[1])
                self.alias += [ens.atomic_charges, ens.coords]
            else:
                src = self.cls.load_mol2(ml.files.dendrobine_mol2)
                if self.kind == "m":
                    src.atomic_charges = np.array([0.125 * (i + 1) for i in range(src.n_atoms)])
                self.keep.append(src)
                if start == "clonesrc":
                    m = self.cls(src)
                    self.alias += [src.coords] + ([src.atomic_charges] if self.kind == "m" else [])
                else:
                    carr = np.array(src.coords) + 0.5
                    qarr = np.array([0.25 * (i + 1) for i in range(src.n_atoms)], dtype=np.float64)
                    m = self.cls(src, coords=carr, atomic_charges=qarr) if self.kind == "m" else self.cls(src, coords=carr)
                    self.alias += [carr, qarr, src.coords]
            return m
        else:
            raise ValueError(start)
        if self.kind == "m":
            # charges "given" by position: distinct values so that a misalignment is visible
            m.atomic_charges = np.array([0.125 * (i + 1) for i in range(m.n_atoms)])
        return m

    def _register_start(self) -> str:
        m = self.mol
        n = m.n_atoms
        atoms_tok = []
        coords = np.asarray(m.coords)
        for i, a in enumerate(m.atoms):
            self._reg_atom(a, f"o{i}")
            cc = self.coord_code(coords[i])
            qc = self.charge_code(m.atomic_charges[i]) if self.kind == "m" else 0
            self.given[id(a)] = (cc, qc)
            atoms_tok.append(f"{int(a.element)}:{self.label_tok(a.label)}:{cc}:{qc}")
        bonds_tok = []
        pos = {id(a): i for i, a in enumerate(m.atoms)}
        for j, b in enumerate(m.bonds):
            self._reg_bond(b, n + j)
            bonds_tok.append(f"{pos[id(b.a1)]}-{pos[id(b.a2)]}")
        self.next = n + len(m.bonds)
        return f"init {self.kind} {','.join(atoms_tok) or '-'} {','.join(bonds_tok) or '-'}"

    # ------------------------------------------------------------------ interning
    def coord_code(self, row) -> int:
        key = tuple(_bits(x) for x in row)
        if key not in self.coord_codes:
            self.coord_codes[key] = len(self.coord_codes)
            self.code_vals[self.coord_codes[key]] = tuple(float(x) for x in row)
        return self.coord_codes[key]

    def charge_code(self, q) -> int:
        key = _bits(q)
        if key not in self.charge_codes:
            self.charge_codes[key] = len(self.charge_codes)
        return self.charge_codes[key]

    def label_tok(self, l) -> str:
        if l is None:
            return "-"
        if l not in self.label_codes:
            self.label_codes[l] = len(self.label_codes) + 1
        return str(self.label_codes[l])

    def _reg_atom(self, a, aid: str):
        self.keep.append(a)
        self.atom_ids[id(a)] = aid
        self.atom_objs[aid] = a

    def _reg_bond(self, b, bid: int):
        self.keep.append(b)
        self.bond_ids[id(b)] = bid
        self.bond_objs[bid] = b

    def spec_tok(self, a) -> str:
        return f"{self.atom_ids[id(a)]}:{int(a.element)}:{self.label_tok(a.label)}"

    # ------------------------------------------------------------------ refs
    def ref_py(self, ref: str):
        ml = self.ml
        k, v = ref[0], ref[1:]
        if k == "@":
            return self.atom_objs[v]
        if k == "#":
            return int(v)
        if k == "L":
            return v
        if k == "E":
            return ml.Element(int(v))
        raise ValueError(ref)

    def ref_tok(self, ref: str) -> str:
        if ref[0] == "L":
            return "L" + self.label_tok(ref[1:])
        return ref

    def ref_expected(self, ref: str, atoms_before):
        """independent resolution of the atom a reference addresses (None = nothing addressed)"""
        k, v = ref[0], ref[1:]
        if k == "@":
            o = self.atom_objs[v]
            return o if any(o is a for a in atoms_before) else None
        if k == "#":
            i = int(v)
            n = len(atoms_before)
            if self.kind == "m":
                return atoms_before[i] if 0 <= i < n else None
            return atoms_before[i] if -n <= i < n else None
        if k == "L":
            return next((a for a in atoms_before if a.label == v), None)
        if k == "E":
            return next((a for a in atoms_before if int(a.element) == int(v)), None)

    def _end(self, e):
        """an endpoint of a new bond: known atom id, or a fresh atom (free or owned by another molecule)"""
        ml = self.ml
        if isinstance(e, str):
            return self.atom_objs[e], False
        aid, elem, label = e[0], e[1], e[2]
        if aid in self.atom_objs:
            return self.atom_objs[aid], False
        a = ml.Atom(ml.Element(elem), label=label)
        if len(e) > 3 and e[3] == "stolen":
            other = self.cls()
            other.add_atom(a, [9.0, 9.0, 9.0])
            self.keep.append(other)
        self._reg_atom(a, aid)
        return a, True

    # ------------------------------------------------------------------ one step
    def apply(self, op: list):
        """returns (driver token, 'ok'|'err', snapshot dict, violations [(kind, what)])"""
        ml, m = self.ml, self.mol
        spelled = isinstance(op[-1], str) and op[-1] == "+spelled"
        if isinstance(op[-1], str) and op[-1] in ("+spelled", "+omitted"):
            op = op[:-1]
        kind = op[0]
        atoms_before = list(m.atoms)
        bonds_before = list(m.bonds)
        nxt = self.next
        viol: list[tuple[str, str]] = []
        self.extra = None
        out = "ok"
        token = None
        adopted = []
        try:
            with warnings.catch_warnings():
                warnings.simplefilter("ignore")
                np_err = np.seterr(all="ignore")
                try:
                    if kind == "add":
                        _, aid, elem, label, xyz, q = op
                        a = ml.Atom(ml.Element(elem), label=label)
                        self._reg_atom(a, aid)
                        cc = self.coord_code(xyz)
                        token = f"add {self.spec_tok(a)} {cc} {'-' if q is None else self.charge_code(q)}"
                        pend = (id(a), (cc, self.charge_code(0.0 if q is None else q)))
                        if self.kind == "m" and q is not None:
                            m.add_atom(a, list(xyz), q)
                        elif self.kind == "m" and spelled:
                            m.add_atom(a, list(xyz), charge=None)
                        else:
                            m.add_atom(a, list(xyz))
                        self.given[pend[0]] = pend[1]
                    elif kind == "readd":
                        _, aid, xyz, q = op
                        a = self.atom_objs[aid]
                        cc = self.coord_code(xyz)
                        token = f"add {self.spec_tok(a)} {cc} {'-' if q is None else self.charge_code(q)}"
                        if self.kind == "m" and q is not None:
                            m.add_atom(a, list(xyz), q)
                        elif self.kind == "m" and spelled:
                            m.add_atom(a, list(xyz), None)
                        else:
                            m.add_atom(a, list(xyz))
                        self.given[id(a)] = (cc, self.charge_code(0.0 if q is None else q))
                    elif kind == "addbad":
                        aid, elem, label = op[1], op[2], op[3]
                        shape = op[4] if len(op) > 4 else "len2"
                        a = ml.Atom(ml.Element(elem), label=label)
                        self._reg_atom(a, aid)
                        token = f"addbad {self.spec_tok(a)}"
                        if self.kind == "m" and spelled:
                            m.add_atom(a, bad_coord(shape), charge=None)
                        else:
                            m.add_atom(a, bad_coord(shape))
                    elif kind == "newbad":
                        # the atom object is made inside new_atom and never seen: a throw-away identity for the model
                        token = f"addbad e{900000 + nxt}:{op[1]}:-"
                        ret = m.new_atom(ml.Element(op[1]), coord=bad_coord(op[2]))
                        self._reg_atom(ret, f"e{900000 + nxt}")     # accepted: the atom is in the molecule now
                    elif kind == "new":
                        _, elem, label, xyz = op
                        self.next += 1
                        cc = self.coord_code(xyz)
                        token = f"new {elem} {self.label_tok(label)} {cc}"
                        if spelled:
                            a = m.new_atom(ml.Element(elem), isotope=None, label=label, coord=list(xyz))
                        elif label is None:
                            a = m.new_atom(ml.Element(elem), coord=list(xyz))
                        else:
                            a = m.new_atom(ml.Element(elem), label=label, coord=list(xyz))
                        self._reg_atom(a, f"o{nxt}")
                        self.given[id(a)] = (cc, 0)
                    elif kind == "del":
                        token = f"del {self.ref_tok(op[1])}"
                        m.del_atom(self.ref_py(op[1]))
                    elif kind == "con":
                        self.next += 1
                        token = f"con {self.ref_tok(op[1])} {self.ref_tok(op[2])}"
                        if spelled:
                            b = m.connect(self.ref_py(op[1]), self.ref_py(op[2]), label=None)
                        else:
                            b = m.connect(self.ref_py(op[1]), self.ref_py(op[2]))
                        self._reg_bond(b, nxt)
                    elif kind == "bond":
                        self.next += 1
                        x, fx = self._end(op[1])
                        y, fy = self._end(op[2])
                        token = f"bond {self.spec_tok(x)} {self.spec_tok(y)}"
                        b = ml.Bond(x, y)
                        self._reg_bond(b, nxt)
                        adopted = [z for z in (x, y) if not any(z is a for a in atoms_before)]
                        m.append_bond(b)
                    elif kind == "bonds":
                        pairs = []
                        for ex, ey in op[1]:
                            x, _ = self._end(ex)
                            y, _ = self._end(ey)
                            pairs.append((x, y))
                        self.next += len(pairs)
                        token = "bonds " + (",".join(f"{self.spec_tok(x)}+{self.spec_tok(y)}" for x, y in pairs) or "-")
                        bs = []
                        for k, (x, y) in enumerate(pairs):
                            b = ml.Bond(x, y)
                            self._reg_bond(b, nxt + k)
                            bs.append(b)
                            for z in (x, y):
                                if not any(z is a for a in atoms_before) and not any(z is a for a in adopted):
                                    adopted.append(z)
                        m.append_bonds(*bs)
                    elif kind == "delb":
                        token = f"delb {op[1]}"
                        m.del_bond(self.bond_objs[op[1]])
                    elif kind == "rmsub":
                        self.next += 2
                        token = f"rmsub {self.ref_tok(op[1])} {self.ref_tok(op[2])} {self.label_tok(op[3])}"
                        a2 = self.ref_expected(op[2], atoms_before)
                        c2 = self.given.get(id(a2), (None, None))[0] if a2 is not None else None
                        try:
                            if op[3] is None and not spelled:
                                m.remove_substituent(self.ref_py(op[1]), self.ref_py(op[2]))
                            else:
                                m.remove_substituent(self.ref_py(op[1]), self.ref_py(op[2]), ap_label=op[3])
                        finally:
                            new_atoms = [a for a in m.atoms if id(a) not in self.atom_ids]
                            new_bonds = [b for b in m.bonds if id(b) not in self.bond_ids]
                            if len(new_atoms) == 1:
                                self._reg_atom(new_atoms[0], f"o{nxt}")
                                self.given[id(new_atoms[0])] = (c2, 0)
                            if len(new_bonds) == 1:
                                self._reg_bond(new_bonds[0], nxt + 1)
                    elif kind == "addh":
                        targets = op[1]
                        try:
                            if targets is None:
                                m.add_implicit_hydrogens()
                            else:
                                m.add_implicit_hydrogens(*[self.atom_objs[t] for t in targets])
                        finally:
                            new_atoms = [a for a in m.atoms if id(a) not in self.atom_ids]
                            new_bonds = [b for b in m.bonds if id(b) not in self.bond_ids]
                            hs = []
                            coords = np.asarray(m.coords)
                            pos = {id(a): i for i, a in enumerate(m.atoms)}
                            for k, h in enumerate(new_atoms):
                                self._reg_atom(h, f"o{nxt + 2 * k}")
                                i = pos[id(h)]
                                cc = self.coord_code(coords[i]) if i < len(coords) else 0
                                self.given[id(h)] = (cc, 0)
                                partner = None
                                for b in new_bonds:
                                    if b.a2 is h or b.a1 is h:
                                        partner = b.a1 if b.a2 is h else b.a2
                                        self._reg_bond(b, nxt + 2 * k + 1)
                                        break
                                if partner is None:
                                    viol.append(("C05:hydrogen-not-bonded", f"hydrogen {self.atom_ids[id(h)]} was added without a bond"))
                                    hs.append(f"e999999:{cc}")
                                else:
                                    hs.append(f"{self.atom_ids.get(id(partner), 'e999999')}:{cc}")
                            self.next += 2 * len(new_atoms)
                            token = "addh " + (",".join(hs) or "-")
                    elif kind == "newbonds":
                        _, ends, pattern, how, own = op
                        accepted = len(set(pattern)) == len(pattern)   # the model's rule: an object named twice -> whole call refused
                        objs = []
                        for k, (ex, ey) in enumerate(ends):
                            x, _ = self._end(ex)
                            y, _ = self._end(ey)
                            b = ml.Bond(x, y)
                            self.keep.append(b)
                            if accepted:
                                self._reg_bond(b, nxt + k)   # only an accepted call consumes the serial numbers
                            objs.append(b)
                        token = "rebonds " + (",".join(
                            f"{nxt + i}+{self.spec_tok(objs[i].a1)}+{self.spec_tok(objs[i].a2)}" for i in pattern) or "-")
                        if accepted:
                            self.next += len(ends)
                        if own == "other":
                            other = self.cls()
                            for b in objs:
                                other.append_bond(b)       # the bonds (and their ends, all free atoms) now belong to another molecule
                            self.keep.append(other)
                        for i in pattern:
                            for z in (objs[i].a1, objs[i].a2):
                                if not any(z is a for a in atoms_before) and not any(z is a for a in adopted):
                                    adopted.append(z)
                        call = [objs[i] for i in pattern]
                        if how == "many":
                            m.append_bonds(*call)
                        else:
                            m.extend_bonds(call)
                    elif kind == "rebond":
                        bids, how = op[1], op[2]
                        bs = [self.bond_objs[b] for b in bids]
                        if how == "one":
                            token = f"rebond {bids[0]} {self.spec_tok(bs[0].a1)} {self.spec_tok(bs[0].a2)}"
                        else:
                            token = "rebonds " + (",".join(f"{b}+{self.spec_tok(o.a1)}+{self.spec_tok(o.a2)}" for b, o in zip(bids, bs)) or "-")
                        for o in bs:
                            for z in (o.a1, o.a2):
                                if not any(z is a for a in atoms_before) and not any(z is a for a in adopted):
                                    adopted.append(z)
                        if how == "one":
                            m.append_bond(bs[0])
                        elif how == "many":
                            m.append_bonds(*bs)
                        else:
                            m.extend_bonds(list(bs))
                    elif kind == "mkview":
                        refs, how = op[1], op[2]
                        if how == "heavy":
                            refs = ["@" + self.atom_ids[id(a)] for a in m.atoms if int(a.element) != 1]
                        token = "mkview " + (",".join(self.ref_tok(r) for r in refs) or "-")
                        self.extra = "none"
                        if how == "heavy":
                            v = m.heavy
                        elif how == "cls":
                            v = ml.Substructure(m, [self.ref_py(r) for r in refs])
                        else:
                            v = m.substructure([self.ref_py(r) for r in refs])
                        self.views.append((v, list(v.atoms)))
                        self.extra = ",".join(self.atom_ids.get(id(a), "?") for a in v.atoms)
                    elif kind == "clone":
                        import copy as _copy
                        import gc
                        import pickle as _pickle
                        token = "vlocal"
                        route, keepit = op[1], op[2]
                        c = (_copy.copy(m) if route == "shallow" else _copy.deepcopy(m) if route == "deepcopy" else
                             _pickle.loads(_pickle.dumps(m)) if route == "pickle" else type(m)(m))
                        if keepit == "keep":
                            self.keep.append(c)
                        else:
                            del c          # no reference cycles (parents are weak references): the copy is gone at once
                    elif kind == "scribble":
                        token = "vlocal"
                        for arr in self.alias:
                            arr[...] = arr + 1000.0
                    elif kind == "setq":
                        n_at = m.n_atoms
                        vals = [0.03125 * (op[1] % 97 + 1) + i for i in range(n_at)]
                        token = "setq " + (",".join(str(self.charge_code(np.float32(x) if op[2] == "f32" else x)) for x in vals) or "-")
                        arr = vals if op[2] == "list" else np.array(vals, dtype=np.float32 if op[2] == "f32" else np.float64)
                        m.atomic_charges = arr
                        newq = [self.charge_code(np.float32(x) if op[2] == "f32" else x) for x in vals]
                        if not isinstance(arr, list):
                            arr[...] = -999.0          # the caller re-uses its array
                            self.alias.append(arr)
                        for a, qc in zip(list(m.atoms), newq):
                            if id(a) in self.given:
                                self.given[id(a)] = (self.given[id(a)][0], qc)
                    elif kind == "setc":
                        n_at = m.n_atoms
                        new = np.array([[2000.0 + op[1] + k, 0.5 * k, -1.0 - k] for k in range(n_at)], dtype=np.float64).reshape(n_at, 3)
                        codes = [self.coord_code(r) for r in new]
                        token = ("vwrite " + (",".join(self.atom_ids[id(a)] for a in m.atoms) or "-") + " " + (",".join(map(str, codes)) or "-"))
                        m.coords = new
                        new[...] = -999.0
                        self.alias.append(new)
                        for a, cc in zip(list(m.atoms), codes):
                            if id(a) in self.given:
                                self.given[id(a)] = (cc, self.given[id(a)][1])
                    elif kind == "vedit":
                        v, vatoms = self.views[op[1]]
                        what, nn = op[2], op[3]
                        token = "vlocal"
                        try:
                            if what == "delbond-own":
                                v.del_bond(v.bonds[nn % len(v.bonds)])
                            elif what == "delbond-parent":
                                cand = [b for b in m.bonds if not any(b is x for x in v.bonds)]
                                v.del_bond(cand[nn % len(cand)])
                            elif what == "append-parentbond":
                                v.append_bond(m.bonds[nn % len(m.bonds)])
                            elif what == "append-new":
                                nb = ml.Bond(v.atoms[nn % len(v.atoms)], v.atoms[(nn // 3) % len(v.atoms)])
                                self.keep.append(nb)
                                v.append_bond(nb)
                            elif what == "append-foreign":
                                fa = ml.Atom("C")
                                self._reg_atom(fa, f"e{800000 + len(self.keep)}")
                                v.append_bond(ml.Bond(v.atoms[nn % len(v.atoms)], fa))
                            elif what == "connect":
                                self.keep.append(v.connect(0, len(v.atoms) - 1))
                            elif what == "delatom":
                                v.del_atom(nn % len(v.atoms))
                            elif what == "addatom":
                                fa = ml.Atom("H")
                                self._reg_atom(fa, f"e{800000 + len(self.keep)}")
                                v.add_atom(fa, [0.0, 0.0, 0.0])
                            else:
                                v.add_implicit_hydrogens()
                        finally:
                            # the view may hold other atoms now (also after a call that raised half way)
                            cur = list(v.atoms)
                            for a in cur:
                                if id(a) not in self.atom_ids:
                                    self._reg_atom(a, f"e{800000 + len(self.keep)}")
                            self.views[op[1]] = (v, cur)
                    elif kind == "vread":
                        v, vatoms = self.views[op[1]]
                        token = "vread " + (",".join(self.atom_ids[id(a)] for a in vatoms) or "-")
                        self.extra = "none"
                        rows = np.asarray(v.coords)
                        self.extra = ",".join(str(self.coord_code(r)) for r in rows)
                        # the property itself: the view shows the rows of its own atoms, by identity
                        want = [self.given.get(id(a), (None,))[0] for a in vatoms]
                        got = [self.coord_code(r) for r in rows]
                        if len(got) != len(want) or any(w is not None and g != w for g, w in zip(got, want)):
                            viol.append(("C05:view-misaligned", f"a Substructure made {len(self.views) - 1 - op[1]} views ago reads rows that are not those of its own atoms"))
                    elif kind == "vwrite":
                        v, vatoms = self.views[op[1]]
                        mode, sd = op[2], op[3]
                        cur = [self.code_vals.get(self.given.get(id(a), (0,))[0] or 0, (0.0, 0.0, 0.0)) for a in vatoms]
                        cur = np.array(cur, dtype=float).reshape(len(vatoms), 3)
                        if mode == "assign":
                            new = np.array([[1000.0 + sd + k, 0.25 * k, -float(sd)] for k in range(len(vatoms))]).reshape(len(vatoms), 3)
                        elif mode == "translate":
                            vec = np.array([float(sd % 7) + 1.0, 0.5, -2.0])
                            new = cur + vec
                        elif mode == "scale":
                            new = cur * 2.0
                        else:
                            P = np.array([[0.0, 1.0, 0.0], [0.0, 0.0, 1.0], [1.0, 0.0, 0.0]])
                            new = cur @ P
                        # expectation by identity: with an atom listed twice the last row written wins
                        newcode = {}
                        for a, r in zip(vatoms, new):
                            newcode[id(a)] = self.coord_code(r)
                        token = ("vwrite " + (",".join(self.atom_ids[id(a)] for a in vatoms) or "-") + " " +
                                 (",".join(str(self.coord_code(r)) for r in new) or "-"))
                        if mode == "assign":
                            v.coords = new
                        elif mode == "translate":
                            v.translate(vec)
                        elif mode == "scale":
                            v.scale(2.0)
                        else:
                            v.transform(P)
                        for a in vatoms:
                            if id(a) in self.given:
                                self.given[id(a)] = (newcode[id(a)], self.given[id(a)][1])
                    else:
                        raise ValueError(f"unknown op {op}")
                finally:
                    np.seterr(**np_err)
        except (Exception, StopIteration) as e:  # noqa: B014  the edit was refused
            out = "err"
            self.err_type = type(e).__name__
        # adopted atoms (arrived with a bond): they were given no position and no charge
        if out == "ok":
            for z in adopted:
                self.given[id(z)] = (0, 0)
        snap = self.snapshot()
        if self.extra is not None:
            snap["X"] = self.extra
        if kind in ("vread", "vwrite"):
            # a view can be used exactly when all the atoms it holds are still in the molecule
            alive = all(any(a is x for x in atoms_before) for a in self.views[op[1]][1])
            if alive and out == "err":
                viol.append(("C05:view-unusable", f"{kind} through a Substructure whose atoms are all in the molecule raised {self.err_type}"))
            if not alive and out == "ok":
                viol.append(("C05:view-of-deleted-atom", f"{kind} through a Substructure holding a deleted atom did not raise"))
        viol += self.oracle(op, out, atoms_before, bonds_before)
        return token, out, snap, viol

    # ------------------------------------------------------------------ snapshot (public accessors only)
    def snapshot(self) -> dict:
        m = self.mol
        A = []
        for a in m.atoms:
            t = self.atom_ids.get(id(a), "?")
            try:
                ok = a.parent is m
            except Exception:
                ok = False
            A.append(t + ("" if ok else "!"))
        coords = np.asarray(m.coords)
        R = [str(self.coord_code(r)) for r in coords] if coords.ndim == 2 and coords.shape[1:] == (3,) else ["shape" + str(coords.shape)]
        Q = []
        if self.kind == "m":
            for q in np.asarray(m.atomic_charges).tolist() if np.asarray(m.atomic_charges).ndim == 1 else ["shape"]:
                if q is None:
                    Q.append("n")
                elif isinstance(q, (int, float)):
                    Q.append(str(self.charge_code(q)))
                else:
                    Q.append("?")
        B = []
        for b in m.bonds:
            try:
                ok = b.parent is m
            except Exception:
                ok = False
            B.append(f"{self.bond_ids.get(id(b), '?')}:{self.atom_ids.get(id(b.a1), '?')}:{self.atom_ids.get(id(b.a2), '?')}" + ("" if ok else "!"))
        return {"A": ",".join(A), "R": ",".join(R), "Q": ",".join(Q), "B": ",".join(B)}

    # ------------------------------------------------------------------ the property itself, keyed by object identity
    def oracle(self, op, out, atoms_before, bonds_before):
        m = self.mol
        v = []
        opn = op[0]
        atoms = list(m.atoms)
        n = len(atoms)
        coords = np.asarray(m.coords)
        if len({id(a) for a in atoms}) != n:
            v.append(("C05:duplicate-atom", f"after {opn}: an atom object occurs twice in mol.atoms"))
        if coords.ndim != 2 or coords.shape != (n, 3):
            v.append(("C05:row-count-mismatch", f"after {opn} ({out}): n_atoms={n} but coords.shape={coords.shape}"))
        else:
            for i, a in enumerate(atoms):
                g = self.given.get(id(a))
                if g is not None and g[0] is not None and self.coord_code(coords[i]) != g[0]:
                    v.append(("C05:coord-misaligned", f"after {opn}: atom {self.atom_ids.get(id(a))} at position {i} no longer has the coordinate it was given"))
                    break
        if self.kind == "m":
            q = np.asarray(m.atomic_charges)
            if q.shape != (n,):
                v.append(("C05:charge-count-mismatch", f"after {opn} ({out}): n_atoms={n} but atomic_charges.shape={q.shape}"))
            if q.dtype.kind not in "fiu":
                v.append(("C05:charge-not-numeric", f"after {opn}: atomic_charges.dtype={q.dtype} (a partial charge is not a number)"))
            elif q.shape == (n,):
                for i, a in enumerate(atoms):
                    g = self.given.get(id(a))
                    if g is not None and self.charge_code(q[i]) != g[1]:
                        v.append(("C05:charge-misaligned", f"after {opn}: atom {self.atom_ids.get(id(a))} at position {i} no longer has the partial charge it was given"))
                        break
        bonds = list(m.bonds)
        if len({id(b) for b in bonds}) != len(bonds):
            v.append(("C05:duplicate-bond", f"after {opn}: a bond object occurs twice in mol.bonds"))
        for b in bonds:
            if not (any(b.a1 is a for a in atoms) and any(b.a2 is a for a in atoms)):
                v.append(("C05:dangling-bond", f"after {opn}: bond {self.bond_ids.get(id(b))} joins an atom that is not in the molecule"))
                break
        for i, a in enumerate(atoms):
            try:
                if a.parent is not m:
                    v.append(("C05:wrong-parent", f"after {opn}: atom {self.atom_ids.get(id(a))}.parent is not the molecule"))
                    break
                if a.idx != i or m.get_atom_index(a) != i or m.index_atom(a) != i:
                    v.append(("C05:wrong-index", f"after {opn}: atom at position {i} reports index {a.idx}"))
                    break
            except Exception as e:
                v.append(("C05:wrong-index", f"after {opn}: atom at position {i}: parent/idx raised {type(e).__name__}"))
                break
        for j, b in enumerate(bonds):
            try:
                if b.parent is not m:
                    v.append(("C05:wrong-parent", f"after {opn}: bond {self.bond_ids.get(id(b))}.parent is not the molecule"))
                    break
                if m.index_bond(b) != j:
                    v.append(("C05:bond-wrong-index", f"after {opn}: bond object at position {j} reports index {m.index_bond(b)}"))
                    break
            except Exception as e:
                v.append(("C05:bond-wrong-index", f"after {opn}: bond at position {j}: parent/index raised {type(e).__name__}"))
                break
        # --- effect of the single edits the property names
        if opn == "del" and out == "ok":
            gone = [a for a in atoms_before if not any(a is x for x in atoms)]
            want = self.ref_expected(op[1], atoms_before)
            if len(gone) != 1 or [a for a in atoms_before if a is not gone[0]] != atoms:
                v.append(("C05:del-atom-wrong-atoms", f"del_atom({op[1]}) removed {len(gone)} atoms or reordered the rest"))
            elif want is not None and gone[0] is not want:
                v.append(("C05:wrong-atom-deleted", f"del_atom({op[1]}) removed {self.atom_ids.get(id(gone[0]))} instead of {self.atom_ids.get(id(want))}"))
            if len(gone) == 1:
                exp = [b for b in bonds_before if b.a1 is not gone[0] and b.a2 is not gone[0]]
                if len(exp) != len(bonds) or any(x is not y for x, y in zip(exp, bonds)):
                    v.append(("C05:del-atom-bonds", f"del_atom({op[1]}) did not delete exactly the bonds of the atom"))
                self.given.pop(id(gone[0]), None)
        if opn == "del" and out == "err":
            if len(atoms) != len(atoms_before) or len(bonds) != len(bonds_before):
                v.append(("C05:failed-delete-changed-molecule", f"del_atom({op[1]}) raised but changed the molecule"))
        if opn == "delb" and out == "ok":
            tgt = self.bond_objs[op[1]]
            exp = [b for b in bonds_before if b is not tgt]
            if len(exp) != len(bonds) or any(x is not y for x, y in zip(exp, bonds)):
                v.append(("C05:wrong-bond-deleted", f"del_bond(bond {op[1]}) removed a different bond object"))
        if opn in ("rmsub",) and out == "ok":
            for a in atoms_before:
                if not any(a is x for x in atoms):
                    self.given.pop(id(a), None)
        if opn in ("addbad", "newbad") and out == "err":
            if len(atoms) != len(atoms_before) or any(x is not y for x, y in zip(atoms, atoms_before)):
                v.append(("C05:refused-add-changed-molecule", f"{opn} ({op[-1]}) raised but changed the atom list"))
        if opn == "vedit":
            if len(atoms) != len(atoms_before) or len(bonds) != len(bonds_before) or \
                    any(x is not y for x, y in zip(atoms, atoms_before)) or any(x is not y for x, y in zip(bonds, bonds_before)):
                v.append(("C05:view-edit-changed-parent-lists", f"{op[2]} through a Substructure changed the atom / bond list of the molecule"))
        if opn in ("newbonds", "rebond") and out == "err":
            if len(bonds) != len(bonds_before) or any(x is not y for x, y in zip(bonds, bonds_before)) or len(atoms) != len(atoms_before):
                v.append(("C05:refused-append-changed-molecule", f"{opn} raised but changed the molecule"))
        if opn in ("con", "bond", "bonds") and out == "ok":
            if bonds[: len(bonds_before)] != bonds_before and any(x is not y for x, y in zip(bonds_before, bonds)):
                v.append(("C05:bond-list-disturbed", f"{opn} changed bonds that already existed"))
        return v


def parse_state(s: str) -> dict:
    d = {}
    for part in s.split("|"):
        k, _, val = part.partition("=")
        d[k] = val
    return d
