"""
C19 — distance kernels and grid descriptors equal their mathematical definition.

Proof:  Molli.Props.C19 (cdist_shape, cdist_entry, cdist_entry_exact, grid_count, grid_mem, grid_order,
        grid_spacing, grid_centred, grid_contained, grid_maximal, nearest_spec, prune_bounds, exact_query_ok,
        aso_def, aso_bounds, aeif_def, ...) about Molli.Model.Grid.
Tie:    (A) molli_xt/distance.cpp of the repository's WORKING TREE is compiled against the pybind11 shim
            (harness/cxt) into a runner; its results are compared bit-wise (≤ 2 ulp) with the same generic
            kernels instantiated at Float32/Float in the Lean driver, and with the exact ℚ instance;
        (B) the pre-built extension is called with non-contiguous / transposed / reversed / mixed-dtype arrays;
        (C) rectangular_grid, (D) nearest_atom_index, (E) prune, (F) aso / aeif of molli/descriptor/gridbased.py
            run in-process on random ensembles and grids and are compared with the driver over ℚ; points whose
            decision lies within a rounding band of a sphere surface / cut-off / tie are flagged *by the driver*
            (band computed exactly) and excluded, as the property says.
Oracle: model-free — plain numpy float64 evaluation of the definitions (brute force over all atoms).
"""
from __future__ import annotations

import json
import math
import struct
import subprocess
from fractions import Fraction
from pathlib import Path

import numpy as np

from harness import common

HERE = Path(__file__).resolve().parent
CXT = HERE / "cxt"
ELEMENTS = ["H", "C", "N", "O", "F", "S", "Cl", "Br", "Si", "P"]


# --------------------------------------------------------------------------------------
# number helpers
# --------------------------------------------------------------------------------------
def f32(x) -> float:
    return float(np.float32(x))


def bits32(x) -> str:
    return struct.pack(">f", x).hex()


def bits64(x) -> str:
    return struct.pack(">d", x).hex()


def from_bits32(h: str) -> float:
    return struct.unpack(">f", bytes.fromhex(h))[0]


def from_bits64(h: str) -> float:
    return struct.unpack(">d", bytes.fromhex(h))[0]


def rat(x) -> str:
    fr = Fraction(float(x))
    return str(fr.numerator) if fr.denominator == 1 else f"{fr.numerator}/{fr.denominator}"


def parse_rat(s: str) -> Fraction:
    return Fraction(s)


def ulp_dist(a_hex: str, b_hex: str) -> int:
    """distance in units of the last place between two IEEE bit patterns of the same width (NaN == NaN)"""
    w = len(a_hex) * 4
    mant = 23 if w == 32 else 52
    sign = 1 << (w - 1)
    inf = ((sign - 1) >> mant) << mant

    def isnan(u):
        return (u & (sign - 1)) > inf

    def key(u):
        return -(u & (sign - 1)) if u & sign else u

    a, b = int(a_hex, 16), int(b_hex, 16)
    if isnan(a) or isnan(b):
        return 0 if (isnan(a) and isnan(b)) else 1 << 40
    return abs(key(a) - key(b))


def pts_tok(arr, num) -> str:
    arr = np.asarray(arr)
    if arr.shape[0] == 0:
        return "-"
    return ",".join(":".join(num(v) for v in p) for p in arr.tolist())


def ens_tok(arr, num) -> str:
    arr = np.asarray(arr)
    if arr.shape[0] == 0:
        return "~"
    return "|".join(pts_tok(c, num) for c in arr)


def nums_tok(lst, num) -> str:
    lst = list(lst)
    return ",".join(num(v) for v in lst) if lst else "-"


# --------------------------------------------------------------------------------------
# (A) kernels of the working tree through the shim runner
# --------------------------------------------------------------------------------------
def build_runner(ctx):
    exe = ctx.scratch / "cdist_runner"
    cmd = ["g++", "-std=c++17", "-O2", "-ffp-contract=off", "-I", str(CXT), "-I", str(common.REPO / "molli_xt"),
           "-o", str(exe), str(CXT / "runner.cpp")]
    try:
        r = subprocess.run(cmd, capture_output=True, text=True, timeout=300)
    except subprocess.TimeoutExpired:
        return None, "g++ timed out"
    if r.returncode != 0:
        return None, (r.stderr or r.stdout)[-1500:]
    return exe, ""


def gen_values(rng, n, ty, cls):
    out = []
    for _ in range(n):
        if cls == "int":
            v = float(rng.range(-6, 6))
        elif cls == "quarter":
            v = rng.range(-40, 40) / 4.0
        elif cls == "unit":
            v = (rng.uniform() * 2 - 1) * 10
        elif cls == "close":
            v = 3.0 + (rng.uniform() * 2 - 1) * 1e-3
        elif cls == "big":
            v = (rng.uniform() * 2 - 1) * (1e4 if ty == "f" else 1e9)
        else:  # tiny
            v = (rng.uniform() * 2 - 1) * 1e-4
        out.append(f32(v) if ty == "f" else v)
    return out


def gen_kernel_case(rng, quick):
    kind = rng.choice([22, 22, 32])
    ty = rng.choice(["f", "d"])
    fn = rng.choice(["eu2", "eu2", "eu"])
    cls = rng.weighted([("unit", 5), ("int", 2), ("quarter", 2), ("close", 2), ("big", 1), ("tiny", 1)])
    hi = 5 if quick else 7
    L1 = rng.weighted([(0, 1), (1, 2)] + [(k, 3) for k in range(2, hi + 1)])
    L2 = rng.weighted([(0, 1), (1, 2)] + [(k, 3) for k in range(2, hi + 1)])
    X = 1 if kind == 22 else rng.weighted([(0, 1), (1, 3), (2, 3), (3, 2)])
    a = gen_values(rng, X * L1 * 3, ty, cls)
    b = gen_values(rng, L2 * 3, ty, cls)
    if rng.chance(1, 6) and L1 and L2 and X:   # a coincident pair (distance exactly 0)
        b[0:3] = a[0:3]
    return {"kind": kind, "ty": ty, "fn": fn, "cls": cls, "X": X, "L1": L1, "L2": L2, "a": a, "b": b}


def numpy_reference(case):
    """plain numpy float64 evaluation of the definition"""
    a = np.array(case["a"], dtype=np.float64).reshape((case["X"], case["L1"], 3))
    b = np.array(case["b"], dtype=np.float64).reshape((case["L2"], 3))
    d = a[:, :, None, :] - b[None, None, :, :]
    r = (d ** 2).sum(-1)
    if case["fn"] == "eu":
        r = np.sqrt(r)
    return r   # shape (X, L1, L2)


def kernel_lines(case):
    bitsf = bits32 if case["ty"] == "f" else bits64
    run_line = " ".join([str(case["kind"]), case["ty"], case["fn"], str(case["X"]), str(case["L1"]), str(case["L2"])]
                        + [bitsf(v) for v in case["a"]] + [bitsf(v) for v in case["b"]])
    a = np.array(case["a"], dtype=np.float64).reshape((case["X"], case["L1"], 3))
    b = np.array(case["b"], dtype=np.float64).reshape((case["L2"], 3))
    mode = "f32" if case["ty"] == "f" else "f64"
    fn = "sq" if case["fn"] == "eu2" else "eu"
    if case["kind"] == 22:
        drv = f"cdist22 {mode} {fn} {pts_tok(a[0], bitsf)} {pts_tok(b, bitsf)}"
        drv_rat = f"cdist22 rat sq {pts_tok(a[0], rat)} {pts_tok(b, rat)}"
    else:
        drv = f"cdist32 {mode} {fn} {ens_tok(a, bitsf)} {pts_tok(b, bitsf)}"
        drv_rat = f"cdist32 rat sq {ens_tok(a, rat)} {pts_tok(b, rat)}"
    return run_line, drv, drv_rat


def check_kernels(ctx, n_cases, corpus):
    exe, err = build_runner(ctx)
    if exe is None:
        ctx.disagree("molli_xt/distance.cpp of the working tree does not compile against the pybind11 shim",
                     "g++ -std=c++17 runner.cpp", err, "compiles")
        return
    cases = [c for c in corpus if c.get("section") == "kernel"] + [gen_kernel_case(ctx.rng, ctx.quick()) for _ in range(n_cases)]
    lines = [kernel_lines(c) for c in cases]
    try:
        r = subprocess.run([str(exe)], input="\n".join(l[0] for l in lines) + "\n", capture_output=True, text=True, timeout=300)
    except subprocess.TimeoutExpired:
        ctx.disagree("kernel runner timed out", "-", "timeout", "terminates")
        return
    outs = r.stdout.split("\n")[:-1]
    if r.returncode != 0 or len(outs) != len(cases):
        # a crash of the kernels (e.g. out-of-bounds access the shim could not absorb): locate the first failing case
        ctx.disagree("kernel runner crashed or lost lines", f"{len(cases)} requests", f"rc={r.returncode} lines={len(outs)} {r.stderr[-300:]}", "one line per request")
        outs = outs + ["err"] * (len(cases) - len(outs))
    drv = ctx.driver([l[1] for l in lines])
    drv_rat = ctx.driver([l[2] for l in lines])
    for case, out, m, mr in zip(cases, outs, drv, drv_rat):
        tag = {"section": "kernel", **case}
        key = f"k:{case['kind']}{case['ty']}{case['fn']}:{case['X']}x{case['L1']}x{case['L2']}:{hash(tuple(case['a'] + case['b']))}"
        ctx.case(key, nontrivial=case["L1"] > 0 and case["L2"] > 0 and case["X"] > 0)
        ctx.count(f"kernel:{case['kind']}{case['ty']}_{case['fn']}")
        ctx.count(f"kernel-values:{case['cls']}")
        ctx.count("kernel-empty-shape" if case["L1"] * case["L2"] * case["X"] == 0 else "kernel-nonempty")
        want_shape = [case["L1"], case["L2"]] if case["kind"] == 22 else [case["X"], case["L1"], case["L2"]]
        toks = out.split()
        if not toks or toks[0] == "err":
            ctx.disagree("kernel runner failed on a request", tag, out, m)
            ctx.violation("C19:cdist-kernel-crash", "the kernel could not be evaluated on a valid input", tag)
            continue
        nd = int(toks[0])
        shape = [int(t) for t in toks[1:1 + nd]]
        oob = toks[1 + nd] == "1"
        vals = toks[2 + nd:]
        ref = numpy_reference(case)
        # ---- oracle: shape and entries against plain numpy ----
        if shape != want_shape or oob:
            ctx.violation("C19:cdist-shape-or-bounds", f"result shape {shape} (out-of-bounds access: {oob}), expected {want_shape}", tag)
        else:
            conv = from_bits32 if case["ty"] == "f" else from_bits64
            got = np.array([conv(v) for v in vals], dtype=np.float64).reshape(ref.shape)
            rel = 1e-6 if case["ty"] == "f" else 1e-12
            scale = np.maximum(np.abs(ref), 1e-30 if case["ty"] == "d" else 1e-20)
            bad = np.argwhere(np.abs(got - ref) > rel * scale)
            if len(bad):
                x, i, j = (int(t) for t in bad[0])
                ctx.violation("C19:cdist-entry-not-the-distance",
                              f"entry ({x},{i},{j}) = {got[x, i, j]!r}, numpy float64 gives {ref[x, i, j]!r}", {**tag, "entry": [x, i, j]})
        # ---- correspondence: the Lean kernels at the same float width, ≤ 2 ulp ----
        mt = m.split()
        if len(mt) != 3:
            ctx.disagree("driver error", tag, out, m)
            continue
        mvals = [] if mt[2] == "-" else mt[2].split(",")
        m_rows = int(mt[0])
        if (case["kind"] == 22 and [m_rows, int(mt[1])] != shape) or \
           (case["kind"] == 32 and (m_rows != shape[0] or int(mt[1]) != shape[2])) or len(mvals) != len(vals):
            ctx.disagree("kernel shape differs from the model", tag, shape, mt[:2])
            continue
        worst = max([ulp_dist(a, b) for a, b in zip(vals, mvals)], default=0)
        ctx.count("kernel-bit-exact" if worst == 0 else f"kernel-ulp<={min(worst, 3)}")
        if worst > 2:
            ctx.disagree("kernel entries differ from the model by more than 2 ulp", tag, vals[:12], mvals[:12])
        # ---- exact ℚ model vs the float result (squared distances, moderate magnitudes) ----
        if case["fn"] == "eu2" and case["cls"] in ("unit", "int", "quarter") and shape == want_shape:
            rt = mr.split()
            rvals = [] if rt[2] == "-" else [Fraction(t) for t in rt[2].split(",")]
            conv = from_bits32 if case["ty"] == "f" else from_bits64
            rel = Fraction(1, 10 ** 6) if case["ty"] == "f" else Fraction(1, 10 ** 12)
            for v, q in zip(vals, rvals):
                if abs(Fraction(conv(v)) - q) > rel * q:
                    ctx.disagree("float kernel entry is not within tolerance of the exact squared distance", tag, conv(v), str(q))
                    break
            ctx.count("kernel-vs-exact-Q")
    if cases:
        ctx.sample({"kernel_case": {k: cases[-1][k] for k in ("kind", "ty", "fn", "X", "L1", "L2", "cls")}, "runner_out": outs[-1][:120]})


# --------------------------------------------------------------------------------------
# (B) pre-built extension with awkward memory layouts
# --------------------------------------------------------------------------------------
def layout(arr, how):
    if how == "contig":
        return np.ascontiguousarray(arr)
    if how == "strided":
        big = np.zeros((arr.shape[0] * 2,) + arr.shape[1:], dtype=arr.dtype)
        big[::2] = arr
        return big[::2]
    if how == "transposed":
        return np.ascontiguousarray(arr.T).T        # same values, Fortran-like strides
    if how == "reversed":
        return np.ascontiguousarray(arr[::-1])[::-1]
    if how == "colstride":
        big = np.zeros(arr.shape[:-1] + (6,), dtype=arr.dtype)
        big[..., ::2] = arr
        return big[..., ::2]
    raise ValueError(how)


def check_prebuilt(ctx, n_cases):
    import molli_xt

    reqs = []
    for _ in range(n_cases):
        rng = ctx.rng
        kind = rng.choice([22, 32])
        fn = rng.choice(["eu2", "eu"])
        L1, L2, X = rng.range(0, 5), rng.range(0, 5), (1 if kind == 22 else rng.range(1, 3))
        da, db = rng.choice(["f", "d"]), rng.choice(["f", "d"])
        name_kind = rng.choice(["generic", "typed"])
        cls = rng.choice(["quarter", "int", "unit"]) if da != db or name_kind == "typed" else rng.choice(["unit", "quarter", "close"])
        if name_kind == "typed" or da != db:
            # values are converted by force-cast: keep them binary32-representable so the conversion is exact
            a = np.array([f32(v) for v in gen_values(rng, X * L1 * 3, "d", cls)])
            b = np.array([f32(v) for v in gen_values(rng, L2 * 3, "d", cls)])
        else:
            a = np.array(gen_values(rng, X * L1 * 3, da, cls))
            b = np.array(gen_values(rng, L2 * 3, db, cls))
        a = a.reshape((L1, 3) if kind == 22 else (X, L1, 3)).astype(np.float32 if da == "f" else np.float64)
        b = b.reshape((L2, 3)).astype(np.float32 if db == "f" else np.float64)
        ha = rng.choice(["contig", "strided", "transposed", "reversed", "colstride"])
        hb = rng.choice(["contig", "strided", "transposed", "reversed", "colstride"])
        A, B = layout(a, ha), layout(b, hb)
        suffix = "_eu2" if fn == "eu2" else "_eu"
        if name_kind == "typed":
            oty = rng.choice(["f", "d"])
            fname = f"cdist{kind}{oty}{suffix}"
        else:
            fname = f"cdist{kind}{suffix}"
            # pybind11 overload resolution: the binary64 kernel is chosen only when both arguments already are
            # C-contiguous float64 arrays; everything else is force-cast to binary32 (first registered overload)
            oty = "d" if (da == "d" and db == "d" and A.flags["C_CONTIGUOUS"] and B.flags["C_CONTIGUOUS"]) else "f"
            if da == "d" and db == "d" and oty == "f":
                ctx.count("prebuilt-float64-noncontiguous-evaluated-in-binary32")
        tag = {"section": "prebuilt", "fn": fname, "a": a.tolist(), "b": b.tolist(), "dtype_a": da, "dtype_b": db,
               "layout_a": ha, "layout_b": hb}
        ctx.case(f"p:{fname}:{a.shape}:{b.shape}:{da}{db}:{ha}:{hb}:{a.tobytes().hex()[:32]}",
                 nontrivial=(ha != "contig" or hb != "contig") and a.size > 0 and b.size > 0)
        ctx.count(f"prebuilt-layout:{ha}")
        ctx.count(f"prebuilt-dtypes:{da}{db}->{oty}")
        try:
            got = getattr(molli_xt, fname)(A, B)
        except Exception as e:
            ctx.disagree("pre-built extension raised", tag, f"{type(e).__name__}: {e}", "array")
            ctx.violation("C19:cdist-extension-raised", f"{fname} raised {type(e).__name__} on a valid input", tag)
            continue
        bitsf = bits32 if oty == "f" else bits64
        want_dtype = np.float32 if oty == "f" else np.float64
        # reference: plain numpy evaluation (in float64) on the arguments at the float width of the result
        a = a.astype(want_dtype)
        b = b.astype(want_dtype)
        a3 = a.reshape((1,) + a.shape) if kind == 22 else a
        ref = ((a3.astype(np.float64)[:, :, None, :] - b.astype(np.float64)[None, None, :, :]) ** 2).sum(-1)
        if fn == "eu":
            ref = np.sqrt(ref)
        want_shape = (L1, L2) if kind == 22 else (X, L1, L2)
        if got.shape != want_shape or got.dtype != want_dtype:
            ctx.violation("C19:cdist-shape-or-bounds", f"{fname}: shape {got.shape} dtype {got.dtype}, expected {want_shape} {want_dtype.__name__}", tag)
            continue
        rel = 1e-6 if oty == "f" else 1e-12
        g3 = got.astype(np.float64).reshape(ref.shape)
        if np.any(np.abs(g3 - ref) > rel * np.maximum(np.abs(ref), 1e-20)):
            ctx.violation("C19:cdist-entry-not-the-distance", f"{fname} with layouts {ha}/{hb}: an entry is not the distance numpy gives", tag)
        mode = "f32" if oty == "f" else "f64"
        num = (lambda v: bitsf(v))
        if kind == 22:
            line = f"cdist22 {mode} {'sq' if fn == 'eu2' else 'eu'} {pts_tok(a, num)} {pts_tok(b, num)}"
        else:
            line = f"cdist32 {mode} {'sq' if fn == 'eu2' else 'eu'} {ens_tok(a, num)} {pts_tok(b, num)}"
        reqs.append((line, [bitsf(float(v)) for v in got.ravel().tolist()], tag))
    outs = ctx.driver([r[0] for r in reqs])
    for (line, vals, tag), m in zip(reqs, outs):
        mt = m.split()
        mvals = [] if len(mt) < 3 or mt[2] == "-" else mt[2].split(",")
        if len(mvals) != len(vals):
            ctx.disagree("pre-built extension: number of entries differs from the model", tag, len(vals), m[:80])
            continue
        worst = max([ulp_dist(a, b) for a, b in zip(vals, mvals)], default=0)
        ctx.count("prebuilt-bit-exact" if worst == 0 else f"prebuilt-ulp<={min(worst, 3)}")
        if worst > 2:
            ctx.disagree("pre-built extension differs from the model by more than 2 ulp", tag, vals[:12], mvals[:12])


# --------------------------------------------------------------------------------------
# (C) rectangular_grid
# --------------------------------------------------------------------------------------
def gen_grid_case(rng):
    style = rng.weighted([("dyadic", 3), ("general", 3), ("general64", 1)])
    if style == "dyadic":
        l = [rng.range(-32, 16) / 8.0 for _ in range(3)]
        r = [l[i] + rng.range(0, 24) / 8.0 for i in range(3)]
        pad = rng.choice([0.0, 0.0, 0.125, 0.25, 0.5, 1.0, 1.5])
        s = rng.choice([0.25, 0.5, 0.75, 1.0, 1.25, 1.5, 2.0])
    else:
        l = [(rng.uniform() * 2 - 1) * 4 for _ in range(3)]
        r = [l[i] + rng.uniform() * rng.choice([0.0, 1.0, 3.0]) for i in range(3)]
        pad = rng.choice([0.0, rng.uniform() * 2])
        s = rng.choice([0.3, 0.5, 0.7, 1.0, 0.35 + rng.uniform()])
    return {"section": "grid", "style": style, "l": l, "r": r, "pad": pad, "s": s,
            "dtype": "float64" if style == "general64" else "float32"}


def check_grids(ctx, n_cases, corpus):
    from molli.descriptor import gridbased as gb

    cases = [c for c in corpus if c.get("section") == "grid"] + [gen_grid_case(ctx.rng) for _ in range(n_cases)]
    reqs = []
    for c in cases:
        dt = np.float32 if c["dtype"] == "float32" else np.float64
        exact = c["style"] == "dyadic"
        # the values the code sees
        l = [float(dt(v)) for v in c["l"]]
        r = [float(dt(v)) for v in c["r"]]
        pad, s = float(c["pad"]), float(c["s"])
        lo = [Fraction(l[i]) - Fraction(pad) for i in range(3)]
        hi = [Fraction(r[i]) + Fraction(pad) for i in range(3)]
        ratio = [(hi[i] - lo[i]) / Fraction(s) for i in range(3)]
        near_int = any(abs(q - round(q)) < Fraction(1, 10 ** 4) and not exact for q in ratio)
        ctx.count(f"grid-style:{c['style']}")
        if near_int:
            ctx.count("grid-skipped-width/spacing-within-1e-4-of-an-integer")
            continue
        try:
            g = gb.rectangular_grid(c["l"], c["r"], padding=pad, spacing=s, dtype=c["dtype"])
        except Exception as e:
            ctx.disagree("rectangular_grid raised", c, f"{type(e).__name__}: {e}", "grid")
            ctx.violation("C19:grid-raised", f"rectangular_grid raised {type(e).__name__} on a valid box", c)
            continue
        n = [math.floor(q) + 1 for q in ratio]
        ctx.case(f"g:{l}:{r}:{pad}:{s}:{c['dtype']}", nontrivial=n[0] * n[1] * n[2] > 1)
        ctx.count(f"grid-points<={10 ** len(str(len(g)))}")
        tol = 0 if exact else (2e-5 if c["dtype"] == "float32" else 1e-11)
        # ---------------- oracle on the returned array alone ----------------
        if g.ndim != 2 or g.shape[1] != 3 or g.shape[0] != n[0] * n[1] * n[2]:
            ctx.violation("C19:grid-count", f"grid has shape {g.shape}, the lattice has {n[0]}x{n[1]}x{n[2]} points", c)
        else:
            G = g.astype(np.float64)
            for ax in range(3):
                col = np.unique(G[:, ax]) if exact else np.unique(np.round(G[:, ax], 4))
                lo_f, hi_f, nn = float(lo[ax]), float(hi[ax]), n[ax]
                if G[:, ax].min() < lo_f - tol or G[:, ax].max() > hi_f + tol:
                    ctx.violation("C19:grid-not-contained", f"axis {ax}: points range [{G[:, ax].min()}, {G[:, ax].max()}] outside the padded box [{lo_f}, {hi_f}]", c)
                if len(col) != nn:
                    ctx.violation("C19:grid-count", f"axis {ax}: {len(col)} distinct coordinates, expected {nn}", c)
                    continue
                if nn > 1 and np.max(np.abs(np.diff(col) - s)) > max(tol, 0) + (1e-4 if not exact else 0):
                    ctx.violation("C19:grid-spacing", f"axis {ax}: consecutive points differ by {np.diff(col)[:4]}, requested spacing {s}", c)
                first, last = G[:, ax].min() - lo_f, hi_f - G[:, ax].max()
                if abs(first - last) > 2 * tol:
                    ctx.violation("C19:grid-not-centred", f"axis {ax}: margin {first} below vs {last} above", c)
                if not (nn * s > (hi_f - lo_f) - tol):
                    ctx.violation("C19:grid-not-full", f"axis {ax}: one more lattice point would fit", c)
            if len({tuple(p) for p in np.round(G, 4).tolist()}) != len(G):
                ctx.violation("C19:grid-not-full", "the grid contains repeated points (some lattice points are missing)", c)
        line = "grid " + " ".join(rat(v) for v in l + r + [pad, s])
        reqs.append((line, g, c, tol))
    outs = ctx.driver([r[0] for r in reqs])
    for (line, g, c, tol), m in zip(reqs, outs):
        mt = m.split()
        if len(mt) != 4:
            ctx.disagree("driver rejected a valid grid request", c, g.shape, m[:100])
            continue
        pts = [] if mt[3] == "-" else [[Fraction(t) for t in p.split(":")] for p in mt[3].split(",")]
        if len(pts) != g.shape[0]:
            ctx.disagree("number of grid points differs from the model", c, g.shape[0], f"{mt[0]}x{mt[1]}x{mt[2]}")
            continue
        G = g.tolist()
        for idx, (p, q) in enumerate(zip(G, pts)):
            if any(abs(Fraction(p[k]) - q[k]) > Fraction(tol) for k in range(3)):
                ctx.disagree("grid point differs from the model (value or order)", {**c, "index": idx}, p, [str(t) for t in q])
                break
    if reqs:
        ctx.sample({"grid_case": reqs[-1][2], "n_points": int(reqs[-1][1].shape[0])})


# --------------------------------------------------------------------------------------
# (D,E,F) descriptors on ensembles
# --------------------------------------------------------------------------------------
def gen_scene(rng, quick):
    # small geometries and geometries well beyond one KD-tree leaf (scipy brute-forces up to 10 points per leaf)
    size = rng.weighted([("small", 3), ("medium", 2), ("large", 2)])
    n_atoms = rng.range(1, 5) if size == "small" else rng.range(11, 30) if size == "medium" else rng.range(31, 60)
    n_conf = rng.range(1, 3 if quick else 4) if size == "small" else rng.range(1, 2)
    # an unpopulated conformer (weight exactly 0: explicit, or an underflowed Boltzmann factor) that lies where no other
    # conformer is: unweighted descriptors and prune must still see it, weighted averages must not
    zero_weight = rng.chance(1, 3)
    if zero_weight:
        n_conf = max(n_conf, 2)
    style = rng.weighted([("random", 4), ("quarter", 1)])
    elements = [rng.choice(ELEMENTS) for _ in range(n_atoms)]
    extent = {"small": 2.5, "medium": 3.5, "large": 4.5}[size]

    def coord():
        return rng.range(-int(extent * 4), int(extent * 4)) / 4.0 if style == "quarter" else f32((rng.uniform() * 2 - 1) * extent)

    coords = [[[coord() for _ in range(3)] for _ in range(n_atoms)] for _ in range(n_conf)]
    charges = [[f32((rng.uniform() * 2 - 1)) for _ in range(n_atoms)] for _ in range(n_conf)]
    zero_pattern = rng.weighted([("none", 3), ("subset", 3), ("all", 1), ("single-nonzero", 1)])
    if zero_pattern != "none":
        # atoms whose charge is exactly 0.0 in every conformer: they still occupy space and can still be the nearest atom
        keep = {rng.below(n_atoms)} if zero_pattern == "single-nonzero" else set() if zero_pattern == "all" else \
            {k for k in range(n_atoms) if rng.chance(1, 2)}
        charges = [[q if k in keep else 0.0 for k, q in enumerate(row)] for row in charges]
    weights = [rng.choice([1.0, 1.0, 0.5, 2.0, 0.25 + rng.uniform()]) for _ in range(n_conf)]
    repeated = None
    if rng.chance(1, 4):
        # the same geometry listed more than once, each listing with its own weight (and its own charges); one copy may differ
        # from the other only by the sign of a zero coordinate
        while n_conf < 3:       # two listings of one geometry and at least one other geometry (else the weights cancel out)
            n_conf += 1
            coords.append([[coord() for _ in range(3)] for _ in range(n_atoms)])
            charges.append(list(charges[0]))
            weights.append(rng.choice([1.0, 0.5, 2.0]))
        i0 = rng.below(n_conf)
        j0 = rng.choice([k for k in range(n_conf) if k != i0])
        if rng.chance(1, 2):
            coords[i0][0][rng.below(3)] = 0.0
        coords[j0] = [[(-0.0 if (x == 0.0 and rng.chance(1, 2)) else x) for x in a] for a in coords[i0]]
        weights[i0], weights[j0] = rng.choice([(1.0, 3.0), (0.25, 2.0), (2.0, 0.5), (1.0, 0.125)])
        repeated = [i0, j0]
    far = None
    if zero_weight:
        far = rng.choice([k for k in range(n_conf) if not repeated or k not in repeated] or [0])
        weights[far] = rng.choice([0.0, float(np.exp(-800.0)), 0.0, 5e-324])     # 5e-324: the smallest weight that still counts
        shift = rng.choice([2.0 * extent + 2.0, 2.0 * extent + 3.5])
        coords[far] = [[f32(x + shift), y, z] for x, y, z in coords[far]]
    gstyle = rng.weighted([("rect", 3), ("random32", 2), ("random64", 1)])
    if gstyle == "rect":
        grid = None
        gspec = {"pad": rng.choice([0.0, 0.5, 1.0]), "s": rng.choice([0.75, 1.0, 1.3, 1.5])}
    else:
        npts = rng.range(1, 40 if quick else 80)
        conv = f32 if gstyle == "random32" else float
        grid = [[conv((rng.uniform() * 2 - 1) * (extent + 1.5)) for _ in range(3)] for _ in range(npts)]
        if far is not None:    # grid points only the unpopulated conformer reaches
            for _ in range(rng.range(3, 8)):
                a = rng.choice(coords[far])
                grid.append([conv(a[0] + (rng.uniform() - 0.5)), conv(a[1] + (rng.uniform() - 0.5)), conv(a[2] + (rng.uniform() - 0.5))])
        gspec = None
    scene = {"section": "scene", "elements": elements, "coords": coords, "charges": charges, "weights": weights,
             "grid_style": gstyle, "grid": grid, "grid_spec": gspec, "style": style,
             "max_dist": rng.choice([0.5, 1.0, 1.7, 2.0, 2.5, 3.3]), "eps": rng.choice([0.0, 0.25, 0.5, 1.0]),
             "zero_charges": zero_pattern, **({"repeated": repeated} if repeated else {})}
    if n_atoms >= 2 and rng.chance(1, 3):
        # a second ensemble of the same composition whose atoms come in another order (an isomer as far as the formula goes),
        # evaluated in the same process right before / after this one
        if len(set(elements)) == 1:
            elements[rng.below(n_atoms)] = rng.choice([e for e in ELEMENTS if e != elements[0]])
        perm = list(range(n_atoms))
        for _ in range(20):
            rng.shuffle(perm)
            if [elements[k] for k in perm] != elements:
                break
        scene["sibling"] = {"order": rng.choice(["after", "before"]), "perm": perm}
    if rng.chance(1, 2):
        # the same objects are queried, edited in place and queried again
        edit = rng.choice(["assign", "translate", "translate", "scale"])
        if edit == "assign":
            scene["then"] = {"edit": "assign", "coords": [[[coord() for _ in range(3)] for _ in range(n_atoms)] for _ in range(n_conf)]}
        elif edit == "translate":
            scene["then"] = {"edit": "translate", "vector": [rng.range(-8, 8) / 4.0, rng.range(-8, 8) / 4.0, f32(rng.uniform() * 3 - 1.5)]}
        else:
            scene["then"] = {"edit": "scale", "factor": rng.choice([0.5, 1.5, 2.0])}
    return shift_scene(scene, rng)


SHIFTS = [0.0, 0.0, 35.0, 410.0, 1600.0, 1.0e4]


def shift_scene(scene, rng, shift=None):
    """the whole scene (every conformer, the grid, coordinates assigned later) far from the origin: distances are what they
    were, coordinates are large.  All shifted coordinates are binary32 values, so they are exact inputs of the binary32 kernels;
    error model for the bound: the kernel forms a − g first — exact for binary32 numbers of like magnitude whose difference is
    small (the difference of two multiples of ulp(S) below 2^24·ulp(S) is representable) — so the relative error of d² stays
    ≈ 3·2^-24 whatever the shift, and the exclusion band (2e-5·r²) of the unshifted scenes applies unchanged."""
    if shift is None:
        mag = rng.choice(SHIFTS)
        shift = [mag * rng.choice([1.0, -1.0]), mag * rng.choice([0.0, 1.0, -0.5]), mag * rng.choice([0.0, 0.25])]
    if not any(shift):
        return scene
    sh = lambda p: [f32(p[0] + shift[0]), f32(p[1] + shift[1]), f32(p[2] + shift[2])]      # noqa: E731
    scene["coords"] = [[sh(a) for a in c] for c in scene["coords"]]
    if scene.get("grid") is not None:
        scene["grid"] = [sh(g) for g in scene["grid"]]
        if scene["grid_style"] == "random64":
            scene["grid_style"] = "random32"
    if scene.get("then", {}).get("edit") == "assign":
        scene["then"]["coords"] = [[sh(a) for a in c] for c in scene["then"]["coords"]]
    elif "then" in scene:
        # a later translate / scale of a far-away scene gives coordinates that are NOT binary32 values: converting them for
        # the binary32 kernels moves atoms by up to ulp(1e4)/2 ≈ 5e-4 Å, far outside the rounding band — not a question the
        # property asks; far-away scenes are evaluated as they are
        scene.pop("then")
    scene["shift"] = shift
    return scene


def gen_big_scene(rng, quick, i):
    """sizes above any plausible internal batch / block size: many grid points, many atoms, many conformers"""
    kind = (["pairs", "grid", "atomcount:129", "atomcount", "conformers"] if quick else
            ["pairs", "grid", "atomcount:129", "atomcount", "conformers", "grid", "atoms", "atomcount", "atomcount:257", "atomcount:32769"])[i % (5 if quick else 10)]
    count = None
    if kind.startswith("atomcount"):
        # numbers of atoms around the limits of narrow integer types; the LAST atom is the nearest one for some grid points
        count = int(kind.split(":")[1]) if ":" in kind else rng.choice([127, 128, 129, 130, 255, 256, 257])
        kind = "atoms"
    s = gen_scene(rng, quick)
    n_atoms = rng.range(2, 6) if kind != "atoms" else (count or rng.range(100, 260))
    n_conf = rng.range(17, 70) if kind == "conformers" else rng.range(20, 40) if kind == "pairs" else rng.range(1, 3)
    extent = 3.0 if kind != "atoms" else (6.0 if n_atoms < 1000 else 30.0)
    s["elements"] = [rng.choice(ELEMENTS) for _ in range(n_atoms)]
    s["coords"] = [[[f32((rng.uniform() * 2 - 1) * extent) for _ in range(3)] for _ in range(n_atoms)] for _ in range(n_conf)]
    s["charges"] = [[f32(rng.uniform() * 2 - 1) for _ in range(n_atoms)] for _ in range(n_conf)]
    s["weights"] = [rng.choice([1.0, 0.5, 2.0, 0.25 + rng.uniform()]) for _ in range(n_conf)]
    npts = rng.choice([4097, 5000, 8193, 9001] if quick else [4097, 5000, 8192, 8193, 9001, 13000, 16385, 20001]) if kind == "grid" else rng.range(300, 700)
    if kind == "pairs":
        # at least 2^17 (conformer, grid point) pairs; conformers that do not superimpose and cost differently to query:
        # every other one lies far outside the grid (all its answers are -1, found quickly)
        npts = (1 << 17) // n_conf + rng.range(1, 300)
        for c in range(n_conf):
            off = [0.0, 0.0, 0.0] if c % 2 == 0 else [f32(9.0 + 3.0 * c), 0.0, 0.0]
            wob = [f32((rng.uniform() * 2 - 1) * 0.8) for _ in range(3)]
            s["coords"][c] = [[f32(a[0] + off[0] + wob[0]), f32(a[1] + wob[1]), f32(a[2] + wob[2])] for a in s["coords"][c]]
    pts = np.array([rng.next() for _ in range(npts * 3)], dtype=np.uint64)
    g = ((pts >> np.uint64(11)).astype(np.float64) / float(1 << 53) * 2 - 1) * (extent + 1.5)
    g = g.reshape(npts, 3)
    # points that are certainly inside a sphere: the first, the last and ~3 % of the others sit 0.3 Å off an atom
    flat = np.array(s["coords"], dtype=np.float64).reshape(-1, 3)
    idxs = [0, npts - 1, npts - 2] + [rng.below(npts) for _ in range(npts // 32)]
    for j in idxs:
        g[j] = flat[rng.below(len(flat))] + np.array([0.3, 0.0, 0.0])
    if count:
        last = np.array(s["coords"], dtype=np.float64)[:, -1, :]
        for j in range(min(12, npts)):
            g[(7 * j + 3) % npts] = last[j % len(last)] + np.array([0.0, 0.05 * (j % 3), 0.02])
        s["atom_count"] = count
    s["grid_style"], s["grid_spec"] = "random32", None
    s["grid"] = g.astype(np.float32).astype(np.float64).tolist()
    s["big"] = kind
    s["style"] = "random"
    s.pop("then", None)
    s.pop("shift", None)
    if rng.chance(1, 2) and kind != "pairs":
        s["then"] = {"edit": "translate", "vector": [f32(rng.uniform() * 2 - 1), f32(rng.uniform() * 2 - 1), f32(rng.uniform())]}
    if kind in ("grid", "atoms") and rng.chance(1, 2):
        shift_scene(s, rng, [rng.choice([410.0, -1600.0, 1.0e4]), rng.choice([0.0, 35.0]), 0.0])
    return s


def build_scene(s):
    import molli as ml
    from molli.descriptor import gridbased as gb

    m = ml.Molecule(list(s["elements"]), name="c19")
    coords = np.array(s["coords"], dtype=np.float64)
    m.coords = coords[0]
    ens = ml.ConformerEnsemble(m, n_conformers=coords.shape[0])
    ens.coords = coords
    ens.atomic_charges = np.array(s["charges"], dtype=np.float64)
    ens.weights = np.array(s["weights"], dtype=np.float64)
    if s["grid"] is None:
        lo, hi = coords.reshape(-1, 3).min(0), coords.reshape(-1, 3).max(0)
        grid = gb.rectangular_grid(lo, hi, padding=s["grid_spec"]["pad"], spacing=s["grid_spec"]["s"])
        cap = 400 if coords.shape[1] <= 10 else 160
        if grid.shape[0] > cap:
            grid = grid[:: grid.shape[0] // cap + 1]
    else:
        grid = np.array(s["grid"], dtype=np.float32 if s["grid_style"] == "random32" else np.float64)
    radii = [a.vdw_radius for a in ens.atoms]
    return m, ens, grid, radii


def brute_d2(atoms, grid):
    a = np.asarray(atoms, dtype=np.float64)
    g = np.asarray(grid, dtype=np.float64)
    return ((a[:, None, :] - g[None, :, :]) ** 2).sum(-1)     # (n_atoms, n_grid)


def oracle_nearest(ctx, idx, atoms, grid, maxd, tag, single):
    d2 = brute_d2(atoms, grid)
    dmin = d2.min(0)
    m2 = maxd * maxd
    t = 1e-9
    pre = "C19:nearest-single-geometry-ignores-max_dist" if single else None
    for j, k in enumerate(np.asarray(idx).tolist()):
        if k >= 0:
            if k >= d2.shape[0]:
                ctx.violation("C19:nearest-index-out-of-range", f"grid point {j}: index {k}", {**tag, "point": j})
            elif d2[k, j] > m2 * (1 + t) + 1e-300:
                ctx.violation(pre or "C19:nearest-beyond-cutoff", f"grid point {j}: atom {k} at distance {math.sqrt(d2[k, j]):.6g} reported with max_dist={maxd}", {**tag, "point": j})
                return
            elif d2[k, j] > dmin[j] * (1 + t) + 1e-300:
                ctx.violation("C19:nearest-not-closest", f"grid point {j}: atom {k} (d={math.sqrt(d2[k, j]):.6g}) reported, closest is at {math.sqrt(dmin[j]):.6g}", {**tag, "point": j})
                return
        elif dmin[j] < m2 * (1 - t):
            ctx.violation("C19:nearest-missed-atom-within-cutoff", f"grid point {j}: -1 reported, an atom is at distance {math.sqrt(dmin[j]):.6g} <= max_dist={maxd}", {**tag, "point": j})
            return


class _OnlyBinary32:
    """request sink for scenes too large for the exact ℚ driver: keeps the binary32 occupancy request only"""
    def __init__(self, reqs):
        self.reqs = reqs

    def append(self, t):
        if t[1] == "field32":
            self.reqs.append(t)


def apply_edit(s, m, ens):
    """edit the SAME long-lived objects in place; returns the coordinates they hold afterwards"""
    t = s["then"]
    if t["edit"] == "assign":
        ens.coords = np.array(t["coords"], dtype=np.float64)
        m.coords = np.array(t["coords"][0], dtype=np.float64)
    elif t["edit"] == "translate":
        ens.translate(np.array(t["vector"]))
        m.translate(np.array(t["vector"]))
    elif t["edit"] == "scale":
        ens.scale(t["factor"])
        m.scale(t["factor"])
    new = np.array(ens.coords, dtype=np.float64)
    if not np.array_equal(np.array(m.coords, dtype=np.float64), new[0]):
        raise RuntimeError("geometry and first conformer disagree after the same edit")
    return new


def check_scenes(ctx, n_cases, corpus, big=0):
    from molli.descriptor import gridbased as gb

    scenes = [c for c in corpus if c.get("section") == "scene"] + [gen_scene(ctx.rng, ctx.quick()) for _ in range(n_cases)] + \
        [gen_big_scene(ctx.rng, ctx.quick(), i) for i in range(big)]
    reqs = []   # (line, kind, impl, tag)
    expanded = []
    for s in scenes:
        sib = s.get("sibling")
        if sib and sorted(sib["perm"]) == list(range(len(s["elements"]))):
            twin = {k: v for k, v in s.items() if k not in ("sibling", "then")}
            twin["elements"] = [s["elements"][k] for k in sib["perm"]]
            twin["twin_of_previous"] = sib["order"] == "after"
            expanded += [s, twin] if sib["order"] == "after" else [twin, s]
        else:
            expanded.append(s)
    scenes = expanded

    def exercise(s, m, ens, grid, radii, si, exact):
        coords = np.array(s["coords"], dtype=np.float64)
        n_conf, n_atoms = coords.shape[0], coords.shape[1]
        maxd, eps = s["max_dist"], s["eps"]
        tag = {k: v for k, v in s.items()}
        ctx.case(json.dumps(s if exact else {k: v for k, v in s.items() if k != "grid"}, sort_keys=True) + f":{grid.shape[0]}",
                 nontrivial=grid.shape[0] > 0 and n_atoms > 1)
        ctx.count(f"scene-atoms={n_atoms}" if n_atoms <= 5 else "scene-atoms=11..30" if n_atoms <= 30 else "scene-atoms=31..60" if n_atoms <= 60 else "scene-atoms>60")
        ctx.count("scene-grid-points" + ("<=400" if grid.shape[0] <= 400 else "<=4096" if grid.shape[0] <= 4096 else ">4096"))
        if s.get("phase"):
            ctx.count(f"scene-second-query-after-edit:{s['then']['edit']}")
        if s.get("zero_charges", "none") != "none":
            ctx.count(f"scene-exact-zero-charges:{s['zero_charges']}")
        if s.get("repeated"):
            ctx.count("scene-repeated-conformer-with-other-weight")
        if s.get("atom_count"):
            ctx.count(f"scene-atom-count={s['atom_count']}")
        if s.get("shift"):
            ctx.count(f"scene-shifted-by:{max(abs(x) for x in s['shift']):g}")
        if s.get("big") == "pairs":
            ctx.count("scene-nearest-pairs>=2^17")
        if "twin_of_previous" in s:
            ctx.count("scene-same-formula-other-atom-order:" + ("evaluated-second" if s["twin_of_previous"] else "evaluated-first"))
        ctx.count(f"scene-conformers={n_conf}")
        if any(w == 0.0 for w in s["weights"]):
            ctx.count("scene-with-zero-weight-conformer")
        elif any(w < 1e-300 for w in s["weights"]):
            ctx.count("scene-with-denormal-weight-conformer")
        ctx.count(f"scene-grid:{s['grid_style']}")
        gtok = pts_tok(grid, rat) if exact else None
        sink = reqs if exact else _OnlyBinary32(reqs)
        # ---------- (D) nearest_atom_index: ensemble and single geometry ----------
        try:
            ne = gb.nearest_atom_index(grid, ens, max_dist=maxd)
            ns = gb.nearest_atom_index(grid, m, max_dist=maxd)
        except Exception as e:
            ctx.disagree("nearest_atom_index raised", tag, f"{type(e).__name__}: {e}", "indices")
            ctx.violation("C19:descriptor-raised", f"nearest_atom_index raised {type(e).__name__}", tag)
            return False
        if ne.shape != (n_conf, grid.shape[0]) or np.asarray(ns).shape != (grid.shape[0],):
            ctx.violation("C19:nearest-shape", f"shapes {ne.shape} / {np.asarray(ns).shape}", tag)
            return False
        for ci in range(n_conf):
            oracle_nearest(ctx, ne[ci], coords[ci], grid, maxd, {**tag, "what": "nearest-ensemble", "conformer": ci}, False)
            sink.append((f"nearest 1/1000000000 {rat(maxd)} {pts_tok(coords[ci], rat)} {gtok}", "nearest", ne[ci].tolist(),
                         {**tag, "what": "nearest-ensemble", "conformer": ci}))
        oracle_nearest(ctx, ns, coords[0], grid, maxd, {**tag, "what": "nearest-single"}, True)
        sink.append((f"nearest 1/1000000000 {rat(maxd)} {pts_tok(coords[0], rat)} {gtok}", "nearest", np.asarray(ns).tolist(),
                     {**tag, "what": "nearest-single"}))
        ctx.count(f"nearest-max_dist={maxd}")
        # ---------- (E) prune ----------
        for what, obj, atoms in (("prune-ensemble", ens, coords.reshape(-1, 3)), ("prune-single", m, coords[0])):
            try:
                kept = gb.prune(grid, obj, max_dist=maxd, eps=eps)
            except Exception as e:
                ctx.disagree("prune raised", tag, f"{type(e).__name__}: {e}", "indices")
                ctx.violation("C19:descriptor-raised", f"prune raised {type(e).__name__}", tag)
                continue
            kept = np.asarray(kept).tolist()
            ptag = {**tag, "what": what}
            d2min = brute_d2(atoms, grid).min(0) if grid.shape[0] else np.zeros(0)
            ks = set(kept)
            if kept != sorted(ks) or any(k < 0 or k >= grid.shape[0] for k in kept):
                ctx.violation("C19:prune-indices-malformed", f"indices {kept[:10]}", ptag)
            for j in range(grid.shape[0]):
                if j in ks and d2min[j] > maxd * maxd * (1 + 1e-9):
                    ctx.violation("C19:prune-kept-point-beyond-cutoff", f"grid point {j} kept, nearest atom at {math.sqrt(d2min[j]):.6g} > {maxd}", {**ptag, "point": j})
                    break
                if j not in ks and d2min[j] * (1 + eps) ** 2 < maxd * maxd * (1 - 1e-9):
                    ctx.violation("C19:prune-dropped-point-within-inner-radius", f"grid point {j} dropped, nearest atom at {math.sqrt(d2min[j]):.6g} <= {maxd}/(1+{eps})", {**ptag, "point": j})
                    break
            sink.append((f"prune 1/1000000000 {rat(maxd)} {rat(eps)} {pts_tok(atoms, rat)} {gtok}", "prune", kept, ptag))
            ctx.count(f"prune-eps={eps}")
        # ---------- (F) aso / aeif ----------
        band = "1/50000"
        for weighted in (False, True):
            wt = nums_tok(s["weights"], rat) if weighted else "-"
            try:
                va = gb.aso(ens, grid, weighted=weighted)
                ve = gb.aeif(ens, grid, weighted=weighted)
            except Exception as e:
                ctx.disagree("aso/aeif raised", tag, f"{type(e).__name__}: {e}", "field")
                ctx.violation("C19:descriptor-raised", f"aso/aeif raised {type(e).__name__}", tag)
                continue
            ftag = {**tag, "weighted": weighted}
            # model-free oracle (float64 brute force, rounding band excluded)
            w = np.array(s["weights"]) if weighted else np.ones(n_conf)
            r2 = np.array(radii) ** 2
            occ = np.zeros((n_conf, grid.shape[0]))
            chg = np.zeros((n_conf, grid.shape[0]))
            amb = np.zeros(grid.shape[0], dtype=bool)
            # inputs that are not binary32 values are rounded on their way into the binary32 kernels: each coordinate by at
            # most |x|·2^-24, a distance by at most 2·sqrt(3) times that, d² by 2·d times that — added to the band
            mag = max(float(np.abs(coords).max()), float(np.abs(grid).max()), 1.0)
            dd = 2.0 * 3 ** 0.5 * mag * 2.0 ** -23
            for ci in range(n_conf):
                d2 = brute_d2(coords[ci], grid)
                inside = d2 <= r2[:, None]
                amb |= np.any(np.abs(d2 - r2[:, None]) <= 2e-5 * r2[:, None] + 2.0 * np.sqrt(r2[:, None]) * dd + dd * dd, axis=0)
                occ[ci] = inside.any(0)
                srt = np.sort(d2, axis=0)
                if n_atoms > 1:
                    amb |= (srt[1] - srt[0]) <= 2e-5 * (srt[1] + srt[0]) + 4.0 * np.sqrt(srt[1]) * dd
                amb |= np.abs(srt[0] - r2.max()) <= 2e-5 * r2.max() + 2.0 * np.sqrt(r2.max()) * dd
                near = d2.argmin(0)
                chg[ci] = np.where(inside.any(0), np.array(s["charges"][ci])[near], 0.0)
            ref_aso = (w[:, None] * occ).sum(0) / w.sum()
            ref_aeif = (w[:, None] * chg).sum(0) / w.sum()
            ok = ~amb
            if va.shape != (grid.shape[0],) or ve.shape != (grid.shape[0],):
                ctx.violation("C19:descriptor-shape", f"aso {va.shape} aeif {ve.shape} for {grid.shape[0]} grid points", ftag)
                continue
            bad = np.argwhere(ok & (np.abs(va - ref_aso) > 1e-9))
            if len(bad):
                j = int(bad[0][0])
                ctx.violation("C19:aso-not-average-of-occupancy", f"grid point {j}: aso={va[j]!r}, definition gives {ref_aso[j]!r}", {**ftag, "point": j})
            bad = np.argwhere(ok & (np.abs(ve - ref_aeif) > 1e-9))
            if len(bad):
                j = int(bad[0][0])
                ctx.violation("C19:aeif-not-average-of-nearest-charge", f"grid point {j}: aeif={ve[j]!r}, definition gives {ref_aeif[j]!r}", {**ftag, "point": j})
            etok = ens_tok(coords, rat)
            sink.append((f"aso {band} {wt} {nums_tok(radii, rat)} {etok} {gtok}", "field", va.tolist(), {**ftag, "what": "aso"}))
            sink.append((f"aeif {band} {wt} {nums_tok(radii, rat)} {'|'.join(nums_tok(c, rat) for c in s['charges'])} {etok} {gtok}",
                         "field", ve.tolist(), {**ftag, "what": "aeif"}))
            # the binary32 evaluation of the occupancy test, no exclusion band
            wt64 = nums_tok(s["weights"], bits64) if weighted else "-"
            c32 = coords.astype(np.float32)
            g32 = grid.astype(np.float32)
            sink.append((f"asof32 {wt64} {nums_tok(radii, bits64)} {ens_tok(c32, lambda v: bits32(v))} {pts_tok(g32, lambda v: bits32(v))}",
                         "field32", va.tolist(), {**ftag, "what": "aso-binary32"}))
            ctx.count("field-weighted" if weighted else "field-unweighted")
        if si < 2 and not s.get("phase"):
            ctx.sample({"scene": {k: s[k] for k in ("elements", "style", "grid_style", "max_dist", "eps")}, "grid_points": int(grid.shape[0]),
                        "aso_head": [float(x) for x in va[:4]]})
        return True

    for si, s in enumerate(scenes):
        ctx.check_deadline()
        try:
            m, ens, grid, radii = build_scene(s)
        except Exception as e:
            ctx.disagree("could not build the ensemble", s, f"{type(e).__name__}: {e}", "ensemble")
            continue
        exact = not s.get("big")
        if exercise(s, m, ens, grid, radii, si, exact) is False or not s.get("then"):
            continue
        # query – edit – query on the same objects: nothing may be remembered from the first round
        try:
            new = apply_edit(s, m, ens)
        except Exception as e:
            ctx.disagree("editing the geometry failed", s, f"{type(e).__name__}: {e}", "edited")
            continue
        exercise({**s, "coords": new.tolist(), "phase": 1}, m, ens, grid, radii, si, exact)
    outs = ctx.driver([r[0] for r in reqs], timeout=1200)
    for (line, kind, impl, tag), mo in zip(reqs, outs):
        if mo.startswith("err"):
            ctx.disagree("driver error", tag, impl[:5], mo)
            continue
        if kind == "nearest":
            items = [] if mo == "-" else [t.split(":") for t in mo.split(",")]
            if len(items) != len(impl):
                ctx.disagree("nearest: number of grid points", tag, len(impl), len(items))
                continue
            nflag = 0
            for j, (k, fl) in enumerate(items):
                if fl == "1":
                    nflag += 1
                    continue
                if int(k) != impl[j]:
                    ctx.disagree("nearest_atom_index differs from the model", {**tag, "point": j}, impl[j], int(k))
                    break
            ctx.count("nearest-points-compared", len(items) - nflag)
            ctx.count("nearest-points-in-band", nflag)
        elif kind == "prune":
            exact_s, cls_s = mo.split(";")
            cls = [] if cls_s == "-" else cls_s.split(",")
            ks = set(impl)
            for j, c in enumerate(cls):
                if c == "K" and j not in ks:
                    ctx.disagree("prune dropped a point the model must keep", {**tag, "point": j}, "dropped", c)
                    break
                if c == "D" and j in ks:
                    ctx.disagree("prune kept a point the model must drop", {**tag, "point": j}, "kept", c)
                    break
            ctx.count("prune-points-must-keep", cls.count("K"))
            ctx.count("prune-points-must-drop", cls.count("D"))
            ctx.count("prune-points-free", cls.count("F"))
            ctx.count("prune-points-in-band", sum(1 for c in cls if c.islower()))
        else:
            items = [] if mo == "-" else mo.split(",")
            if len(items) != len(impl):
                ctx.disagree("field: number of grid points", tag, len(impl), len(items))
                continue
            nflag = 0
            for j, it in enumerate(items):
                if kind == "field":
                    v, fl = it.split(":")
                    if fl == "1":
                        nflag += 1
                        continue
                else:
                    v = it
                if abs(float(Fraction(v)) - impl[j]) > 1e-9:
                    ctx.disagree(f"{tag['what']} differs from the model", {**tag, "point": j}, impl[j], v)
                    break
            ctx.count(f"{tag['what']}-points-compared", len(items) - nflag)
            if kind == "field":
                ctx.count(f"{tag['what']}-points-in-band", nflag)
    ctx.extra_cov["driver_requests_descriptors"] = len(reqs)


# --------------------------------------------------------------------------------------
def load_corpus():
    d = common.VERIF / "corpus" / "C19"
    out = []
    if d.is_dir():
        for p in sorted(d.glob("*.json")):
            obj = json.loads(p.read_text())
            out.extend(obj if isinstance(obj, list) else [obj])
    return out


def run(ctx):
    ctx.rule = ("kernel cases: (kind 22/32, float width, eu/eu2, shapes X,L1,L2 in 0..7 incl. empty, value classes "
                "int/quarter/unit/close/big/tiny, coincident pairs); non-trivial = all dimensions > 0. Pre-built extension: "
                "strided/transposed/reversed/column-strided/mixed-dtype arguments; non-trivial = a non-contiguous argument. "
                "Grids: dyadic boxes (exact comparison) and general float boxes (tolerance; width/spacing within 1e-4 of an "
                "integer skipped); non-trivial = more than one point. Scenes: 1..5, 11..30 or 31..60 atoms (beyond one KD-tree leaf of 10 points) x 1..4 conformers, rectangular or "
                "random float32/float64 grids; a quarter of the scenes list one geometry twice with different weights (possibly differing in the sign of a "
                "zero), half have atoms whose charge is exactly 0 in every conformer (a subset / all / all but one); large scenes with 127..130, 255..257 "
                "(thorough: 32769) atoms whose last atom is nearest to some grid points; two thirds of the scenes are translated as a whole by 35, 410, 1600 or 1e4 Å (binary32 coordinates); "
                "one large scene per quick run has >= 2^17 (conformer, grid point) pairs with 20..40 non-superimposed conformers; "
                "a third of the scenes are followed or preceded, in the same process, by an ensemble of the same formula "
                "whose elements come in another atom order; a third of the scenes have a conformer of weight exactly 0 (explicit / underflowed) or 5e-324 placed "
                "where no other conformer reaches, with grid points around it; half of the scenes query, edit the SAME objects in place (coords assignment / translate / scale) and "
                "query again; additional large scenes: grids of 4097..20001 points, 100..260 atoms, 17..70 conformers (compared with the brute-force "
                "definition and the binary32 driver); max_dist in {0.5..3.3}, eps in {0..1}; each scene exercises nearest (ensemble and "
                "single geometry), prune (both), aso and aeif (weighted and not); non-trivial = >1 atom and a non-empty grid. "
                "Distinct by full canonical input.")
    ctx.assumptions += [
        "A-fp: binary32/binary64 evaluation of the distance expression is IEEE-754 without contraction; the runner (g++ -O2 -ffp-contract=off) "
        "is compared with Lean's Float32/Float bit-wise (tolerance 2 ulp) and with the exact ℚ value within 1e-6 / 1e-12 relative",
        "the pybind11 binding layer (overload choice, force-cast) is exercised only through the pre-built extension, which does not follow source edits",
        "scipy.spatial.KDTree is external: prune_bounds is proved for any query meeting the documented ε-guarantee; the implementation is checked against the must-keep / must-drop classes",
        "descriptor comparisons exclude grid points whose decision lies within a relative band (2e-5 of r² for spheres, 1e-9 for cut-offs and ties) — computed exactly by the driver",
    ]
    ctx.proof(props=["Molli.Props.C19"], gen=[])
    corpus = load_corpus()
    q = ctx.quick()
    check_kernels(ctx, 250 if q else 8000, corpus)
    check_prebuilt(ctx, 80 if q else 2500)
    check_grids(ctx, 60 if q else 1500, corpus)
    check_scenes(ctx, 24 if q else 450, corpus, big=5 if q else 20)


def replay(ctx, path):
    obj = json.loads(Path(path).read_text())
    print(json.dumps(obj, indent=1)[:3000])
    r = obj.get("replay") or {}
    sec = r.get("section")
    from molli.descriptor import gridbased as gb
    if sec == "scene":
        m, ens, grid, radii = build_scene(r)
        print("nearest_atom_index(grid, ensemble):", gb.nearest_atom_index(grid, ens, max_dist=r["max_dist"]).tolist())
        print("nearest_atom_index(grid, geometry):", np.asarray(gb.nearest_atom_index(grid, m, max_dist=r["max_dist"])).tolist())
        print("prune:", np.asarray(gb.prune(grid, ens, max_dist=r["max_dist"], eps=r["eps"])).tolist())
        print("aso:", gb.aso(ens, grid).tolist())
        print("aeif:", gb.aeif(ens, grid).tolist())
        if r.get("then") :
            apply_edit(r, m, ens)
            print("after the edit", r["then"]["edit"], "on the same objects:")
            print("nearest_atom_index(grid, ensemble):", gb.nearest_atom_index(grid, ens, max_dist=r["max_dist"]).tolist())
            print("prune:", np.asarray(gb.prune(grid, ens, max_dist=r["max_dist"], eps=r["eps"])).tolist())
            print("aso:", gb.aso(ens, grid).tolist())
            print("aeif:", gb.aeif(ens, grid).tolist())
    elif sec == "grid":
        print(gb.rectangular_grid(r["l"], r["r"], padding=r["pad"], spacing=r["s"], dtype=r["dtype"]).tolist())
    elif sec == "kernel":
        exe, err = build_runner(ctx)
        if exe is None:
            print("runner does not compile:", err)
            return 1
        line = kernel_lines(r)[0]
        out = subprocess.run([str(exe)], input=line + "\n", capture_output=True, text=True, timeout=60).stdout
        print("runner:", out.strip())
        print("numpy :", numpy_reference(r).tolist())
    return 0
