"""
C09 — every public load/dump entry point agrees with the class-level codec.

Proof:  Molli.Props.C09 (dispatch_agrees: ∀ cell, observed = spec, by `decide +kernel` over the generated
        2592-row table lifted by the enumeration lemma; corollaries lists_where_promised, unsupported_is_valueerror,
        name_honoured, stream_untouched, reaches_class_codec, class_failure_propagates, raises_only_documented)
        + Molli.Gen.Dispatch (regenerated on every run by spying on the class methods of the live repository).
Tie:    (1) the table is exhaustive over the matrix — complete tie for the dispatch; every row is also compared with
        the Lean `spec` through the driver so that a disagreeing CELL is named (the failing input);
        (2) content agreement per applicable cell: the entry point and the class method are run on the same bundled /
        generated input and compared canonically (objects field by field with float bit patterns, texts byte by
        byte, exceptions by class).
Oracle: the comparison with the class method IS the property (model-free: it never consults the Lean model);
        extra clauses evaluated directly: list type, names, caller stream open + text placed behind what the
        stream already held, ValueError for a list of unsupported format strings (incl. suffix deduction).
"""
from __future__ import annotations

import io
import os
import json
import shutil
import warnings
from pathlib import Path

from harness import c09lib as L

ALPH = "abcdefghijklmnopqrstuvwxyzABCDEFGHIJKLMNOPQRSTUVWXYZ0123456789_-+."
ALPH_WIDE = ALPH + "αβΔéñ−′Å"        # names are text: Greek, accents, a typographic minus, a prime


# --------------------------------------------------------------------------------------
# canonical forms
# --------------------------------------------------------------------------------------
def _val(v):
    import enum
    import numpy as np

    if isinstance(v, enum.Enum):
        return [type(v).__name__, int(v.value) if isinstance(v.value, int) else str(v.value)]
    if isinstance(v, float):
        return v.hex()
    if isinstance(v, (np.floating,)):
        return float(v).hex()
    if isinstance(v, (np.integer,)):
        return int(v)
    if isinstance(v, dict):
        return {str(k): _val(x) for k, x in sorted(v.items(), key=lambda kv: str(kv[0]))}
    if isinstance(v, (list, tuple)):
        return [_val(x) for x in v]
    if v is None or isinstance(v, (int, str, bool)):
        return v
    return repr(type(v))


def _arr(a):
    import numpy as np

    if a is None:
        return None
    a = np.asarray(a)
    if a.dtype == object:
        return ["object", [_val(x) for x in a.ravel().tolist()]]
    return [str(a.dtype), list(a.shape), np.ascontiguousarray(a).tobytes().hex()]


def canon_obj(o):
    """field-by-field snapshot through public accessors; floats as bit patterns"""
    import attrs

    if o is None or isinstance(o, (str, int)):
        return o
    d = {"class": type(o).__name__, "name": getattr(o, "name", None)}
    atoms = list(getattr(o, "atoms", []))
    idx = {id(a): i for i, a in enumerate(atoms)}
    d["atoms"] = [[(f.name, _val(getattr(a, f.name))) for f in attrs.fields(type(a)) if not f.name.startswith("_")]
                  for a in atoms]
    bonds = []
    for b in list(getattr(o, "bonds", [])):
        row = [("a1", idx.get(id(b.a1))), ("a2", idx.get(id(b.a2)))]
        row += [(f.name, _val(getattr(b, f.name))) for f in attrs.fields(type(b))
                if not f.name.startswith("_") and f.name not in ("a1", "a2")]
        bonds.append(row)
    d["bonds"] = bonds
    for fld in ("coords", "atomic_charges", "weights"):
        if hasattr(o, fld):
            try:
                d[fld] = _arr(getattr(o, fld))
            except Exception as e:  # noqa: BLE001
                d[fld] = "raises " + type(e).__name__
    for fld in ("charge", "mult", "n_conformers"):
        if hasattr(o, fld):
            try:
                d[fld] = _val(getattr(o, fld))
            except Exception as e:  # noqa: BLE001
                d[fld] = "raises " + type(e).__name__
    if hasattr(o, "attrib"):
        try:
            d["attrib"] = _val(dict(o.attrib))
        except Exception as e:  # noqa: BLE001
            d["attrib"] = "raises " + type(e).__name__
    return d


def canon_value(v):
    if isinstance(v, list):
        return ["list"] + [canon_obj(x) for x in v]
    return canon_obj(v)


def first_diff(a, b, path="") -> str:
    if type(a) is not type(b):
        return f"{path}: {str(a)[:80]!r} vs {str(b)[:80]!r}"
    if isinstance(a, dict):
        for k in sorted(set(a) | set(b)):
            if a.get(k) != b.get(k):
                return first_diff(a.get(k), b.get(k), f"{path}.{k}")
    if isinstance(a, (list, tuple)):
        if len(a) != len(b):
            return f"{path}: length {len(a)} vs {len(b)}"
        for i, (x, y) in enumerate(zip(a, b)):
            if x != y:
                return first_diff(x, y, f"{path}[{i}]")
    return f"{path}: {str(a)[:80]!r} vs {str(b)[:80]!r}"


# --------------------------------------------------------------------------------------
# samples
# --------------------------------------------------------------------------------------
def bundled_samples(ctx, work: Path):
    from harness.common import REPO

    fdir = REPO / "molli" / "files"
    xyzs = sorted(p for p in fdir.glob("*.xyz"))
    mol2s = sorted(p for p in fdir.glob("*.mol2"))
    cdxs = sorted(p for p in fdir.glob("*.cdxml"))
    if ctx.quick():
        pick = ["pentane_confs.mol2", "dendrobine.mol2", "dummy.mol2", "benzene.mol2", "zincdb_fda.mol2", "fxyl.mol2"]
        mol2s = [p for p in mol2s if p.name in pick]
        cdxs = [p for p in cdxs if p.name in ("charges_mult.cdxml", "parser_demo.cdxml", "parser_demo2.cdxml", "substituents.cdxml")]
    else:
        mol2s = [p for p in mol2s if p.stat().st_size < 400_000]
    n = max(len(xyzs), len(mol2s), len(cdxs))
    out = []
    for i in range(n):
        files = {"xyz": xyzs[i % len(xyzs)], "mol2": mol2s[i % len(mol2s)], "cdxml": cdxs[i % len(cdxs)]}
        out.append(make_sample(files, work, "bundled:" + ",".join(p.name for p in files.values()), None))
    return out


def corpus_samples(ctx, work: Path):
    """corpus/C09/*.json : {tag, xyz, mol2} texts (hand-picked inputs and past failures), always run first"""
    from harness.common import REPO, VERIF

    out = []
    for p in sorted((VERIF / "corpus" / "C09").glob("*.json")):
        obj = json.loads(p.read_text())
        d = work / ("corpus_" + p.stem)
        d.mkdir(exist_ok=True)
        fx, fm = d / "corpus.xyz", d / "corpus.mol2"
        fx.write_text(obj["xyz"], encoding="utf-8")
        fm.write_text(obj["mol2"], encoding="utf-8")
        out.append(make_sample({"xyz": fx, "mol2": fm, "cdxml": REPO / "molli" / "files" / "charges_mult.cdxml"}, work,
                               obj.get("tag", "corpus:" + p.stem), {"xyz": obj["xyz"], "mol2": obj["mol2"]}))
        ctx.count("samples:corpus")
    return out


def make_sample(files: dict, work: Path, tag: str, texts):
    """objects to dump come from the sample's mol2 file through the class methods (fallback: bundled pentane)"""
    from harness.common import REPO

    try:
        objs = L.make_objs(files["mol2"])
        plain = L.make_objs(files["mol2"], decorate=False)
    except Exception:  # noqa: BLE001 - e.g. the emptied bundled file
        objs = L.make_objs(REPO / "molli" / "files" / "pentane_confs.mol2")
        plain = L.make_objs(REPO / "molli" / "files" / "pentane_confs.mol2", decorate=False)
    s = L.Sample(files, objs, work, tag)
    s.objs_plain = plain
    s.texts = texts
    return s


ELEMENTS = ["H", "C", "N", "O", "F", "P", "S", "Cl", "Br", "Fe", "Pd", "Si", "B", "Li"]


def random_name(rng) -> str:
    alph = ALPH_WIDE if rng.chance(1, 2) else ALPH
    return "".join(rng.choice(alph) for _ in range(rng.range(1, 12)))


def generated_sample(ctx, work: Path, i: int):
    """a random multi-frame molecule written by the class-level dumpers (xyz + mol2); cdxml: a bundled file"""
    import molli as ml
    from harness.common import REPO

    rng = ctx.rng
    nat = rng.weighted([(0, 1), (1, 2), (2, 3), (3, 4), (5, 4), (8, 3), (13, 1)])
    nfr = rng.weighted([(1, 3), (2, 3), (4, 2), (7, 1)])
    name = random_name(rng)
    elts = [rng.choice(ELEMENTS) for _ in range(nat)]
    bonds = []
    for j in range(1, nat):
        bonds.append((rng.below(j), j, rng.choice([1, 1, 1, 2, 3])))
    for _ in range(rng.range(0, 2)):
        if nat >= 3:
            a, b = rng.below(nat), rng.below(nat)
            if a != b and not any({a, b} == {x, y} for x, y, _ in bonds):
                bonds.append((min(a, b), max(a, b), 1))
    frames = []
    for _ in range(nfr):
        m = ml.Molecule([ml.Atom(e) for e in elts], name=name)
        for a, b, o in bonds:
            m.connect(m.atoms[a], m.atoms[b], btype=ml.BondType(o))
        if nat:
            m.coords = [[round((rng.uniform() - 0.5) * 20, 4) for _ in range(3)] for _ in range(nat)]
        frames.append(m)
    xyz_text = "".join(m.dumps_xyz() for m in frames)
    mol2_text = "".join(m.dumps_mol2() for m in frames)
    if rng.chance(1, 8):
        xyz_text = ""          # an empty source: the class method itself fails
    if rng.chance(1, 8):
        mol2_text = "# nothing here\n"
    d = work / f"gen{i}"
    d.mkdir(exist_ok=True)
    fx, fm = d / f"{name}.xyz", d / f"{name}.mol2"
    fx.write_text(xyz_text, encoding="utf-8")
    fm.write_text(mol2_text, encoding="utf-8")
    cdxs = sorted((REPO / "molli" / "files").glob("*.cdxml"))
    cdx = cdxs[rng.below(len(cdxs))] if not ctx.quick() else REPO / "molli" / "files" / "charges_mult.cdxml"
    ctx.count(f"generated:n_atoms={nat}")
    ctx.count(f"generated:n_frames={nfr}")
    return make_sample({"xyz": fx, "mol2": fm, "cdxml": cdx}, work,
                       f"generated:{name}:atoms={nat}:frames={nfr}", {"xyz": xyz_text, "mol2": mol2_text})


# --------------------------------------------------------------------------------------
# replay objects
# --------------------------------------------------------------------------------------
def replay_obj(cell, sample, variant, observed, demanded, fmt):
    from harness.common import REPO

    files = {}
    for k, p in sample.files.items():
        p = Path(p)
        try:
            files[k] = "repo:" + str(p.relative_to(REPO))
        except ValueError:
            t = (getattr(sample, "texts", None) or {}).get(k)
            files[k] = {"text": t if t is not None else p.read_text()}
    return {"cell": list(cell), "call": describe_call(cell, fmt), "variant": variant, "sample": sample.tag,
            "files": files, "fmt": fmt, "observed": observed, "demanded": demanded}


def describe_call(cell, fmt) -> str:
    """`fmt` is the format argument actually passed (None = deduced from the path suffix)"""
    e, f, k, o, n, pf = cell
    suffix, fmt_arg = L.path_form(cell, fmt)
    fs = repr(fmt_arg if k == "path" else fmt)
    if k == "path":
        k = f"path with suffix {suffix!r}" + (f", a symbolic link to a file named *{L.LINK_TARGET_SUFFIX[f]}" if pf == "deducedLink" else "")
    nm = f", name={L.GIVEN_NAME!r}" if n == "given" else ""
    ot = {"molecule": "'molecule'", "ensemble": "'ensemble'", "structure": "ml.Structure"}[o]
    if e in ("load", "load_all"):
        return f"ml.{e}(<{f} {k}>, {fs}, otype={ot}{nm})"
    if e in ("loads", "loads_all"):
        return f"ml.{e}(<{f} text>, {fs}, otype={ot}{nm})"
    if e == "dump":
        return f"ml.dump(<{o}>, <{k}>, {fs})"
    return f"ml.dumps(<{o}>, {fs})"


FIELD_KIND = [("applicable", "applicable"), ("result", "result"), ("reached", "wrong-class-method"),
              ("nameFwd", "name-not-forwarded"), ("named", "name-override-ignored"), ("argOk", "argument-not-forwarded"),
              ("wrote", "text-not-written-to-target"), ("streamOk", "stream-ownership")]


def table_violation_kind(cell, obs: dict, dem: dict) -> str:
    e = cell[0]
    if obs.get("result") != dem.get("result"):
        o, d = obs.get("result", ""), dem.get("result", "")
        if d.startswith("returned:list") and o.startswith("returned:obj"):
            return f"C09:{e}:single-object-where-list-promised"
        if d == "raised:valueError" and o.startswith("returned"):
            return f"C09:{e}:no-valueerror"
        if d == "raised:valueError" and o.startswith("raised"):
            return f"C09:{e}:valueerror-masked-by-" + o.split(":")[1]
        if o.startswith("raised"):
            return f"C09:{e}:raises-" + o.split(":")[1]
        return f"C09:{e}:result"
    for fld, kind in FIELD_KIND:
        if obs.get(fld) != dem.get(fld):
            return f"C09:{e}:{kind}"
    return f"C09:{e}:action"


def parse_action(line: str) -> dict:
    d = {}
    for tok in line.split():
        k, _, v = tok.partition("=")
        d[k] = {"true": True, "false": False}.get(v, v)
    return d


# --------------------------------------------------------------------------------------
# content agreement of one cell on one sample
# --------------------------------------------------------------------------------------
def exc_name(e):
    return None if e is None else type(e).__name__


def content_cell(ctx, spy, cell, sample, fmt_for_unsupported=None):
    """entry point vs class method on the same input. Returns number of comparisons made."""
    e, f, k, o, n, pf = cell
    name = L.GIVEN_NAME if n == "given" else None
    if f == "unsupported":
        return 0
    if f == "cdxml" and e not in ("load", "load_all"):
        return 0       # refused cells: covered exhaustively by the table
    if e in ("load_all", "loads_all") and o == "ensemble":
        return 0
    # the path form (suffix of the path x format given or deduced) is part of the cell; further call variants:
    variants = [(pf, dict(fmt=f))]
    if pf == "explicitMatching":
        if e in ("load", "load_all"):
            variants += [("str-path", dict(fmt=f, path_as_str=True))]
        if e == "dump" and k == "path":
            variants += [("str-path", dict(fmt=f, path_as_str=True)), ("mode-w", dict(fmt=f, mode="w")),
                         ("no-file-yet", dict(fmt=f, mode="fresh"))]
        if e in ("dump", "dumps") and hasattr(sample, "objs_plain"):
            variants += [("ascii-only-object", dict(fmt=f, plain=True))]
    done = 0
    for vname, v in variants:
        keep = sample.objs
        if v.get("plain"):
            sample.objs = sample.objs_plain       # the same objects with ASCII-only name and labels
        try:
            with warnings.catch_warnings():
                warnings.simplefilter("ignore")
                obs = L.call_entry(spy, cell, sample, v["fmt"], path_as_str=v.get("path_as_str", False), mode=v.get("mode"),
                                   out_name=f"out_{o}")
                ref, rex = L.class_call(cell, sample, name=name)
        finally:
            sample.objs = keep
        done += 1
        ctx.count(f"content:{e}:{f}")
        tag = (cell, sample, vname)
        got_exc = exc_name(obs["exc"])
        if rex is not None or obs["exc"] is not None:
            ctx.count("content:class-method-raises" if rex is not None else "content:entry-raises-only")
            if got_exc != exc_name(rex):
                report(ctx, f"C09:{e}:exception-differs-from-class-method", tag,
                       f"entry point: {got_exc}, class method: {exc_name(rex)}", v["fmt"])
            continue
        if e in ("load", "loads", "load_all", "loads_all"):
            a, b = canon_value(obs["ret"]), canon_value(ref)
            if a != b:
                report(ctx, f"C09:{e}:object-differs-from-class-method", tag, first_diff(a, b), v["fmt"])
            if e in ("load_all", "loads_all") and not isinstance(obs["ret"], list):
                report(ctx, f"C09:{e}:single-object-where-list-promised", tag, f"returned {type(obs['ret']).__name__}", v["fmt"])
            if name is not None and any(x != name for x in L.names_of(obs["ret"])):
                report(ctx, f"C09:{e}:name-override-ignored", tag, f"names {L.names_of(obs['ret'])[:3]}", v["fmt"])
        elif e == "dump":
            _, ref_text = ref
            w = obs["written"]
            want = ("" if v.get("mode") == "w" else obs["before"]) + ref_text
            if obs["ret"] is not None:
                report(ctx, "C09:dump:result", tag, f"returned {type(obs['ret']).__name__}", v["fmt"])
            if w != want:
                report(ctx, "C09:dump:text-differs-from-class-method", tag,
                       first_diff(list((w or "").splitlines()), list(want.splitlines())), v["fmt"])
            if obs["caller_stream"] is not None and obs["caller_stream"].closed:
                report(ctx, "C09:dump:stream-ownership", tag, "caller's stream was closed", v["fmt"])
            elif obs["caller_stream"] is not None and getattr(obs["caller_stream"], "other_calls", []):
                report(ctx, "C09:dump:stream-ownership", tag,
                       f"{obs['caller_stream'].other_calls} called on the caller's stream (the class method only writes)", v["fmt"])
            if any(not fh.closed for fh in obs["opened"]):
                report(ctx, "C09:dump:stream-ownership", tag, "file opened by dump left open", v["fmt"])
        else:  # dumps
            if obs["ret"] != ref:
                report(ctx, "C09:dumps:text-differs-from-class-method", tag,
                       first_diff(list(str(obs["ret"]).splitlines()), list(str(ref).splitlines())), v["fmt"])
    return done


def report(ctx, kind, tag, what, fmt):
    cell, sample, vname = tag
    ctx.violation(kind, f"{describe_call(cell, fmt)} [{vname}] on {sample.tag}: {what}",
                  replay_obj(cell, sample, vname, what, "same as the class method", fmt))


def keyed_reference(path, key, o, name):
    """class-level route for a keyed CDXML load: CDXMLFile(path)[key], renamed when a name is given, as the class"""
    from molli.ftypes.cdxml import CDXMLFile

    m = CDXMLFile(path)[key]
    if name is not None:
        m.name = name
    return L.otype_cls(o)(m)


def cdxml_key_cases(ctx, spy, sample):
    """OPTIONAL ARGUMENT `key`, in every form CDXMLFile.__getitem__ accepts and at its falsy-but-meaningful values:
    integer positions 0, 1, last, -1, one past the end; labels (first, last, '', unknown) — each compared with
    CDXMLFile(path)[key]; `name` None / '' / given on top (a given name, also the empty one, is the molecule's name)."""
    import molli as ml
    from molli.ftypes.cdxml import CDXMLFile

    path = sample.files["cdxml"]
    with warnings.catch_warnings():
        warnings.simplefilter("ignore")
        keys = list(CDXMLFile(path).keys())
        n = len(keys)
        ints = [0, 1, n - 1, -1, n] if not ctx.quick() else [0, n - 1, -1, n]
        labels = ([keys[0], keys[-1]] if keys else []) + ["", "no such label"]
        if not ctx.quick():
            labels += keys[1:5]
        plan = []
        for key in ints + labels:
            plan += [(key, "molecule", None), (key, "molecule", L.GIVEN_NAME)]
        for key in [0] + labels[:1]:
            plan += [(key, o, name) for o in L.OTYPES for name in (None, "", L.GIVEN_NAME)]
        seen = set()
        for key, o, name in plan:
            if (repr(key), o, name) in seen:
                continue
            seen.add((repr(key), o, name))
            cell = ("load", "cdxml", "path", o, "given" if name is not None else "notgiven", "explicitMatching")
            try:
                ref, rex = keyed_reference(path, key, o, name), None
            except Exception as ex:  # noqa: BLE001
                ref, rex = None, ex
            try:
                kw = {"name": name} if name is not None else {}
                got, gex = ml.load(path, "cdxml", key, otype=L.otype_arg(o), **kw), None
            except Exception as ex:  # noqa: BLE001
                got, gex = None, ex
            ctx.case(f"cdxml-key:{sample.tag}:{key!r}:{o}:{name!r}", nontrivial=rex is None)
            ctx.count("optional-args:cdxml-key:" + type(key).__name__)
            tag = (cell, sample, f"key={key!r}|name={name!r}")
            if exc_name(gex) != exc_name(rex):
                report(ctx, "C09:load:keyed-exception-differs-from-class-method", tag,
                       f"entry point: {exc_name(gex) or 'returned'}, CDXMLFile[key]: {exc_name(rex) or 'returned'}", "cdxml")
                continue
            if rex is not None:
                continue
            if name is not None and got.name != name:
                report(ctx, "C09:load:name-override-ignored-with-key", tag, f"name {got.name!r}", "cdxml")
                continue
            a, b = canon_obj(got), canon_obj(ref)
            if a != b:
                report(ctx, "C09:load:keyed-object-differs-from-class-method", tag, first_diff(a, b), "cdxml")


def optional_argument_cases(ctx, spy, sample):
    """Every optional argument of the entry points at its falsy-but-meaningful values, compared with the class-level
    codec CALLED WITH THE SAME ARGUMENT: name='' (vs None), a key for formats without keys, parser / writer spelled in
    another case, empty text, and objects without atoms / an empty list for the dumpers."""
    import molli as ml

    def compare(tagtxt, call, ref_call, cell, kind):
        with warnings.catch_warnings():
            warnings.simplefilter("ignore")
            try:
                got, gex = call(), None
            except Exception as ex:  # noqa: BLE001
                got, gex = None, ex
            try:
                ref, rex = ref_call(), None
            except Exception as ex:  # noqa: BLE001
                ref, rex = None, ex
        ctx.case(f"optional:{sample.tag}:{tagtxt}", nontrivial=rex is None)
        ctx.count("optional-args:" + kind)
        what = None
        if exc_name(gex) != exc_name(rex):
            what = f"entry point: {exc_name(gex) or 'returned'}, class method: {exc_name(rex) or 'returned'}"
        elif rex is None:
            a, b = canon_value(got), canon_value(ref)
            if a != b:
                what = first_diff(a, b)
        if what:
            ctx.violation(f"C09:{cell[0]}:optional-argument:{kind}", f"{tagtxt} on {sample.tag}: {what}",
                          replay_obj(cell, sample, tagtxt, what, "same as the class method called with the same argument", cell[1]))

    for fmt in ("xyz", "mol2"):
        path = sample.files[fmt]
        text = path.read_text()
        for o in L.OTYPES:
            C = L.otype_cls(o)
            oa = L.otype_arg(o)
            cellp = lambda e, n="given": (e, fmt, "path" if e in ("load", "load_all") else "str", o, n, "explicitMatching")  # noqa: E731
            # name='' is a name
            compare(f"ml.load(<{fmt}>, otype={o}, name='')", lambda: ml.load(path, fmt, otype=oa, name=""),
                    lambda: getattr(C, f"load_{fmt}")(open(path), name=""), cellp("load"), "empty-name")
            compare(f"ml.loads(<{fmt}>, otype={o}, name='')", lambda: ml.loads(text, fmt, otype=oa, name=""),
                    lambda: getattr(C, f"loads_{fmt}")(text, name=""), cellp("loads"), "empty-name")
            if o != "ensemble":
                compare(f"ml.load_all(<{fmt}>, otype={o}, name='')", lambda: ml.load_all(path, fmt, otype=oa, name=""),
                        lambda: getattr(C, f"load_all_{fmt}")(open(path), name=""), cellp("load_all"), "empty-name")
                compare(f"ml.loads_all(<{fmt}>, otype={o}, name='')", lambda: ml.loads_all(text, fmt, otype=oa, name=""),
                        lambda: getattr(C, f"loads_all_{fmt}")(text, name=""), cellp("loads_all"), "empty-name")
            # a key means nothing for these formats, whatever its value
            for key in (0, "", "x"):
                compare(f"ml.load(<{fmt}>, {fmt!r}, {key!r}, otype={o})", lambda: ml.load(path, fmt, key, otype=oa),
                        lambda: getattr(C, f"load_{fmt}")(open(path)), cellp("load", "notgiven"), "key-without-meaning")
            # parser / writer named in another case
            compare(f"ml.loads(<{fmt}>, otype={o}, parser='MOLLI')", lambda: ml.loads(text, fmt, otype=oa, parser="MOLLI"),
                    lambda: getattr(C, f"loads_{fmt}")(text), cellp("loads", "notgiven"), "parser-spelling")
            # empty text
            compare(f"ml.loads('', {fmt!r}, otype={o})", lambda: ml.loads("", fmt, otype=oa),
                    lambda: getattr(C, f"loads_{fmt}")(""), cellp("loads", "notgiven"), "empty-text")
            if o != "ensemble":
                compare(f"ml.loads_all('', {fmt!r}, otype={o})", lambda: ml.loads_all("", fmt, otype=oa),
                        lambda: getattr(C, f"loads_all_{fmt}")(""), cellp("loads_all", "notgiven"), "empty-text")
        # dumpers: objects without atoms, an ensemble without conformers, an empty list
        empties = []
        for mk, what in ((lambda: ml.Molecule(), "Molecule()"), (lambda: ml.Structure(), "Structure()"),
                         (lambda: ml.ConformerEnsemble(), "ConformerEnsemble()"), (lambda: [], "[]")):
            try:
                empties.append((mk(), what))
            except Exception:  # noqa: BLE001
                pass
        for obj, what in empties:
            celld = ("dumps", fmt, "str", "molecule", "notgiven", "explicitMatching")
            compare(f"ml.dumps({what}, {fmt!r})", lambda: ml.dumps(obj, fmt), lambda: getattr(obj, f"dumps_{fmt}")(), celld, "empty-object")

            def dump_entry():
                st = io.StringIO()
                r = ml.dump(obj, st, fmt, writer="Molli")
                return [repr(r), st.getvalue()]

            def dump_ref():
                st = io.StringIO()
                r = getattr(obj, f"dump_{fmt}")(st)
                return [repr(r), st.getvalue()]

            compare(f"ml.dump({what}, <stream>, {fmt!r}, writer='Molli')", dump_entry, dump_ref,
                    ("dump", fmt, "stream", "molecule", "notgiven", "explicitMatching"), "empty-object")


def sequence_cases(ctx, spy, work: Path, contents: dict):
    """HIDDEN STATE BETWEEN CALLS.  One process, one path used again and again while the file it names is rewritten
    (for every format; and finally back to the first content): after every rewrite each loader must agree with the
    class-level codec on the content of THAT moment.  `contents`: fmt -> list of texts (different inputs)."""
    for fmt, steps in contents.items():
        if len(steps) < 2:
            continue
        steps = steps + [steps[0]]
        for e in ("load", "load_all"):
            for o in L.OTYPES:
                if e == "load_all" and o == "ensemble":
                    continue
                for name in (None, L.GIVEN_NAME):
                    seq_compare(ctx, work, fmt, steps, e, o, name, as_str=name is None)


def seq_compare(ctx, work, fmt, steps, e, o, name, as_str, verbose=False):
    """write steps[0], call, compare with the class method; rewrite the SAME path with steps[1], call, compare; ..."""
    import molli as ml

    d = work / "sequence"
    d.mkdir(exist_ok=True)
    p = d / f"reused.{fmt}"
    S = L.Sample({fmt: p}, {}, work, "sequence")
    cell = (e, fmt, "path", o, "given" if name else "notgiven", "explicitMatching")
    for i, text in enumerate(steps):
        p.write_text(text)
        kw = {"name": name} if name else {}
        fmt_arg = fmt if i % 2 == 0 else None
        with warnings.catch_warnings():
            warnings.simplefilter("ignore")
            try:
                got, gex = getattr(ml, e)(str(p) if as_str else p, fmt_arg, otype=L.otype_arg(o), **kw), None
            except Exception as ex:  # noqa: BLE001
                got, gex = None, ex
            ref, rex = L.class_call(cell, S, name=name)
        ctx.case(f"sequence:{e}:{fmt}:{o}:{name}:{i}:{hash(text) & 0xffff}", nontrivial=i > 0 and rex is None)
        ctx.count(f"sequence:{e}:{fmt}")
        what = None
        if verbose:
            print(f"  call {i + 1}: entry point -> {exc_name(gex) or L.ret_enum(got)} {L.names_of(got)[:2] if gex is None else ''}"
                  f" | class method -> {exc_name(rex) or L.ret_enum(ref)}")
        if exc_name(gex) != exc_name(rex):
            what = f"entry point: {exc_name(gex) or 'returned'}, class method: {exc_name(rex) or 'returned'}"
        elif rex is None:
            a, b = canon_value(got), canon_value(ref)
            if a != b:
                what = first_diff(a, b)
        if what:
            stage = "first call" if i == 0 else f"call {i + 1} on the same path, after the file was rewritten {i} time(s)"
            ctx.violation(f"C09:{e}:differs-from-class-method" + ("-after-rewrite" if i else ""),
                          f"ml.{e}(<{fmt} path>, {fmt_arg!r}, otype={o}{', name=...' if name else ''}) [{stage}]: {what}",
                          {"sequence": {"fmt": fmt, "steps": steps[: i + 1], "entry": e, "otype": o, "name": name, "as_str": as_str}})
            return


def target_sequences(ctx, spy, work: Path, samples):
    """the same target written again (mode 'w'), dumps after another object: the text is that of the CURRENT object"""
    import molli as ml

    objs = [s.objs for s in samples[:3]]
    d = work / "sequence"
    d.mkdir(exist_ok=True)
    for fmt in ("xyz", "mol2"):
        for o in L.OTYPES:
            p = d / f"target_{o}.{fmt}"
            for i, ob in enumerate(objs + objs[:1]):
                obj = ob[o]
                try:
                    ref, rex = getattr(obj, f"dumps_{fmt}")(), None
                except Exception as ex:  # noqa: BLE001
                    ref, rex = None, ex
                if rex is not None:       # the class method itself fails (Structure.dumps_mol2): take dump_<fmt>
                    st = io.StringIO()
                    getattr(obj, f"dump_{fmt}")(st)
                    ref = st.getvalue()
                try:
                    ml.dump(obj, p, fmt if i % 2 == 0 else None, mode="w")
                    got_file = p.read_text()
                except Exception as ex:  # noqa: BLE001
                    got_file = "raised " + type(ex).__name__
                try:
                    got_s = ml.dumps(obj, fmt)
                except Exception as ex:  # noqa: BLE001
                    got_s = "raised " + type(ex).__name__
                ctx.case(f"sequence:dump:{fmt}:{o}:{i}", nontrivial=i > 0)
                ctx.count(f"sequence:dump:{fmt}")
                if got_file != ref:
                    ctx.violation("C09:dump:differs-from-class-method" + ("-after-rewrite" if i else ""),
                                  f"ml.dump(<{o}>, <same path>, mode='w') call {i + 1}: file text differs from dump_{fmt} of the current object",
                                  {"target_sequence": {"fmt": fmt, "otype": o, "step": i}})
                    break
                if rex is None and got_s != ref:
                    ctx.violation("C09:dumps:differs-from-class-method" + ("-after-rewrite" if i else ""),
                                  f"ml.dumps(<{o}>, {fmt!r}) call {i + 1}: text differs from dumps_{fmt} of the current object",
                                  {"target_sequence": {"fmt": fmt, "otype": o, "step": i}})
                    break


def string_sequences(ctx, spy, contents: dict):
    """the same data string loaded again with another name / class, different strings alternating"""
    import molli as ml

    for fmt in ("xyz", "mol2"):
        texts = contents.get(fmt, [])[:2]
        if not texts:
            continue
        plan = []
        for t in texts + texts[:1]:
            for o in L.OTYPES:
                for name in (None, L.GIVEN_NAME, "second_name"):
                    plan.append((t, o, name))
        for e in ("loads", "loads_all"):
            for i, (t, o, name) in enumerate(plan):
                if e == "loads_all" and o == "ensemble":
                    continue
                kw = {"name": name} if name else {}
                try:
                    got, gex = getattr(ml, e)(t, fmt, otype=L.otype_arg(o), **kw), None
                except Exception as ex:  # noqa: BLE001
                    got, gex = None, ex
                try:
                    ref, rex = getattr(L.otype_cls(o), f"{e}_{fmt}")(t, **kw), None
                except Exception as ex:  # noqa: BLE001
                    ref, rex = None, ex
                ctx.case(f"sequence:{e}:{fmt}:{i}", nontrivial=i > 0 and rex is None)
                ctx.count(f"sequence:{e}:{fmt}")
                bad = exc_name(gex) != exc_name(rex) or (rex is None and canon_value(got) != canon_value(ref))
                if bad:
                    ctx.violation(f"C09:{e}:differs-from-class-method-in-a-sequence",
                                  f"ml.{e}(<{fmt} text>, otype={o}, name={name!r}) as call {i + 1} of a sequence differs from the class method",
                                  {"string_sequence": {"fmt": fmt, "entry": e, "step": i, "texts": texts}})
                    break


class Sink:
    """a caller-supplied sink as the class-level dump_xyz / dump_mol2 accept it: only write() is needed.
    kind: 'write-only' (no other attribute), 'flush-raises' / 'close-raises' (present, raise, recorded), 'recording'"""

    def __init__(self, kind):
        self.kind = kind
        self.parts = []
        self.calls = []
        if kind != "write-only":
            self.flush = self._flush
            self.close = self._close

    def write(self, text):
        self.calls.append("write")
        self.parts.append(text)
        return len(text)

    def _flush(self):
        self.calls.append("flush")
        if self.kind == "flush-raises":
            raise RuntimeError("flush() of a caller-owned sink")

    def _close(self):
        self.calls.append("close")
        if self.kind == "close-raises":
            raise RuntimeError("close() of a caller-owned sink")

    def text(self):
        return "".join(self.parts)


def sink_cases(ctx, spy, sample):
    """WRITER SIDE, caller-owned targets that are not files: ml.dump must treat the sink exactly as the class method
    does — same calls made on it (only write), same text, same outcome; for an unsupported format ValueError and no
    call at all."""
    import molli as ml

    for kind in ("write-only", "flush-raises", "close-raises", "recording"):
        for f, fs in (("xyz", "xyz"), ("mol2", "mol2"), ("cdxml", "cdxml"), ("unsupported", L.UNSUPPORTED_TABLE_FMT)):
            for o in L.OTYPES:
                obj = sample.objs[o]
                cell = ("dump", f, "stream", o, "notgiven", "explicitMatching")
                got_sink, ref_sink = Sink(kind), Sink(kind)
                try:
                    r, gex = ml.dump(obj, got_sink, fs), None
                except Exception as ex:  # noqa: BLE001
                    r, gex = None, ex
                if f in ("xyz", "mol2"):
                    try:
                        getattr(obj, f"dump_{f}")(ref_sink)
                        rex = None
                    except Exception as ex:  # noqa: BLE001
                        rex = ex
                    want_exc = exc_name(rex)
                else:
                    want_exc = "ValueError"
                ctx.case(f"sink:{sample.tag}:{kind}:{f}:{o}", nontrivial=True)
                ctx.count("sinks:" + kind)
                what = None
                if exc_name(gex) != want_exc:
                    what = f"outcome {exc_name(gex) or 'returned'}, the class method / the property: {want_exc or 'returned'}"
                elif set(got_sink.calls) - {"write"} != set(ref_sink.calls) - {"write"}:
                    what = f"calls made on the sink {sorted(set(got_sink.calls))}, by the class method {sorted(set(ref_sink.calls))}"
                elif got_sink.text() != ref_sink.text():
                    what = "text in the sink differs from the class method's"
                elif gex is None and r is not None:
                    what = f"returned {type(r).__name__}"
                if what:
                    ctx.violation("C09:dump:caller-sink-not-treated-as-by-class-method",
                                  f"ml.dump(<{o}>, <{kind} sink>, {fs!r}) on {sample.tag}: {what}",
                                  replay_obj(cell, sample, f"sink={kind}", what, "calls, text and outcome of the class-level dump on the same sink", fs))


def path_spelling_cases(ctx, spy, sample):
    """READER (and dump) SIDE: the path AS GIVEN decides — other spellings of a location (relative, with '..' segments,
    '~'), and symbolic links whose own suffix differs from the suffix of what they point to, in both directions; each call
    compared with the class-level codec given the SAME path (explicit format) / the format the given suffix names."""
    import molli as ml

    work = sample.workdir / "spell"
    (work / "sub" / "store").mkdir(parents=True, exist_ok=True)
    old_cwd, old_home = os.getcwd(), os.environ.get("HOME")
    try:
        os.chdir(work)
        os.environ["HOME"] = str(work)
        for f in ("xyz", "mol2"):
            text = Path(sample.files[f]).read_text()
            other = L.SUFFIX_OTHER[f]
            (work / f"plain.{f}").write_text(text)
            (work / "sub" / "store" / f"9c.blob").write_text(text)
            (work / "sub" / "store" / f"real{other}").write_text(text)
            (work / "sub" / "store" / f"real.{f}").write_text(text)
            L.make_link(work / f"to_blob.{f}", work / "sub" / "store" / "9c.blob")            # good suffix -> unsupported name
            L.make_link(work / f"to_other.{f}", work / "sub" / "store" / f"real{other}")      # good suffix -> other format's name
            L.make_link(work / "to_real.dat", work / "sub" / "store" / f"real.{f}")           # unsupported suffix -> good name
            L.make_link(work / f"to_real{other}", work / "sub" / "store" / f"real.{f}")       # other format's suffix -> this format
            spellings = [f"plain.{f}", f"./sub/../plain.{f}", f"~/plain.{f}", f"sub/store/../../plain.{f}",
                         f"to_blob.{f}", f"to_other.{f}", "to_real.dat", f"to_real{other}", f"~/to_blob.{f}"]
            for sp in spellings:
                for e in ("load", "load_all"):
                    for o in ("molecule", "ensemble", "structure"):
                        if e == "load_all" and o == "ensemble":
                            continue
                        C = L.otype_cls(o)
                        for fmt_arg in (None, f):
                            arg = sp if o != "structure" else Path(sp)
                            # reference: the class method on the SAME path; with no format given, the format the given
                            # suffix names decides (an unsupported / missing one: ValueError)
                            sfx = Path(sp).suffix[1:]
                            eff = fmt_arg or sfx
                            with warnings.catch_warnings():
                                warnings.simplefilter("ignore")
                                try:
                                    got, gex = getattr(ml, e)(arg, fmt_arg, otype=L.otype_arg(o)), None
                                except Exception as ex:  # noqa: BLE001
                                    got, gex = None, ex
                                if eff in ("xyz", "mol2"):
                                    try:
                                        ref, rex = getattr(C, f"{e}_{eff}")(arg), None
                                    except Exception as ex:  # noqa: BLE001
                                        ref, rex = None, ex
                                    want = exc_name(rex)
                                else:
                                    ref, want = None, "ValueError"
                            ctx.case(f"spelling:{sample.tag}:{e}:{o}:{sp}:{fmt_arg}", nontrivial=want is None)
                            ctx.count("path-spellings:" + ("link" if sp.lstrip("~/").startswith("to_") else "plain"))
                            what = None
                            if exc_name(gex) != want:
                                what = f"entry point: {exc_name(gex) or 'returned'}, class method on the same path: {want or 'returned'}"
                            elif want is None and canon_value(got) != canon_value(ref):
                                what = first_diff(canon_value(got), canon_value(ref))
                            if what:
                                cell = (e, f, "path", o, "notgiven", "deduced" if fmt_arg is None else "explicitMatching")
                                ctx.violation(f"C09:{e}:path-as-given-not-honoured",
                                              f"ml.{e}({sp!r}, {fmt_arg!r}, otype={o}) [cwd and HOME = a directory holding the files / links] on {sample.tag}: {what}",
                                              {"spelling": {"path": sp, "fmt": fmt_arg, "format_of_content": f, "entry": e, "otype": o,
                                                            "text": text if len(text) < 20000 else text[:20000]}})
            # dump: the suffix of the link as given names the format, whatever the link points to
            for sp, tgt in ((f"out_link.{f}", "out_target.blob"), (f"./sub/../out_plain.{f}", None)):
                for o in L.OTYPES:
                    obj = sample.objs[o]
                    if tgt:
                        (work / "sub" / "store" / tgt).write_text("")
                        L.make_link(work / sp, work / "sub" / "store" / tgt)
                    elif (work / f"out_plain.{f}").exists():
                        (work / f"out_plain.{f}").unlink()
                    st = io.StringIO()
                    getattr(obj, f"dump_{f}")(st)
                    try:
                        ml.dump(obj, sp, mode="w")
                        got = Path(sp).read_text()
                    except Exception as ex:  # noqa: BLE001
                        got = "raised " + type(ex).__name__
                    ctx.case(f"spelling:dump:{sample.tag}:{o}:{sp}")
                    ctx.count("path-spellings:dump")
                    if got != st.getvalue():
                        ctx.violation("C09:dump:path-as-given-not-honoured",
                                      f"ml.dump(<{o}>, {sp!r}) on {sample.tag}: " + (got if got.startswith("raised") else "text differs from the class method's"),
                                      {"spelling": {"path": sp, "fmt": None, "format_of_content": f, "entry": "dump", "otype": o}})
    finally:
        os.chdir(old_cwd)
        if old_home is None:
            os.environ.pop("HOME", None)
        else:
            os.environ["HOME"] = old_home


NONREG_TIMEOUT = 60.0


def _in_thread(fn, timeout=NONREG_TIMEOUT):
    """run fn() in a daemon thread: ('ok', value) | ('exc', exception) | ('timeout', None) — never blocks the check"""
    import threading

    box = {}

    def run():
        try:
            box["v"] = ("ok", fn())
        except BaseException as ex:  # noqa: BLE001
            box["v"] = ("exc", ex)

    t = threading.Thread(target=run, daemon=True)
    t.start()
    t.join(timeout)
    return box.get("v", ("timeout", None)), t


def _feed(opener, text, give_up=NONREG_TIMEOUT):
    """writer side of a pipe in a daemon thread: `opener()` returns a writable fd or raises OSError (ENXIO: no reader
    yet) — polled, never blocking; the text is written and the end closed"""
    import threading
    import time

    def run():
        t0 = time.time()
        fd = None
        while fd is None and time.time() - t0 < give_up:
            try:
                fd = opener()
            except OSError:
                time.sleep(0.005)
        if fd is None:
            return
        try:
            os.set_blocking(fd, True)
            data = text.encode("utf-8")
            while data:
                n = os.write(fd, data)
                data = data[n:]
        except OSError:
            pass
        finally:
            try:
                os.close(fd)
            except OSError:
                pass

    t = threading.Thread(target=run, daemon=True)
    t.start()
    return t


def _release_readers(fifo):
    """unblock anything still waiting to read a FIFO: open the writing end for a moment (the reader then sees EOF)"""
    try:
        fd = os.open(fifo, os.O_WRONLY | os.O_NONBLOCK)
        os.close(fd)
    except OSError:
        pass


class NonRegular:
    """makes a readable path that is NOT a regular file, holding `text`; every kind is fed by a polling writer thread"""

    KINDS = ["fifo", "dev-fd", "link-to-fifo"]

    def __init__(self, work: Path):
        self.work = work
        self.n = 0
        self.cleanup = []

    def make(self, kind, fmt, text):
        """-> (path, explicit format needed?)"""
        self.n += 1
        if kind == "dev-fd":
            r, w = os.pipe()
            _feed(lambda: w, text)
            self.cleanup.append(lambda: _close_quiet(r))
            return Path(f"/dev/fd/{r}"), True
        fifo = self.work / (f"pipe{self.n}.{fmt}" if kind == "fifo" else f"pipe{self.n}.fifo")
        if fifo.exists() or fifo.is_symlink():
            fifo.unlink()
        os.mkfifo(fifo)
        _feed(lambda: os.open(fifo, os.O_WRONLY | os.O_NONBLOCK), text)
        self.cleanup.append(lambda: (_release_readers(fifo), fifo.unlink(missing_ok=True)))
        if kind == "link-to-fifo":
            link = L.make_link(self.work / f"link{self.n}.{fmt}", fifo)
            self.cleanup.append(lambda: link.unlink(missing_ok=True))
            return link, False
        return fifo, False

    def done(self):
        for c in self.cleanup:
            try:
                c()
            except OSError:
                pass
        self.cleanup = []


def _close_quiet(fd):
    try:
        os.close(fd)
    except OSError:
        pass


def nonregular_path_cases(ctx, spy, sample):
    """PATHS THAT ARE READABLE BUT NOT REGULAR FILES: a named FIFO, /dev/fd/<n> of a pipe, a symbolic link to a FIFO —
    each fed by a writer thread — for load / load_all × xyz / mol2 × class, format given and (where the path has a
    suffix) deduced; compared with the class method reading the same kind of path.  Dump side: a FIFO and /dev/fd/<n>
    as targets (the class methods write to whatever `open` gives them).  Every open runs under a timeout."""
    import molli as ml

    work = sample.workdir / "nonregular"
    work.mkdir(exist_ok=True)
    nr = NonRegular(work)
    try:
        for f in ("xyz", "mol2"):
            text = Path(sample.files[f]).read_text()
            if len(text) > 200_000:
                continue
            for kind in NonRegular.KINDS:
                for e in ("load", "load_all"):
                    for o in L.OTYPES:
                        if e == "load_all" and o == "ensemble":
                            continue
                        C = L.otype_cls(o)
                        # reference: the class method on a fresh path of the same kind
                        rp_, _ = nr.make(kind, f, text)
                        (rkind, rval), _t = _in_thread(lambda: getattr(C, f"{e}_{f}")(rp_ if o != "structure" else str(rp_)))
                        nr.done()
                        for fmt_arg in ((f,) if kind == "dev-fd" else (f, None)):
                            gp, _ = nr.make(kind, f, text)
                            with warnings.catch_warnings():
                                warnings.simplefilter("ignore")
                                (gkind, gval), gt = _in_thread(lambda: getattr(ml, e)(gp if o != "structure" else str(gp), fmt_arg, otype=L.otype_arg(o)))
                            nr.done()
                            ctx.case(f"nonregular:{sample.tag}:{kind}:{e}:{f}:{o}:{fmt_arg}", nontrivial=rkind == "ok")
                            ctx.count("nonregular-paths:" + kind)
                            what = None
                            if rkind == "timeout":
                                ctx.disagree("class method did not return from a non-regular path", f"{kind} {e} {f} {o}", "timeout", "a molecule")
                                continue
                            if gkind == "timeout":
                                what = f"the entry point did not return within {NONREG_TIMEOUT:.0f} s, the class method did"
                            elif gkind != rkind:
                                what = (f"entry point: {type(gval).__name__ if gkind == 'exc' else 'returned'}, class method on the same kind of path: "
                                        f"{type(rval).__name__ if rkind == 'exc' else 'returned'}")
                            elif gkind == "exc" and type(gval) is not type(rval):
                                what = f"entry point raised {type(gval).__name__}, class method {type(rval).__name__}"
                            elif gkind == "ok" and canon_value(gval) != canon_value(rval):
                                what = first_diff(canon_value(gval), canon_value(rval))
                            if what:
                                ctx.violation(f"C09:{e}:non-regular-path-not-read-as-by-class-method",
                                              f"ml.{e}(<{kind} holding {f} text>, {fmt_arg!r}, otype={o}) on {sample.tag}: {what}",
                                              {"nonregular": {"kind": kind, "entry": e, "fmt": f, "fmt_arg": fmt_arg, "otype": o,
                                                              "text": text if len(text) < 20000 else text[:20000]}})
            # dump side: the text arrives at a reader of the FIFO / pipe, as with the class method on open(path, "w")
            for kind in ("fifo", "dev-fd"):
                for o in L.OTYPES:
                    obj = sample.objs[o]
                    st = io.StringIO()
                    getattr(obj, f"dump_{f}")(st)
                    want = st.getvalue()
                    got = {}
                    if kind == "fifo":
                        target = work / f"sink_{o}.{f}"
                        if target.exists():
                            target.unlink()
                        os.mkfifo(target)

                        def reader():
                            fd = os.open(target, os.O_RDONLY | os.O_NONBLOCK)     # never blocks; then wait for the text
                            return _drain(fd)
                    else:
                        r, w = os.pipe()
                        target = Path(f"/dev/fd/{w}")

                        def reader():
                            return _drain(r, close_first=w, when=dumped)
                    import threading

                    dumped = threading.Event()
                    rt = threading.Thread(target=lambda: got.setdefault("text", reader()), daemon=True)
                    rt.start()          # the reader drains while dump writes (a text larger than the pipe buffer must not block it)
                    (dk, dv), _t = _in_thread(lambda: ml.dump(obj, target, f, mode="w"))
                    dumped.set()
                    rt.join(NONREG_TIMEOUT)
                    if kind == "fifo":
                        target.unlink(missing_ok=True)
                    ctx.case(f"nonregular:dump:{sample.tag}:{kind}:{f}:{o}", nontrivial=True)
                    ctx.count("nonregular-paths:dump-" + kind)
                    what = None
                    if dk == "timeout":
                        what = "ml.dump did not return"
                    elif dk == "exc":
                        what = f"ml.dump raised {type(dv).__name__}"
                    elif got.get("text") != want:
                        what = "the text that arrived differs from the class method's"
                    if what:
                        ctx.violation("C09:dump:non-regular-target-not-written-as-by-class-method",
                                      f"ml.dump(<{o}>, <{kind}>, {f!r}, mode='w') on {sample.tag}: {what}",
                                      {"nonregular": {"kind": kind, "entry": "dump", "fmt": f, "otype": o}})
    finally:
        nr.done()


def _drain(fd, close_first=None, when=None, timeout=NONREG_TIMEOUT):
    """read a pipe end until EOF (or the timeout) without ever blocking for good; `close_first`: our own copy of the
    writing end, closed once the event `when` is set (the writer is done), so that EOF can arrive"""
    import select
    import time

    t0 = time.time()
    chunks = []
    seen_data = False
    closed_writer = False
    try:
        while time.time() - t0 < timeout:
            if close_first is not None and not closed_writer and (when is None or when.is_set()):
                _close_quiet(close_first)      # our copy of the writing end: EOF comes when dump's own handle is closed
                closed_writer = True
            r, _, _ = select.select([fd], [], [], 0.05)
            if not r:
                continue
            try:
                b = os.read(fd, 65536)
            except BlockingIOError:
                continue
            if b:
                seen_data = True
                chunks.append(b)
            elif (seen_data and close_first is None) or closed_writer:
                break
            else:
                time.sleep(0.005)       # FIFO: no writer has opened yet
    finally:
        _close_quiet(fd)
        if close_first is not None and not closed_writer:
            _close_quiet(close_first)
    return b"".join(chunks).decode("utf-8", errors="replace")


def failing_dump_cases(ctx, spy, sample):
    """A DUMP THAT FAILS leaves the caller's file alone: a target path that already holds earlier records (the default
    mode appends), then a dump that raises — for every failure class the entry point can meet.  Afterwards the file
    exists and holds the earlier records followed by exactly what the class-level dump wrote before it raised (nothing,
    when the failure comes before the codec is reached); the exception is the class method's / ValueError."""
    import molli as ml

    work = sample.workdir / "failing"
    work.mkdir(exist_ok=True)
    earlier = "EARLIER RECORD 1\nEARLIER RECORD 2\n"
    mol, ens = sample.objs["molecule"], sample.objs["ensemble"]

    class Halfway:
        """an object whose class-level dump writes a part and then fails"""
        name = "halfway"

        def dump_xyz(self, stream, **kw):
            stream.write("2\nhalfway\nC 0.0 0.0 0.0\n")
            raise RuntimeError("lost the second atom")

        dump_mol2 = dump_xyz

    plans = []      # (what, target name, call kwargs, object, expected exception, class-level partial text)
    for fs in [L.UNSUPPORTED_TABLE_FMT, "zzz", "cdxml", "XYZ"]:
        plans.append((f"unsupported format {fs!r}", "records.xyz", dict(fmt=fs), mol, "ValueError", ""))
    plans.append(("format deduced from an unsupported suffix", "records.pdb", dict(fmt=None), mol, "ValueError", ""))
    plans.append(("format deduced from a missing suffix", "records", dict(fmt=None), mol, "ValueError", ""))
    plans.append(("unknown writer", "records.xyz", dict(fmt="xyz", writer="nope"), mol, "ValueError", ""))
    plans.append(("a keyword the class-level dump does not accept", "records.xyz", dict(fmt="xyz", bogus=1), mol, "TypeError", ""))
    plans.append(("write_header for an ensemble (its dump_xyz takes no such keyword)", "records.xyz", dict(fmt="xyz", write_header=False), ens, "TypeError", ""))
    plans.append(("an object without a codec", "records.mol2", dict(fmt="mol2"), [], "AttributeError", ""))
    plans.append(("a class-level dump that fails half-way", "records.xyz", dict(fmt="xyz"), Halfway(), "RuntimeError", "2\nhalfway\nC 0.0 0.0 0.0\n"))
    plans.append(("a class-level dump that fails half-way (mol2)", "records.mol2", dict(fmt=None), Halfway(), "RuntimeError", "2\nhalfway\nC 0.0 0.0 0.0\n"))
    for what, tname, kw, obj, want_exc, partial in plans:
        for as_str in (False, True):
            p = work / tname
            p.write_text(earlier)
            kw2 = dict(kw)
            fmt = kw2.pop("fmt")
            try:
                ml.dump(obj, str(p) if as_str else p, fmt, **kw2)
                got_exc = None
            except Exception as ex:  # noqa: BLE001
                got_exc = type(ex).__name__
            after = p.read_text() if p.exists() else None
            ctx.case(f"failing-dump:{sample.tag}:{what}:{as_str}", nontrivial=True)
            ctx.count("failing-dumps")
            problem = None
            if after is None:
                problem = "the file with the earlier records is gone"
            elif after != earlier + partial:
                problem = f"the file holds {after[:80]!r}... instead of the earlier records" + (" followed by what the class method wrote" if partial else "")
            elif got_exc != want_exc:
                problem = f"raised {got_exc}, expected {want_exc}"
            if problem:
                cell = ("dump", "unsupported" if want_exc == "ValueError" else "xyz", "path", "molecule", "notgiven", "explicitMatching")
                ctx.violation("C09:dump:earlier-records-damaged-by-a-failing-dump" if after != earlier + partial else "C09:dump:failure-class",
                              f"ml.dump to a path holding earlier records, {what}: {problem}",
                              {"failing_dump": {"what": what, "target": tname, "fmt": fmt, "kwargs": {k: repr(v) for k, v in kw2.items()},
                                                "object": type(obj).__name__, "as_str": as_str}})
                break


def unsupported_cases(ctx, spy, sample):
    """every unsupported format string is a ValueError, nothing is written, the caller's stream stays open"""
    import molli as ml

    for fs in [L.UNSUPPORTED_TABLE_FMT] + L.UNSUPPORTED_MORE:
        for e in L.ENTRIES:
            for k in L.KINDS:
                for pf in (L.PATHFORMS if k == "path" else L.PATHFORMS[:1]):
                    cell = (e, "unsupported", k, "molecule", "notgiven", pf)
                    if not L.applicable(cell):
                        continue
                    if fs == "" and pf not in ("explicitMatching", "explicitNoSuffix"):
                        continue     # an empty format string reads as "no format given": the suffix may then decide
                    with warnings.catch_warnings():
                        warnings.simplefilter("ignore")
                        obs = L.call_entry(spy, cell, sample, fs, out_name="unsup")
                    ctx.case(f"unsupported:{e}:{k}:{pf}:{fs!r}", nontrivial=True)
                    ctx.count("unsupported-format-strings")
                    tag = (cell, sample, f"fmt={fs!r}")
                    if not isinstance(obs["exc"], ValueError) or type(obs["exc"]) is not ValueError:
                        report(ctx, f"C09:{e}:unsupported-format-not-valueerror", tag,
                               f"{exc_name(obs['exc']) or 'returned ' + type(obs['ret']).__name__}", fs)
                    if obs["calls"]:
                        report(ctx, f"C09:{e}:codec-reached-for-unsupported-format", tag, obs["calls"][0]["meth"], fs)
                    if obs["caller_stream"] is not None and (obs["caller_stream"].closed or obs["written"] != obs["before"]):
                        report(ctx, "C09:dump:stream-ownership", tag, "caller's stream closed or written to", fs)
                    if obs["target_path"] is not None and obs["written"] != obs["before"]:
                        report(ctx, "C09:dump:text-written-for-unsupported-format", tag,
                               "the target file lost its earlier records" if not (obs["written"] or "").startswith(obs["before"]) else "the target file received text", fs)
    # format deduced from a suffix that names no supported format / no suffix at all
    for e in ("load", "load_all"):
        for suffix in (".pdb", "", ".XYZ"):
            p = sample.workdir / f"unsupported_suffix{suffix}"
            p.write_text(sample.text("xyz"))
            try:
                getattr(ml, e)(p)
                res = "returned"
            except Exception as ex:  # noqa: BLE001
                res = type(ex).__name__
            ctx.case(f"unsupported-suffix:{e}:{suffix!r}")
            if res != "ValueError":
                cell = (e, "unsupported", "path", "molecule", "notgiven", "deduced")
                report(ctx, f"C09:{e}:unsupported-format-not-valueerror", (cell, sample, f"suffix={suffix!r}"), res, suffix[1:])


# --------------------------------------------------------------------------------------
def run(ctx):
    import molli as ml  # noqa: F401
    from harness.gen import Dispatch as G

    ctx.exhaustive = True
    ctx.rule = ("(1) every cell of the 6x4x3x3x2x6 matrix (2592, exhaustive; the sixth dimension is the form of a path argument: "
                "explicit format with matching / no / other supported / unsupported suffix, or format deduced from the suffix) is "
                "one case; non-trivial = the cell lies in the domain of its entry point (372 cells) — it is really called with "
                "spies installed. (2) content cases: (applicable cell, input sample, call variant [str path / mode w / append to "
                "existing file]); (2b) sequences in one process: the same path rewritten with other content between calls (every "
                "format, load and load_all, every class, with and without name), the same target dumped to again, the same "
                "string loaded with other names / classes; samples = bundled xyz/mol2/cdxml files and generated multi-frame molecules "
                "(0..13 atoms, 1..7 frames, random names, some empty sources); non-trivial = the class method returns "
                "(a raising class method is compared by exception class only); distinct by (cell, sample, variant). "
                "(3) unsupported format strings x entry points x target kinds, suffix deduction, CDXML keys.")
    ctx.assumptions += [
        "C09: the class-level codec a cell is compared with is the method of the requested class named <entry>_<format> "
        "(CDXML: CDXMLFile(path)._parse_fragment / __getitem__, converted with the requested class); a class method that "
        "raises by itself (Structure.dumps_mol2, empty sources) is compared by exception class",
        "C09: the openbabel parser/writer branches are outside the matrix (openbabel is not installed)",
    ]
    pr = ctx.proof(props=["Molli.Props.C09"], gen=["Dispatch"])
    work = ctx.scratch

    # ---------------- (1) the table, cell by cell, against the Lean spec through the driver ----------------
    if not G._last:
        try:
            a, cr, tag = G.observe_all()
            G._last.update({"actions": a, "cr": cr, "tag": tag})
        except Exception as e:  # noqa: BLE001
            ctx.disagree("observation of the dispatch table failed", "all cells", f"{type(e).__name__}: {e}", "an action per cell")
    if G._last:
        actions, cr = G._last["actions"], G._last["cr"]
        triples = G.cr_triples(cr)
        crs = ",".join(f"{L.LEAN_OTYPE[o]}:{L.LEAN_ENTRY[e]}:{f}" for o, e, f in triples) or "-"
        ctx.extra_cov["class_methods_raising_on_probe"] = [list(t) for t in triples]
        cells = list(L.all_cells())
        lines = [f"spec {crs} {L.LEAN_ENTRY[e]} {f} {k} {o} {L.LEAN_NAME[n]} {pf}" for (e, f, k, o, n, pf) in cells]
        outs = ctx.driver(lines)
        default = L.default_sample(work)
        for c, line in zip(cells, outs):
            obs_key = L.action_key(actions[c])
            ctx.case("cell:" + L.cell_str(c), nontrivial=L.applicable(c))
            ctx.count("cells:applicable" if L.applicable(c) else "cells:not-applicable")
            if L.applicable(c):
                ctx.count("cell-result:" + actions[c]["result"].split(":")[0] +
                          (":" + actions[c]["result"].split(":")[1] if actions[c]["result"].startswith("raised") else ""))
            if obs_key != line:
                dem = parse_action(line)
                kind = table_violation_kind(c, actions[c], dem)
                ctx.disagree("observed action differs from the specified action", L.cell_str(c), obs_key, line)
                ctx.violation(kind, f"{describe_call(c, L.fmt_string(c))}: observed [{obs_key}] but the property demands [{line}]",
                              replay_obj(c, default, "table-probe", obs_key, line, L.fmt_string(c)))
        ctx.sample({"cell": "load xyz path ensemble given", "observed": L.action_key(actions[("load", "xyz", "path", "ensemble", "given", "explicitMatching")])})
        ctx.sample({"cell": "dump xyz path molecule notgiven explicitOtherSuffix",
                    "observed": L.action_key(actions[("dump", "xyz", "path", "molecule", "notgiven", "explicitOtherSuffix")])})

    # ---------------- (2) content agreement ----------------
    samples = corpus_samples(ctx, work) + bundled_samples(ctx, work)
    ngen = 6 if ctx.quick() else 90
    with L.Spy() as spy:
        for i in range(len(samples) + ngen):
            ctx.check_deadline()
            if i < len(samples):
                s = samples[i]
                if s.tag.startswith("bundled"):
                    ctx.count("samples:bundled")
            else:
                s = generated_sample(ctx, work, i)
                ctx.count("samples:generated")
            if i in (0, len(samples)):
                ctx.sample({"sample": s.tag, "cells": "all applicable cells x call variants"})
            # the table is exhaustive over the path forms; the content run takes the non-plain forms on every third
            # (thorough: every second) sample
            all_forms = i % (3 if ctx.quick() else 2) == 0
            for c in L.all_cells():
                if not L.applicable(c) or (c[5] != "explicitMatching" and not all_forms):
                    continue
                n = content_cell(ctx, spy, c, s)
                if n:
                    ctx.case(f"content:{L.cell_str(c)}:{s.tag}", nontrivial=True)
                    ctx.evaluations += n - 1
            if i < len(samples) or i % 10 == 0:
                cdxml_key_cases(ctx, spy, s)
                optional_argument_cases(ctx, spy, s)
            if i < 3 or not ctx.quick():
                unsupported_cases(ctx, spy, s)
            if i < 3 or (not ctx.quick() and i % 3 == 0):
                sink_cases(ctx, spy, s)
                path_spelling_cases(ctx, spy, s)
                failing_dump_cases(ctx, spy, s)
            if (i < 2 and ctx.quick()) or (not ctx.quick() and i % 3 == 0):
                nonregular_path_cases(ctx, spy, s)
            if i == len(samples) - 1:
                # ---------------- (2b) sequences of calls: hidden state between calls ----------------
                contents = {"xyz": [], "mol2": [], "cdxml": []}
                for sm in samples:
                    for fmt in contents:
                        fp = Path(sm.files[fmt])
                        if fp.stat().st_size < 250_000:
                            t = fp.read_text()
                            if t not in contents[fmt] and len(contents[fmt]) < (3 if ctx.quick() else 6):
                                contents[fmt].append(t)
                sequence_cases(ctx, spy, work, contents)
                string_sequences(ctx, spy, contents)
                target_sequences(ctx, spy, work, samples)
            # keep the scratch directory small
            gd = work / f"gen{i}"
            if gd.exists():
                shutil.rmtree(gd, ignore_errors=True)


# --------------------------------------------------------------------------------------
def replay(ctx, path):
    from harness.common import REPO

    path = Path(path)
    if not path.exists() and not path.is_absolute():
        from harness.common import VERIF

        path = VERIF / path
    obj = json.loads(path.read_text())
    print(json.dumps({k: v for k, v in obj.items() if k != "replay"}, indent=1)[:1500])
    r = obj.get("replay") or {}
    if "nonregular" in r:
        q = r["nonregular"]
        print(f"re-running the non-regular path cases; looking for: ml.{q['entry']} on a {q['kind']} holding {q['fmt']} text, otype={q.get('otype')}")
        files = {"xyz": REPO / "molli/files/pentane_confs.xyz", "mol2": REPO / "molli/files/pentane_confs.mol2",
                 "cdxml": REPO / "molli/files/parser_demo.cdxml"}
        if q.get("text"):
            fp = ctx.scratch / ("replay." + q["fmt"])
            fp.write_text(q["text"])
            files[q["fmt"]] = fp
        s_ = make_sample(files, ctx.scratch, "replay", None)

        class _P:
            def case(self, *a, **k): pass
            def count(self, *a, **k): pass
            def disagree(self, *a, **k): print("  broken correspondence", a[:3])
            def violation(self, kind, what, rp):
                if rp["nonregular"]["kind"] == q["kind"] and rp["nonregular"]["entry"] == q["entry"] and rp["nonregular"]["fmt"] == q["fmt"]:
                    print("  VIOLATION", kind, "-", what[:300])

        with L.Spy() as spy:
            nonregular_path_cases(_P(), spy, s_)
        return 0
    if "failing_dump" in r:
        files = {"xyz": REPO / "molli/files/pentane_confs.xyz", "mol2": REPO / "molli/files/pentane_confs.mol2",
                 "cdxml": REPO / "molli/files/parser_demo.cdxml"}
        s_ = make_sample(files, ctx.scratch, "replay", None)
        print("re-running the failing dumps on a file that holds earlier records; looking for:", r["failing_dump"]["what"])

        class _P:
            def case(self, *a, **k): pass
            def count(self, *a, **k): pass
            def violation(self, kind, what, rp): print("  VIOLATION", kind, "-", what[:400])

        with L.Spy() as spy:
            failing_dump_cases(_P(), spy, s_)
        return 0
    if "spelling" in r:
        import molli as ml

        q = r["spelling"]
        print(f"ml.{q['entry']}({q['path']!r}, {q['fmt']!r}, otype={q['otype']}) with cwd = HOME = a directory holding {q['format_of_content']} content under "
              "plain.<fmt>, sub/store/9c.blob, sub/store/real.<fmt|other> and the links to_blob.<fmt>, to_other.<fmt>, to_real.dat, to_real.<other>")
        files = {"xyz": REPO / "molli/files/pentane_confs.xyz", "mol2": REPO / "molli/files/pentane_confs.mol2",
                 "cdxml": REPO / "molli/files/parser_demo.cdxml"}
        if q.get("text"):
            fp = ctx.scratch / ("replay." + q["format_of_content"])
            fp.write_text(q["text"])
            files[q["format_of_content"]] = fp
        s_ = make_sample(files, ctx.scratch, "replay", None)

        class _P:
            def case(self, *a, **k): pass
            def count(self, *a, **k): pass
            def violation(self, kind, what, rp):
                if rp.get("spelling", {}).get("path") == q["path"] and rp["spelling"].get("entry") == q["entry"]:
                    print("  VIOLATION", kind, "-", what[:400])

        with L.Spy() as spy:
            path_spelling_cases(_P(), spy, s_)
        return 0
    if "sequence" in r:
        q = r["sequence"]
        print(f"sequence on ONE path: ml.{q['entry']}(<{q['fmt']} path>, otype={q['otype']}, name={q['name']!r}); the file is rewritten "
              f"before every call ({len(q['steps'])} contents)")

        class _P:      # minimal stand-in: print violations instead of recording them
            def case(self, *a, **k): pass
            def count(self, *a, **k): pass
            def violation(self, kind, what, rp): print("  VIOLATION", kind, "-", what)

        seq_compare(_P(), ctx.scratch, q["fmt"], q["steps"], q["entry"], q["otype"], q["name"], q["as_str"], verbose=True)
        return 0
    if "cell" not in r:
        print(json.dumps(obj, indent=1)[:3000])
        return 0
    cell = tuple(r["cell"])
    work = ctx.scratch
    files = {}
    for k, v in r["files"].items():
        if isinstance(v, str) and v.startswith("repo:"):
            files[k] = REPO / v[5:]
        else:
            p = work / f"replay.{k}"
            p.write_text(v["text"])
            files[k] = p
    s = make_sample(files, work, r.get("sample", "replay"), None)
    fmt = r.get("fmt")
    v = str(r.get("variant"))
    print("call    :", r.get("call"), "| variant:", v)
    if v.startswith("key="):
        import ast
        import molli as ml

        kpart, _, npart = v.partition("|name=")
        key = ast.literal_eval(kpart[4:])
        kw = {"name": L.GIVEN_NAME} if cell[4] == "given" else {}
        if npart and ast.literal_eval(npart) is not None:
            kw = {"name": ast.literal_eval(npart)}
        with warnings.catch_warnings():
            warnings.simplefilter("ignore")
            try:
                m = ml.load(files["cdxml"], "cdxml", key, otype=L.otype_arg(cell[3]), **kw)
                print(f"observed: ml.load(<cdxml>, 'cdxml', {key!r}, {kw}) returned {type(m).__name__} named {m.name!r}, {m.n_atoms} atoms")
            except Exception as ex:  # noqa: BLE001
                print(f"observed: ml.load(<cdxml>, 'cdxml', {key!r}, {kw}) raised {type(ex).__name__}")
            try:
                ref = keyed_reference(files["cdxml"], key, cell[3], kw.get("name"))
                print(f"class-level: CDXMLFile(path)[{key!r}] -> {type(ref).__name__} named {ref.name!r}, {ref.n_atoms} atoms")
            except Exception as ex:  # noqa: BLE001
                print(f"class-level: CDXMLFile(path)[{key!r}] raised {type(ex).__name__}")
        print("demanded:", r.get("demanded"), "(and the name override honoured)")
        return 0
    with L.Spy() as spy, warnings.catch_warnings():
        warnings.simplefilter("ignore")
        obs = L.call_entry(spy, cell, s, fmt, path_as_str=(v == "str-path"),
                           mode={"mode-w": "w", "append-existing": "a-existing", "no-file-yet": "fresh"}.get(v))
        act = L.classify(cell, obs)
    print("observed:", L.action_key(act))
    print("   value:", exc_name(obs["exc"]) or type(obs["ret"]).__name__, "| names:", L.names_of(obs["ret"])[:3] if obs["exc"] is None else "-")
    print("demanded:", r.get("demanded"))
    return 0
