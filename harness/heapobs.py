"""
Real-code side of property C06: random source objects of every molecule class, the copy routes,
the encoding of a real object graph for the Lean heap model (every mutable object gets an identity),
the canonical observation string (the driver's `showObs` format), the aliasing analysis
(by id() at every nesting level, np.shares_memory for arrays), the deep snapshot used by the
model-free oracle and the list of mutations the oracle applies.
"""
from __future__ import annotations

import copy
import math
import pickle
import struct
import warnings

import numpy as np

CLS_CODE = {"Promolecule": 1, "Connectivity": 2, "CartesianGeometry": 3, "Structure": 4, "Molecule": 5,
            "ConformerEnsemble": 6, "Conformer": 5}
KINDS = ["Promolecule", "Connectivity", "CartesianGeometry", "Structure", "Molecule", "ConformerEnsemble", "Conformer"]


def _bits(x) -> str:
    x = float(x)
    return "nan" if math.isnan(x) else struct.pack(">d", x).hex()


class Intern:
    """one table per case: every scalar value (ints, floats by bit pattern, strings, None, enums by value) -> small int"""

    def __init__(self):
        self.t = {}

    def __call__(self, v) -> int:
        if isinstance(v, (bool, np.bool_)):
            k = ("b", bool(v))
        elif isinstance(v, (int, np.integer)):
            k = ("i", int(v))
        elif isinstance(v, (float, np.floating)):
            k = ("f", _bits(v))
        elif v is None:
            k = ("n",)
        elif isinstance(v, str):
            k = ("s", v)
        else:
            k = ("r", type(v).__name__, repr(v))
        if k not in self.t:
            self.t[k] = len(self.t)
        return self.t[k]


class Ids:
    """identity of every mutable Python object met (objects are kept alive so that id() is not reused)"""

    def __init__(self):
        self.m = {}
        self.keep = []

    def of(self, obj) -> int:
        k = id(obj)
        if k not in self.m:
            self.m[k] = len(self.m)
            self.keep.append(obj)
        return self.m[k]

    def fresh(self) -> int:
        o = object()
        return self.of(o)

    @property
    def count(self):
        return len(self.m)


# ---------------------------------------------------------------------------------------------
# class-independent accessors
# ---------------------------------------------------------------------------------------------
def clsname(o) -> str:
    return type(o).__name__


def owner(o):
    """the object atoms and bonds name as parent: the object itself, for a Conformer its ensemble"""
    return o._parent if clsname(o) == "Conformer" else o


def has_bonds(o) -> bool:
    return hasattr(o, "bonds") and clsname(o) not in ("Promolecule", "CartesianGeometry")


def arrays_of(o) -> list:
    """[coords, charges, weights] as far as the class has them (the array objects themselves)"""
    n = clsname(o)
    if n in ("Promolecule", "Connectivity"):
        return []
    if n in ("CartesianGeometry", "Structure"):
        return [o.coords]
    if n in ("Molecule", "Conformer"):
        return [o.coords, o.atomic_charges]
    if n == "ConformerEnsemble":
        return [o.coords, o.atomic_charges, o.weights]
    raise ValueError(n)


def atom_fields(a, I) -> list[int]:
    return [I(int(a.element)), I(a.isotope), I(a.label), I(int(a.atype)), I(int(a.stereo)), I(int(a.geom)),
            I(a.formal_charge), I(a.formal_spin)]


def bond_fields(b, I) -> list[int]:
    return [I(b.label), I(int(b.btype)), I(int(b.stereo)), I(float(b.f_order))]


def scalars_of(o, I) -> list[int]:
    return [0 if o.name == "unknown" else I(("name", o.name)) + 1, int(o.charge), int(o.mult)]


def _ints(l) -> str:
    return ",".join(str(int(x)) for x in l) if len(l) else "-"


def is_container(v) -> bool:
    return isinstance(v, (dict, list))


def ent_tokens(c, I, ids: Ids | None) -> list[str]:
    """prefix tokens of the entries of container c (dict or list); with ids: identities of nested containers"""
    items = c.items() if isinstance(c, dict) else enumerate(c)
    out = []
    for k, v in items:
        kc = I(("key", k)) if isinstance(c, dict) else int(k)
        if is_container(v):
            tag = 0 if isinstance(v, dict) else 1
            out.append(f"c.{kc}.{tag}" + (f".{ids.of(v)}" if ids is not None else ""))
            out += ent_tokens(v, I, ids)
            out.append("e")
        else:
            out.append(f"s.{kc}.{I(v)}")
    return out


def array_codes(arr, I) -> list[int]:
    return [I(float(x)) for x in np.asarray(arr, dtype=float).ravel()]


def parent_ok(x, o) -> bool:
    try:
        return x.parent is owner(o)
    except Exception:
        return False


# ---------------------------------------------------------------------------------------------
# canonical observation (driver's showObs) and encoding for the model
# ---------------------------------------------------------------------------------------------
def obs_string(o, I) -> str:
    atoms = list(o.atoms)
    pos = {id(a): i for i, a in enumerate(atoms)}
    A = "+".join(f"{_ints(atom_fields(a, I))}/{','.join(ent_tokens(a.attrib, I, None))}/{1 if parent_ok(a, o) else 0}"
                 for a in atoms)
    B = ""
    if has_bonds(o):
        B = "+".join(
            f"{pos.get(id(b.a1), len(atoms))}/{pos.get(id(b.a2), len(atoms))}/{_ints(bond_fields(b, I))}/"
            f"{','.join(ent_tokens(b.attrib, I, None))}/{1 if parent_ok(b, o) else 0}" for b in o.bonds)
    R = "+".join(_ints(array_codes(r, I)) for r in arrays_of(o))
    return f"{CLS_CODE[clsname(o)]}|{_ints(scalars_of(o, I))}|{','.join(ent_tokens(o.attrib, I, None))}|{A}|{B}|{R}"


def encode_mol(o, I, ids: Ids) -> str:
    """`M …` group of the driver request: the object graph with identities"""
    mid = ids.of(o)

    def box(d):
        return f"{ids.of(d)}/{','.join(ent_tokens(d, I, ids))}"

    abox = box(o.attrib)
    aid = ids.of(o.atoms)
    atoms = []
    for a in o.atoms:
        i = ids.of(a)
        atoms.append(f"{i};{_ints(atom_fields(a, I))};{box(a.attrib)};{mid if parent_ok(a, o) else '-'}")
    if has_bonds(o):
        bid = ids.of(o.bonds)
        bonds = []
        for b in o.bonds:
            i = ids.of(b)
            bonds.append(f"{i};{ids.of(b.a1)};{ids.of(b.a2)};{_ints(bond_fields(b, I))};{box(b.attrib)};"
                         f"{mid if parent_ok(b, o) else '-'}")
    else:
        bid, bonds = ids.fresh(), []
    arrs = [f"{ids.of(r)};{_ints(array_codes(r, I))}" for r in arrays_of(o)]
    return " ".join(["M", str(mid), str(CLS_CODE[clsname(o)]), _ints(scalars_of(o, I)), abox, str(aid),
                     "+".join(atoms) or "-", str(bid), "+".join(bonds) or "-", "+".join(arrs) or "-"])


# ---------------------------------------------------------------------------------------------
# aliasing: which mutable objects of `res` are also held by a source
# ---------------------------------------------------------------------------------------------
def walk(o, with_owner=True):
    """(path, object) for every mutable object reachable from o (arrays listed separately)"""
    out = [("mol", o)]

    def cont(path, c):
        out.append((path, c))
        items = c.items() if isinstance(c, dict) else enumerate(c)
        for k, v in items:
            if is_container(v):
                cont(f"{path}[{k!r}]", v)

    cont("attrib", o.attrib)
    out.append(("atoms", o.atoms))
    for i, a in enumerate(o.atoms):
        out.append((f"atoms[{i}]", a))
        cont(f"atoms[{i}].attrib", a.attrib)
    if has_bonds(o):
        out.append(("bonds", o.bonds))
        for i, b in enumerate(o.bonds):
            out.append((f"bonds[{i}]", b))
            cont(f"bonds[{i}].attrib", b.attrib)
    if with_owner and clsname(o) == "Conformer":
        out += [("owner:" + p, x) for p, x in walk(o._parent, False)]
    return out


def shared_paths(res, sources) -> list[str]:
    src_ids = {}
    src_arrays = []
    for s in sources:
        for p, x in walk(s):
            src_ids.setdefault(id(x), p)
        src_arrays += [(f"array{i}", r) for i, r in enumerate(arrays_of(s))]
        if clsname(s) == "Conformer":
            src_arrays += [(f"owner.array{i}", r) for i, r in enumerate(arrays_of(s._parent))]
    out = []
    for p, x in walk(res, False):
        if id(x) in src_ids:
            out.append(f"{p} is source.{src_ids[id(x)]}")
    for i, r in enumerate(arrays_of(res)):
        for sp, sr in src_arrays:
            if isinstance(r, np.ndarray) and isinstance(sr, np.ndarray) and np.shares_memory(r, sr):
                out.append(f"array{i} shares memory with source.{sp}")
    if has_bonds(res):
        atoms = {id(a) for a in res.atoms}
        for i, b in enumerate(res.bonds):
            for e in (b.a1, b.a2):
                if id(e) not in atoms and id(e) in src_ids:
                    out.append(f"bonds[{i}] end is source.{src_ids[id(e)]}")
    return out


# ---------------------------------------------------------------------------------------------
# deep snapshot (model-free): everything observable, identities excluded
# ---------------------------------------------------------------------------------------------
def snapshot(o) -> dict:
    atoms = list(o.atoms)
    pos = {id(a): i for i, a in enumerate(atoms)}
    d = {"cls": "Molecule" if clsname(o) == "Conformer" else clsname(o), "name": o.name, "charge": int(o.charge),
         "mult": int(o.mult), "attrib": copy.deepcopy(o.attrib), "atoms": [], "bonds": [], "arrays": []}
    for i, a in enumerate(atoms):
        try:
            idx = a.idx if clsname(o) != "Conformer" else a.parent.index_atom(a)
        except Exception as e:
            idx = f"raised {type(e).__name__}"
        d["atoms"].append((int(a.element), a.isotope, a.label, int(a.atype), int(a.stereo), int(a.geom), a.formal_charge,
                           a.formal_spin, copy.deepcopy(a.attrib), parent_ok(a, o), idx))
    if has_bonds(o):
        for b in o.bonds:
            d["bonds"].append((pos.get(id(b.a1), -1), pos.get(id(b.a2), -1), b.label, int(b.btype), int(b.stereo),
                               float(b.f_order), copy.deepcopy(b.attrib), parent_ok(b, o)))
    for r in arrays_of(o):
        r = np.asarray(r)
        d["arrays"].append((str(r.dtype), r.shape, [_bits(x) if r.dtype.kind in "fiu" else repr(x) for x in r.ravel().tolist()]))
    return d


def owned(snap: dict) -> dict:
    """what a copy of `snap` must look like: everything as in the source, and the copy owns its atoms and bonds (they name
    the copy as parent and know their position) — also when the atoms of the source had no live owner"""
    d = dict(snap)
    d["atoms"] = [a[:9] + (True, i) for i, a in enumerate(snap["atoms"])]
    d["bonds"] = [b[:7] + (True,) for b in snap["bonds"]]
    return d


def snap_diff(a: dict, b: dict, ignore=()) -> list[str]:
    out = []
    for k in a:
        if k in ignore:
            continue
        if k in ("atoms", "bonds", "arrays"):
            if len(a[k]) != len(b[k]):
                out.append(f"{k}: {len(a[k])} vs {len(b[k])}")
                continue
            for i, (x, y) in enumerate(zip(a[k], b[k])):
                if x != y:
                    names = {"atoms": ["element", "isotope", "label", "atype", "stereo", "geom", "formal_charge", "formal_spin",
                                       "attrib", "parent", "idx"],
                             "bonds": ["a1", "a2", "label", "btype", "stereo", "f_order", "attrib", "parent"],
                             "arrays": ["dtype", "shape", "values"]}[k]
                    which = [names[j] for j, (u, v) in enumerate(zip(x, y)) if u != v]
                    out.append(f"{k}[{i}].{'/'.join(which)}")
                    break
        elif a[k] != b[k]:
            out.append(k)
    return out


# ---------------------------------------------------------------------------------------------
# random sources
# ---------------------------------------------------------------------------------------------
def rand_scalar(rng):
    return rng.choice([0, 1, -3, 2.5, "x", "yy", None, True, (1, 2)])


def rand_container(rng, depth):
    if rng.below(2):
        d = {}
        for _ in range(rng.range(0, 3)):
            k = rng.choice(["a", "b", "c", "key", 1, 2])
            d[k] = rand_container(rng, depth - 1) if depth > 0 and rng.below(100) < 45 else rand_scalar(rng)
        return d
    return [rand_container(rng, depth - 1) if depth > 0 and rng.below(100) < 35 else rand_scalar(rng)
            for _ in range(rng.range(0, 3))]


def rand_attrib(rng, depth=2, p_empty=30):
    if rng.below(100) < p_empty:
        return {}
    d = {}
    for _ in range(rng.range(1, 3)):
        k = rng.choice(["a", "b", "c", "src", 1])
        d[k] = rand_container(rng, depth - 1) if rng.below(100) < 50 else rand_scalar(rng)
    return d


def rand_coords(rng, shape):
    n = int(np.prod(shape))
    vals = [rng.range(-40, 40) / 4.0 for _ in range(n)]
    return np.array(vals, dtype=float).reshape(shape)


def decorate(rng, m, ml):
    """random values of EVERY field the constructors accept on atoms, bonds and the molecule (incl. falsy non-default
    values, duplicate and empty labels), attribute dictionaries with nested and internally shared containers"""
    for a in m.atoms:
        a.element = rng.choice(["C", "N", "O", "H", "S", "Cl", "P", "Unknown", "Fe"])
        a.label = rng.choice([None, "", "L1", "X", "X", f"a{rng.below(5)}"])
        a.isotope = rng.choice([None, None, 0, 13])
        a.formal_charge = rng.choice([0, 0, 1, -1])
        a.formal_spin = rng.choice([0, 0, 1])
        a.atype = rng.choice(list(ml.AtomType))
        a.stereo = rng.choice(list(ml.AtomStereo))
        a.geom = rng.choice(list(ml.AtomGeom))
        a.attrib = rand_attrib(rng, 2, 55)
    if has_bonds(m):
        for k, b in enumerate(m.bonds):
            b.btype = rng.choice(list(ml.BondType))
            b.stereo = rng.choice(list(ml.BondStereo))
            b.f_order = rng.choice([1.0, 1.0, 0.0, 1.5])
            b.label = rng.choice([None, "", "b", f"b{k}"])
            b.attrib = rand_attrib(rng, 2, 50)
    m.name = rng.choice(["unknown", "m1", "frag", "x_y", ""])
    m.charge = rng.choice([0, 0, 1, -2])
    m.mult = rng.choice([1, 1, 2, 3])
    m.attrib = rand_attrib(rng, 3, 25)
    if rng.below(100) < 15 and m.n_atoms:
        # one container referenced from two places of the same object (pickle / deepcopy keep that, evolve need not)
        shared = [1, {"s": 2}]
        m.attrib["sh1"] = shared
        m.atoms[0].attrib["sh"] = shared
        m.atoms[-1].attrib["sh"] = shared


FORCE: set[str] = set()   # corpus cases can force structural features: "parallel", "selfbond"


def rand_bonds(rng, m, keep_last_single=False):
    """a random multigraph on the atoms of m, built through every bond-adding entry point of the API:
    a forest (some atoms stay without bonds), extra edges, 2..3 bonds between one pair (either orientation), a bond from an atom
    to itself"""
    import molli as ml

    n = m.n_atoms - (1 if keep_last_single else 0)
    atoms = m.atoms

    def add(i, j):
        how = rng.below(4)
        if how == 0:
            m.connect(i, j)
        elif how == 1:
            m.append_bond(ml.Bond(atoms[i], atoms[j]))
        elif how == 2:
            m.append_bonds(ml.Bond(atoms[i], atoms[j]))
        else:
            m.extend_bonds([ml.Bond(atoms[i], atoms[j])])

    for i in range(1, n):
        if rng.below(100) < 82:
            add(rng.below(i), i)
    for _ in range(rng.range(0, 2)):
        if n >= 2:
            i, j = rng.below(n), rng.below(n)
            if i != j:
                add(i, j)      # may be a second bond between a bonded pair
    if n >= 2 and m.n_bonds and (rng.below(100) < 30 or "parallel" in FORCE):
        b = rng.choice(list(m.bonds))
        i, j = atoms.index(b.a1), atoms.index(b.a2)
        if i < n and j < n:
            for _ in range(rng.range(1, 2)):
                add(*((j, i) if rng.below(2) else (i, j)))
    if n >= 1 and (rng.below(100) < 10 or "selfbond" in FORCE):
        i = rng.below(n)
        add(i, i)
    if keep_last_single:
        m.connect(rng.below(n), n)


FEATURES: dict[str, int] = {}


def _note_features(m):
    """measured distribution of structural features of the generated sources (written to the evidence file)"""
    def hit(k):
        FEATURES[k] = FEATURES.get(k, 0) + 1
    o = owner(m)
    hit("sources")
    if o.n_atoms == 0:
        hit("source:no-atoms")
    try:
        if o.n_atoms and any(a.parent is None for a in o.atoms):
            hit("source:ownerless-atoms")
    except Exception:
        pass
    if has_bonds(o):
        pairs = [frozenset((id(b.a1), id(b.a2))) for b in o.bonds]
        if len(pairs) != len(set(pairs)):
            hit("source:parallel-bonds")
        if any(b.a1 is b.a2 for b in o.bonds):
            hit("source:self-bond")
        bonded = {id(b.a1) for b in o.bonds} | {id(b.a2) for b in o.bonds}
        if any(id(a) not in bonded for a in o.atoms):
            hit("source:atom-without-bond")
        if any(b.attrib for b in o.bonds):
            hit("source:bond-attrib")
    labels = [a.label for a in o.atoms if a.label is not None]
    if len(labels) != len(set(labels)):
        hit("source:duplicate-labels")
    if any(a.label == "" or a.isotope == 0 for a in o.atoms):
        hit("source:falsy-nondefault-field")
    return m


def make_source(rng, kind: str, ml, ap: bool = False):
    m = _make_source(rng, kind, ml, ap)
    if "ownerless" in FORCE or rng.below(100) < 22:
        m = make_ownerless(rng, m, ml)
    return _note_features(m)


def make_ownerless(rng, m, ml):
    """a source history after which the atoms (and bonds) of the source have no live owner: `atom.parent` is a weak
    reference, so (a) a temporary Promolecule built on the same atom objects takes the parent link and dies, or (b) the
    source is the shallow copy of an object that was dropped"""
    import copy as _copy
    import gc

    how = "temp" if "ownerless-temp" in FORCE else "shallow" if "ownerless-shallow" in FORCE else rng.choice(["temp", "shallow"])
    o = owner(m)
    if how == "temp":
        if not o.n_atoms:
            return m
        _ = ml.Promolecule(list(o.atoms)).formula      # the temporary adopts the atoms …
        del _
        gc.collect()                                    # … and is gone: the atoms belong to nobody
        return m
    if clsname(m) == "Conformer":
        cid = m._conf_id
        c = _copy.copy(o)
        del o, m
        gc.collect()
        return c[cid]
    c = _copy.copy(o)
    del o, m
    gc.collect()
    return c


def _make_source(rng, kind: str, ml, ap: bool = False):
    """a random object of class `kind`; ap=True: the last atom is an attachment point bonded to exactly one atom"""
    n = rng.range(2 if ap else 1, 6)
    if not ap and rng.below(100) < 4:
        n = 0
    if kind == "Promolecule":
        m = ml.Promolecule(n_atoms=n)
    elif kind == "Connectivity":
        m = ml.Connectivity(n_atoms=n)
        rand_bonds(rng, m)
    elif kind == "CartesianGeometry":
        m = ml.CartesianGeometry(n_atoms=n, coords=rand_coords(rng, (n, 3)))
    elif kind in ("Structure", "Molecule"):
        cls = getattr(ml, kind)
        if not ap and rng.below(100) < 12:
            m = cls.load_mol2(ml.files.dendrobine_mol2)
            decorate_light = True
        else:
            m = cls(n_atoms=n, coords=rand_coords(rng, (n, 3)))
            # ap: atoms 0..n-2 a random multigraph; atom n-1 the attachment point, exactly one bond
            rand_bonds(rng, m, keep_last_single=ap)
        if kind == "Molecule":
            m.atomic_charges = np.array([rng.range(-20, 20) / 8.0 for _ in range(m.n_atoms)])
    elif kind in ("ConformerEnsemble", "Conformer"):
        base = ml.Molecule(n_atoms=n)
        rand_bonds(rng, base)
        k = rng.range(1, 3)
        m = ml.ConformerEnsemble(base, n_conformers=k)
        m.coords = rand_coords(rng, (k, n, 3))
        m.atomic_charges = rand_coords(rng, (k, n))
        m.weights = rand_coords(rng, (k,))
    else:
        raise ValueError(kind)
    if m.n_atoms <= 8:
        decorate(rng, m, ml)
    else:
        m.attrib = rand_attrib(rng, 3, 0)
        m.atoms[0].attrib = rand_attrib(rng, 2, 0)
        m.atoms[3].attrib = rand_attrib(rng, 2, 0)
        m.bonds[0].attrib = rand_attrib(rng, 2, 0)
        m.charge, m.mult = 1, 2
    if ap:
        a = m.atoms[-1]
        a.element = ml.Element.Unknown
        a.atype = ml.AtomType.AttachmentPoint
        # distinct positions so that the join geometry is defined
        m.coords = np.array([[1.5 * i + 0.25 * (i % 2), 0.5 * (i % 3), 0.75 * ((i * i) % 4)] for i in range(m.n_atoms)])
    if kind in ("Structure", "Molecule") and not ap and m.n_atoms <= 8 and rng.below(100) < 30:
        # a source with an edit history: atoms added, deleted, hydrogens added before it is copied
        with warnings.catch_warnings():
            warnings.simplefilter("ignore")
            old = np.seterr(all="ignore")
            try:
                for _ in range(rng.range(1, 3)):
                    e = rng.below(3)
                    if e == 0 and m.n_atoms > 1:
                        m.del_atom(rng.below(m.n_atoms))
                    elif e == 1:
                        a = m.new_atom(ml.Element.C, coord=[rng.range(-9, 9) / 2.0, 1.0, 2.0])
                        a.attrib = rand_attrib(rng, 2, 40)
                        if m.n_atoms > 1:
                            m.connect(rng.below(m.n_atoms - 1), a)
                    else:
                        try:
                            m.add_implicit_hydrogens(m.atoms[rng.below(m.n_atoms)])
                        except Exception:
                            pass
            finally:
                np.seterr(**old)
        if np.isnan(np.asarray(m.coords)).any():
            m.coords = np.nan_to_num(np.asarray(m.coords), nan=0.5)
    if kind == "Conformer":
        return m[rng.below(m.n_conformers)]
    return m


# ---------------------------------------------------------------------------------------------
# routes
# ---------------------------------------------------------------------------------------------
def route_copy(route: str, src, ml):
    if route == "ctor":
        if clsname(src) == "Conformer":
            return ml.Molecule(src)
        return type(src)(src)
    if route == "pickle":
        return pickle.loads(pickle.dumps(src))
    if route == "deepcopy":
        return copy.deepcopy(src)
    raise ValueError(route)


# ---------------------------------------------------------------------------------------------
# copy constructors across classes and with keyword overrides
# ---------------------------------------------------------------------------------------------
CLASSES = ["Promolecule", "Connectivity", "CartesianGeometry", "Structure", "Molecule", "ConformerEnsemble"]
SLOTS = {"Promolecule": 0, "Connectivity": 0, "CartesianGeometry": 1, "Structure": 1, "Molecule": 2, "Conformer": 2,
         "ConformerEnsemble": 3}
FAMILY = {"Promolecule": 0, "Connectivity": 0, "CartesianGeometry": 1, "Structure": 1, "Molecule": 1, "Conformer": 1,
          "ConformerEnsemble": 2}
BONDED = {"Connectivity", "Structure", "Molecule", "ConformerEnsemble", "Conformer"}
ARRAY_KW = ["coords", "atomic_charges", "weights"]
FILL = [float("nan"), 0.0, 1.0]


def target_shapes(src_kind: str, target: str, n_atoms: int, src_k: int | None, kw: dict) -> list[tuple]:
    """shapes of the arrays of `target(src, **kw)` (documented construction rules)"""
    if target in ("CartesianGeometry", "Structure"):
        return [(n_atoms, 3)]
    if target == "Molecule":
        return [(n_atoms, 3), (n_atoms,)]
    if target == "ConformerEnsemble":
        if src_kind == "ConformerEnsemble":
            k = src_k
        else:
            k = kw.get("n_conformers", 0)
            if src_kind in ("Molecule", "Conformer"):
                k = k or 1
        return [(k, n_atoms, 3), (k, n_atoms), (k,)]
    return []


def keyword_names(target: str) -> list[str]:
    """the keyword arguments the copy constructor of `target` accepts"""
    names = ["name", "charge", "mult", "attrib", "copy_atoms", "n_atoms"] + ARRAY_KW[: SLOTS[target]]
    if target == "ConformerEnsemble":
        names.append("n_conformers")
    return names


def make_keywords(rng, names: list[str]) -> dict:
    kw = {}
    for k in names:
        if k == "name":
            kw[k] = rng.choice(["renamed", "ov_name"])
        elif k == "charge":
            kw[k] = rng.choice([0, 2, -1, 3])
        elif k == "mult":
            kw[k] = rng.choice([0, 2, 3])
        elif k == "attrib":
            kw[k] = {"ov1": rand_scalar(rng), "ov2": rand_container(rng, 1)} if rng.below(2) else {"ov1": [1, {"z": 2}]}
        elif k == "copy_atoms":
            kw[k] = True
        elif k == "n_atoms":
            kw[k] = rng.range(0, 9)
        elif k == "n_conformers":
            kw[k] = rng.range(0, 3)
        else:
            kw[k] = None  # an array: filled in when the shape is known
    return kw


def random_keywords(rng, target: str, shapes: list[tuple], pmax=2) -> dict:
    """0..pmax keyword overrides that the constructor of `target` accepts"""
    names = keyword_names(target)
    return make_keywords(rng, [rng.choice(names) for _ in range(rng.range(0, pmax))])


def fill_array_keywords(rng, kw: dict, shapes: list[tuple]):
    for j, k in enumerate(ARRAY_KW[: len(shapes)]):
        if k in kw and kw[k] is None:
            kw[k] = rand_coords(rng, shapes[j]) + 100.0
    return kw


def expected_cast(snap: dict, src_kind: str, target: str, kw: dict, shapes: list[tuple]) -> dict:
    """model-free expectation for `target(src, **kw)`: what the classes have in common is carried over, overrides win"""
    d = {k: copy.deepcopy(v) for k, v in snap.items()}
    d["cls"] = target
    if kw.get("name"):
        d["name"] = kw["name"]
    if kw.get("charge"):
        d["charge"] = int(kw["charge"])
    if kw.get("mult"):
        d["mult"] = int(kw["mult"])
    if kw.get("attrib"):
        d["attrib"] = {**d["attrib"], **copy.deepcopy(kw["attrib"])}
    if target not in BONDED:
        d["bonds"] = []
    arrays = []
    for j in range(SLOTS[target]):
        key = ARRAY_KW[j]
        if kw.get(key) is not None:
            arr = np.broadcast_to(np.asarray(kw[key], dtype=float), shapes[j])
            arrays.append(("float64", tuple(shapes[j]), [_bits(x) for x in arr.ravel().tolist()]))
        elif FAMILY[src_kind] == FAMILY[target] and j < SLOTS[src_kind]:
            arrays.append(snap["arrays"][j])
        else:
            n = int(np.prod(shapes[j]))
            arrays.append(("float64", tuple(shapes[j]), [_bits(FILL[j])] * n))
    d["arrays"] = arrays
    return d


def override_tokens(kw: dict, target: str, shapes: list[tuple], I, ids) -> tuple[str, str, str, str]:
    """(scalars, attrib entries, array overrides, fills) of a `copyas` request"""
    sc = [str(I(("name", kw["name"])) + 1) if kw.get("name") is not None else "_",
          str(int(kw["charge"])) if kw.get("charge") is not None else "_",
          str(int(kw["mult"])) if kw.get("mult") is not None else "_"]
    at = ",".join(ent_tokens(kw["attrib"], I, ids)) if kw.get("attrib") else "-"
    arrs, fills = [], []
    for j in range(SLOTS[target]):
        key = ARRAY_KW[j]
        if kw.get(key) is not None:
            arr = np.broadcast_to(np.asarray(kw[key], dtype=float), shapes[j])
            codes = array_codes(arr, I)
            arrs.append(_ints(codes) if codes else "=")
        else:
            arrs.append("_")
        n = int(np.prod(shapes[j]))
        fills.append(",".join([str(I(FILL[j]))] * n) if n else "=")
    return ",".join(sc), at, "+".join(arrs) or "-", "+".join(fills) or "-"


def encode_atoms_only(o, I, ids: Ids) -> str:
    """the `M …` group of a bare list of atoms (what `Cls(list_of_atoms, copy_atoms=True)` is given): a Promolecule-like
    source that has only the atoms; default name / charge / mult, no attributes"""
    mid = ids.fresh()

    def box(d):
        return f"{ids.of(d)}/{','.join(ent_tokens(d, I, ids))}"

    atoms = [f"{ids.of(a)};{_ints(atom_fields(a, I))};{box(a.attrib)};{mid}" for a in o.atoms]
    return " ".join(["M", str(mid), "1", "0,0,1", f"{ids.fresh()}/", str(ids.fresh()), "+".join(atoms) or "-",
                     str(ids.fresh()), "-", "-"])

# ---------------------------------------------------------------------------------------------
# the full state of a source, hidden parts included (compared before / after a derivation)
# ---------------------------------------------------------------------------------------------
def hidden_state(o) -> tuple:
    """which instance attributes and slots exist (a derivation must not leave caches or marks in its source) and the pickled
    bytes of the object (everything __getstate__ sees, in order)"""
    import hashlib
    import pickle

    objs = [o] + ([o._parent] if clsname(o) == "Conformer" else [])
    out = []
    for x in objs:
        slots = []
        for c in type(x).__mro__:
            for sl in getattr(c, "__slots__", ()):
                if sl not in ("__weakref__", "__dict__"):
                    try:
                        v = object.__getattribute__(x, sl)
                        slots.append((sl, type(v).__name__))
                    except AttributeError:
                        slots.append((sl, "<unset>"))
        keys = sorted(getattr(x, "__dict__", {}).keys())
        out.append((tuple(keys), tuple(slots)))
    try:
        digest = hashlib.sha1(pickle.dumps(objs[-1], protocol=4)).hexdigest()
    except Exception as e:
        digest = f"unpicklable:{type(e).__name__}"
    return (tuple(out), digest)


def hidden_diff(a: tuple, b: tuple) -> str:
    if a == b:
        return ""
    if a[0] != b[0]:
        for (k1, s1), (k2, s2) in zip(a[0], b[0]):
            if k1 != k2:
                return f"instance attributes {sorted(set(k1) ^ set(k2))}"
            ch = [x[0] for x, y in zip(s1, s2) if x != y]
            if ch:
                return f"slots {ch}"
    return "pickled bytes of the source differ"


def count_edit(rng, o, ml, mode: str, protect=()):
    """edits of a source between two derivations: keep (delete one atom, add a non-bonded one: same atom count), grow, shrink,
    bonds, coords, attrib; returns a short description (or None if the class does not define the edit)"""
    name = clsname(o)
    if name in ("ConformerEnsemble", "Conformer"):
        e = owner(o)
        if mode in ("keep", "grow", "shrink", "bonds"):
            if len(e.bonds) and rng.below(2):
                e.del_bond(e.bonds[rng.below(len(e.bonds))]); return "del_bond"
            if e.n_atoms >= 2:
                e.connect(0, e.n_atoms - 1); return "connect"
            mode = "coords"
        if mode == "coords":
            e.translate([0.5, 1.0, -2.0]); return "translate"
        e.attrib["edited"] = [rng.below(9)]; return "attrib"
    cand = [i for i in range(o.n_atoms) if not any(o.atoms[i] is p for p in protect)]

    def add():
        a = ml.Atom(rng.choice(["He", "Ne", "Ar"]), label="added")
        if name in ("Promolecule", "Connectivity"):
            o.append_atom(a)
        elif name == "Molecule":
            o.add_atom(a, [9.0, 8.0, 7.0], 0.75)
        else:
            o.add_atom(a, [9.0, 8.0, 7.0])

    if mode == "keep" and cand:
        o.del_atom(cand[rng.below(len(cand))]); add(); return "del_atom + add_atom (same count)"
    if mode == "shrink" and cand:
        o.del_atom(cand[rng.below(len(cand))]); return "del_atom"
    if mode in ("grow", "keep", "shrink"):
        add(); return "add_atom"
    if mode == "bonds" and has_bonds(o):
        free = [b for b in o.bonds if not any(b.a1 is p or b.a2 is p for p in protect)]
        if free and rng.below(2):
            o.del_bond(free[rng.below(len(free))]); return "del_bond"
        if len(cand) >= 2:
            o.connect(cand[0], cand[-1]); return "connect"
    if mode == "coords" and name in ("CartesianGeometry", "Structure", "Molecule"):
        o.translate([0.5, 1.0, -2.0]); return "translate"
    o.attrib["edited"] = [rng.below(9)]
    return "attrib"


# ---------------------------------------------------------------------------------------------
# mutations of every mutable component (the oracle applies them to one side and re-inspects the other)
# ---------------------------------------------------------------------------------------------
def mutations(o, ml):
    """list of (name, thunk) mutating o; by hand first, library routines last"""
    muts = []

    def nested(path, c):
        items = list(c.items()) if isinstance(c, dict) else list(enumerate(c))
        for k, v in items:
            if isinstance(v, dict):
                muts.append((f"{path}[{k!r}]['__m']=1", lambda v=v: v.__setitem__("__m", 1)))
                nested(f"{path}[{k!r}]", v)
            elif isinstance(v, list):
                muts.append((f"{path}[{k!r}].append", lambda v=v: v.append("__m")))
                nested(f"{path}[{k!r}]", v)

    if clsname(o) != "Conformer":
        muts.append(("name", lambda: setattr(o, "name", "renamed")))
        muts.append(("charge", lambda: setattr(o, "charge", int(o.charge) + 5)))
        muts.append(("mult", lambda: setattr(o, "mult", int(o.mult) + 2)))
    muts.append(("attrib['__m']", lambda: o.attrib.__setitem__("__m", [1])))
    nested("attrib", o.attrib)
    idxs = sorted({0, o.n_atoms - 1, o.n_atoms // 2}) if o.n_atoms else []
    for i in idxs:
        a = o.atoms[i]
        muts.append((f"atoms[{i}].element", lambda a=a: setattr(a, "element", "Xe")))
        muts.append((f"atoms[{i}].label", lambda a=a: setattr(a, "label", "mutated")))
        muts.append((f"atoms[{i}].formal_charge", lambda a=a: setattr(a, "formal_charge", 7)))
        muts.append((f"atoms[{i}].attrib['__m']", lambda a=a: a.attrib.__setitem__("__m", 1)))
        nested(f"atoms[{i}].attrib", a.attrib)
    if has_bonds(o) and len(o.bonds):
        for i in sorted({0, len(o.bonds) - 1}):
            b = o.bonds[i]
            muts.append((f"bonds[{i}].btype", lambda b=b: setattr(b, "btype", ml.BondType.Triple)))
            muts.append((f"bonds[{i}].attrib['__m']", lambda b=b: b.attrib.__setitem__("__m", 1)))
            nested(f"bonds[{i}].attrib", b.attrib)
    for j, r in enumerate(arrays_of(o)):
        if isinstance(r, np.ndarray) and r.size:
            def bump(j=j):
                arr = arrays_of(o)[j]
                arr[...] = arr + 1.0
            muts.append((f"array{j} += 1 (in place)", bump))
    name = clsname(o)
    if name in ("CartesianGeometry", "Structure", "Molecule") and o.n_atoms:
        muts.append(("translate", lambda: o.translate([1.0, 2.0, 3.0])))
    if name in ("Structure", "Molecule") and o.n_atoms:
        def addh():
            with warnings.catch_warnings():
                warnings.simplefilter("ignore")
                old = np.seterr(all="ignore")
                try:
                    o.add_implicit_hydrogens()
                except Exception:
                    pass
                finally:
                    np.seterr(**old)
        muts.append(("add_implicit_hydrogens", addh))
    if name in ("CartesianGeometry", "Structure", "Molecule", "ConformerEnsemble") and o.n_atoms:
        muts.append(("scale(2)", lambda: o.scale(2.0)))
    if name == "ConformerEnsemble" and o.n_atoms:
        muts.append(("translate", lambda: o.translate([1.0, 2.0, 3.0])))
    if name in ("Structure", "Molecule") and o.n_atoms:
        muts.append(("new_atom", lambda: o.new_atom(ml.Element.F, coord=[7.0, 7.0, 7.0])))
        muts.append(("connect", lambda: o.connect(0, o.n_atoms - 1)))
    if name != "Conformer":
        muts.append(("label_atoms", lambda: o.label_atoms("{e}{n1}x")))
    if name in ("Promolecule", "Connectivity", "CartesianGeometry", "Structure", "Molecule") and o.n_atoms:
        muts.append(("del_atom(0)", lambda: o.del_atom(0)))
    if name in ("Connectivity", "Structure", "Molecule", "ConformerEnsemble") and len(o.bonds):
        muts.append(("del_bond", lambda: o.del_bond(o.bonds[0])))
    return muts
