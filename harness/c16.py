"""
C16 — adding implicit hydrogens only completes valences.

Proof:  Molli.Props.C16 (hcount_formula, selection_groups_13_16, addH_counts, addH_only_appends,
        newH_bonded_once_to_centre, newH_distance_*, newH_points_away_*, idempotent_hint_free, …) about the model of the
        repaired routine + generated obligations Molli.Gen.Valence (IMPLICIT_VALENCE / VALENCE_ELECTRONS / groups /
        covalent radii / bond orders / TETRAHEDRON / the two literals of the two-hydrogen branch).
Tie:    random organic-like 3-D molecules (B C N O Si P S + H / halogen / metal bystanders, charges −1..+1, radicals,
        hints, single/double/triple/aromatic/amide/fractional bonds, off-lattice and axis-aligned geometries, isolated
        atoms) and every molecule of the bundled CDXML files: per-atom counts, new bonds (order and ends), consumed hints
        and array lengths are compared exactly with the Lean model; the returned positions are checked by the model's
        exact-rational predicates (distance constants, H–H angle, points-away) in the driver.
Oracle: model-free — before/after snapshots (objects, fields, bit-identical coordinates), an independent valence count
        with exact fractions, distance / direction predicates with exact fractions, second call.
"""
from __future__ import annotations

import json
import math
import warnings
from fractions import Fraction
from pathlib import Path

CENTRES = [5, 6, 6, 6, 6, 7, 7, 8, 8, 14, 15, 16]
BYSTANDERS = [1, 1, 9, 17, 35, 53, 11, 26, 46, 30]
MAXDEG = {1: 1, 5: 3, 6: 4, 7: 3, 8: 2, 9: 1, 14: 4, 15: 4, 16: 4, 17: 1, 35: 1, 53: 1, 11: 1, 26: 6, 46: 4, 30: 4}
METALS = (11, 26, 46, 30)
AXES = [(1.0, 0.0, 0.0), (-1.0, 0.0, 0.0), (0.0, 1.0, 0.0), (0.0, -1.0, 0.0), (0.0, 0.0, 1.0), (0.0, 0.0, -1.0)]
VE = {13: 3, 14: 4, 15: 5, 16: 6, 17: 7, 18: 8}
CC = 10          # AtomType.CoordinationCenter
ALL_ATYPES = [1]      # filled from the live AtomType / AtomGeom enums at the start of a run
ALL_GEOMS = [0]
REL_TOL_PROPERTY = 1e-4      # "at the sum of covalent radii": the two-hydrogen literals give L·1.0000528


# ----------------------------------------------------------------------------------------------
# generator
# ----------------------------------------------------------------------------------------------
def _sqrt_f(x) -> str:
    """a printable square root of an exact rational that may be astronomically large"""
    try:
        return f"{math.sqrt(float(x)):.6f}"
    except (OverflowError, ValueError):
        return "more than 1e150"


def unit(v):
    n = math.sqrt(sum(x * x for x in v))
    return tuple(x / n for x in v)


def gen_molecule(rng, quick):
    nat = rng.weighted([(1, 3), (2, 3), (3, 3), (rng.range(4, 9), 6), (rng.range(10, 16 if quick else 24), 3)])
    lattice = rng.chance(1, 3)
    atoms, bonds = [], []
    adj = {}

    def new_atom(z, coord):
        q = rng.weighted([(0, 32), (1, 4), (-1, 4), (2, 1), (-2, 1)]) if z in CENTRES else 0
        sp = rng.weighted([(0, 20), (1, 2), (-1, 2), (2, 1), (-2, 1)]) if z in CENTRES else 0
        cc = z in METALS and rng.chance(1, 2)
        atoms.append({"z": z, "q": q, "spin": sp, "cc": cc, "hint": None, "xyz": coord,
                      "pc": round(rng.uniform() - 0.5, 3)})
        if not cc and rng.chance(1, 4):
            atoms[-1]["atype"] = rng.choice(ALL_ATYPES)
            atoms[-1]["cc"] = atoms[-1]["atype"] == CC
            atoms[-1]["geom"] = rng.choice(ALL_GEOMS)
        adj[len(atoms) - 1] = []
        return len(atoms) - 1

    def pick_z():
        return rng.choice(CENTRES) if rng.chance(4, 5) else rng.choice(BYSTANDERS)

    for i in range(nat):
        z = pick_z()
        cands = [j for j in range(len(atoms)) if len(adj[j]) < MAXDEG[atoms[j]["z"]]]
        if not atoms or not cands or rng.chance(1, 8):
            # a new fragment, far from everything else
            off = 7.0 * len(atoms)
            new_atom(z, (off + (0.0 if lattice else rng.uniform()), 0.0 if lattice else rng.uniform(), 0.0 if lattice else rng.uniform()))
            continue
        j = rng.choice(cands)
        aj = atoms[j]["xyz"]
        if lattice:
            used = []
            for k in adj[j]:
                d = tuple(round(a - b, 6) for a, b in zip(atoms[k]["xyz"], aj))
                used.append(unit(d))
            free = [ax for ax in AXES if all(sum(p * q for p, q in zip(ax, u)) < 0.9 for u in used)]
            if not free:
                continue
            d = rng.choice(free)
            L = 1.5
        else:
            rep = [0.0, 0.0, 0.0]
            for k in adj[j]:
                u = unit(tuple(a - b for a, b in zip(atoms[k]["xyz"], aj)))
                rep = [r - x for r, x in zip(rep, u)]
            d = tuple(r + 0.9 * (rng.uniform() - 0.5) for r in rep) if adj[j] else (rng.uniform() - 0.5, rng.uniform() - 0.5, rng.uniform() - 0.5)
            if sum(x * x for x in d) < 1e-4:
                d = (0.3, 0.8, -0.5)
            d = unit(d)
            L = 1.2 + 0.5 * rng.uniform()
        k = new_atom(z, tuple(a + L * x for a, x in zip(aj, d)))
        both_multi = atoms[j]["z"] in (6, 7, 8, 15, 16) and z in (6, 7, 8, 15, 16)
        bt = rng.weighted([(1, 12), (2, 4), (3, 2), (20, 4), (21, 1), (99, 1)]) if both_multi else rng.weighted([(1, 14), (99, 1)])
        fo = Fraction(rng.range(1, 20), 8) if bt == 99 else Fraction(1)
        a1, a2 = (j, k) if rng.chance(1, 2) else (k, j)
        bonds.append((a1, a2, bt, fo))
        adj[j].append(k)
        adj[k].append(j)
    # a ring closure now and then
    if len(atoms) >= 4 and rng.chance(1, 4):
        cands = [j for j in range(len(atoms)) if len(adj[j]) < MAXDEG[atoms[j]["z"]]]
        if len(cands) >= 2:
            a, b = rng.choice(cands), rng.choice(cands)
            if a != b and b not in adj[a]:
                bonds.append((a, b, rng.choice([1, 1, 20]), Fraction(1)))
                adj[a].append(b)
                adj[b].append(a)
    # hints
    for i, a in enumerate(atoms):
        if rng.chance(1, 9):
            free = max(0, min(4, MAXDEG[a["z"]]) - len(adj[i])) if a["z"] in CENTRES else 1
            a["hint"] = rng.range(0, free)
    return {"atoms": atoms, "bonds": [[a, b, bt, f"{fo.numerator}/{fo.denominator}"] for a, b, bt, fo in bonds],
            "cls": "Molecule" if rng.chance(3, 4) else "Structure",
            "sel": None}



COMMON_CENTRES = (5, 6, 7, 8, 14, 15, 16)
GRID_CHARGES = (-2, -1, 0, 1, 2)
GRID_SPINS = (-2, -1, 0, 1, 2)        # formal_spin is a signed integer (2·S, alpha/beta); the formula uses |spin|


def grid_molecules(rng, elements_13_16, full):
    """the domain of the count formula on one centre: every element of groups 13-16 x formal charge -2..+2 x formal spin
    -2..+2 x neighbour bonds.  For B C N O Si P S (and, when `full`, for every element): every multiset of up to three
    bonds from (single, double, triple, aromatic) and four single bonds; for the other elements otherwise: 0..4 single bonds.
    Geometry: tetrahedral-like, jittered (non-degenerate)."""
    import itertools
    dirs = [(0.0, 0.0, 1.0), (0.9428, 0.0, -0.3333), (-0.4714, 0.8165, -0.3333), (-0.4714, -0.8165, -0.3333)]
    rich = [bts for nn in range(0, 4) for bts in itertools.combinations_with_replacement((1, 2, 3, 20), nn)] + [(1, 1, 1, 1)]
    plain = [(1,) * nn for nn in range(0, 5)]
    for z in elements_13_16:
        for q in GRID_CHARGES:
            for sp in GRID_SPINS:
                for bts in (rich if (full or z in COMMON_CENTRES) else plain):
                    atoms = [{"z": z, "q": q, "spin": sp, "cc": False, "hint": None,
                              "xyz": (0.25, -0.5, 0.125), "pc": 0.0}]
                    bonds = []
                    for t, bt in enumerate(bts):
                        d = dirs[t]
                        jit = [0.1 * (rng.uniform() - 0.5) for _ in range(3)]
                        atoms.append({"z": 9, "q": 0, "spin": 0, "cc": False, "hint": None,
                                      "xyz": tuple(atoms[0]["xyz"][c] + 1.5 * d[c] + jit[c] for c in range(3)), "pc": 0.0})
                        bonds.append([0, t + 1, bt, "1/1"] if t % 2 == 0 else [t + 1, 0, bt, "1/1"])
                    yield {"atoms": atoms, "bonds": bonds, "cls": "Structure", "sel": None}


def hinted_molecules(rng):
    """a drawing hint on a centre that already carries explicitly drawn hydrogens (a wedged stereo-H on CH2, an explicit
    N–H beside an "NH" label): the hint counts the hydrogens still to be ADDED, whatever is bonded already"""
    dirs = [(0.0, 0.0, 1.0), (0.9428, 0.0, -0.3333), (-0.4714, 0.8165, -0.3333), (-0.4714, -0.8165, -0.3333)]
    for z in (5, 6, 7, 8, 14, 15, 16):
        for hint in (0, 1, 2, 3):
            for nh in (0, 1, 2, 3):
                for nf in (0, 1, 2):
                    if nh + nf + hint > 4 or nh + nf == 0:
                        continue
                    atoms = [{"z": z, "q": 0, "spin": 0, "cc": False, "hint": hint, "xyz": (0.25, -0.5, 0.125), "pc": 0.0}]
                    bonds = []
                    for t in range(nh + nf):
                        d = dirs[t]
                        jit = [0.1 * (rng.uniform() - 0.5) for _ in range(3)]
                        atoms.append({"z": 1 if t < nh else 9, "q": 0, "spin": 0, "cc": False, "hint": None,
                                      "xyz": tuple(atoms[0]["xyz"][c] + (1.05 if t < nh else 1.4) * d[c] + jit[c] for c in range(3)),
                                      "pc": 0.0})
                        bonds.append([0, t + 1, 1, "1/1"] if t % 2 == 0 else [t + 1, 0, 1, "1/1"])
                    yield {"atoms": atoms, "bonds": bonds, "cls": "Molecule" if (nh + nf) % 2 else "Structure", "sel": None}


def choose_subset(rng, mol, group_of):
    idx = [i for i, a in enumerate(mol["atoms"]) if 13 <= group_of(a["z"]) <= 17]
    rng.shuffle(idx)
    sub = idx[: rng.range(0, len(idx))]
    return sub or None      # an empty argument list IS the default call


# ----------------------------------------------------------------------------------------------
# implementation side
# ----------------------------------------------------------------------------------------------
def atype_of(a):
    """AtomType value of a described atom (`cc` = CoordinationCenter is what the model is told)"""
    return a.get("atype", CC if a["cc"] else 1)


def build(mol):
    import numpy as np
    from molli.chem import Atom, AtomGeom, AtomType, Bond, BondType, Element, Molecule, Structure

    s = Molecule() if mol["cls"] == "Molecule" else Structure()
    A = []
    for a in mol["atoms"]:
        at = Atom(Element(a["z"]), formal_charge=a["q"], formal_spin=a["spin"],
                  atype=AtomType(atype_of(a)), geom=AtomGeom(a.get("geom", 0)))
        if a["hint"] is not None:
            at.attrib["__implicit_hydrogens"] = a["hint"]
        if mol["cls"] == "Molecule":
            s.add_atom(at, list(a["xyz"]), charge=a["pc"])
        else:
            s.add_atom(at, list(a["xyz"]))
        A.append(at)
    for a1, a2, bt, fo in mol["bonds"]:
        s.append_bond(Bond(A[a1], A[a2], btype=BondType(bt), f_order=float(Fraction(fo))))
    if mol["cls"] == "Molecule":
        s.atomic_charges = np.array([a["pc"] for a in mol["atoms"]], dtype=float)
    return s


def describe(s):
    """plain-data description of a live object (used for CDXML molecules): same shape as gen_molecule's"""
    idx = {id(a): i for i, a in enumerate(s.atoms)}
    atoms = []
    for i, a in enumerate(s.atoms):
        atoms.append({"z": int(a.element.value), "q": int(a.formal_charge), "spin": int(a.formal_spin), "cc": int(a.atype) == CC,
                      "hint": a.attrib.get("__implicit_hydrogens"), "xyz": tuple(float(x) for x in s.coords[i]), "pc": 0.0,
                      "atype": int(a.atype), "geom": int(a.geom)})
    bonds = []
    for b in s.bonds:
        fo = Fraction(float(b.f_order))
        bonds.append([idx[id(b.a1)], idx[id(b.a2)], int(b.btype), f"{fo.numerator}/{fo.denominator}"])
    return {"atoms": atoms, "bonds": bonds, "cls": type(s).__name__, "sel": None}


def snapshot(s):
    import numpy as np

    atoms = [(id(a), int(a.element.value), a.isotope, a.label, int(a.atype), int(a.stereo), int(a.geom), a.formal_charge,
              a.formal_spin, dict(a.attrib)) for a in s.atoms]
    bonds = [(id(b), id(b.a1), id(b.a2), b.label, int(b.btype), int(b.stereo), float(b.f_order), dict(b.attrib)) for b in s.bonds]
    coords = np.array(s.coords, copy=True)
    charges = None
    if hasattr(s, "atomic_charges"):
        charges = [None if c is None else float(c) for c in list(s.atomic_charges)]
    return {"atoms": atoms, "bonds": bonds, "coords": coords, "charges": charges}


def model_line(mol):
    atoms = ",".join(f"{a['z']}:{a['q']}:{a['spin']}:{1 if a['cc'] else 0}:{'-' if a['hint'] is None else a['hint']}" for a in mol["atoms"])
    bonds = ",".join(f"{a}-{b}:{bt}:{fo}" for a, b, bt, fo in mol["bonds"]) or "-"
    sel = "*" if mol["sel"] is None else (",".join(map(str, mol["sel"])) or "-")
    return f"h atoms={atoms} bonds={bonds} sel={sel}"


def frac_s(x: float) -> str:
    f = Fraction(x)
    return str(f.numerator) if f.denominator == 1 else f"{f.numerator}/{f.denominator}"


def vec_s(v) -> str:
    return ",".join(frac_s(float(x)) for x in v)


# ----------------------------------------------------------------------------------------------
# the model-free oracle
# ----------------------------------------------------------------------------------------------
def bt_order(bt, fo):
    if 0 <= bt <= 6:
        return Fraction(bt)
    if bt == 20:
        return Fraction(3, 2)
    if bt == 99:
        return Fraction(fo)
    if bt in (101, 10, 98, 11):
        return Fraction(0)
    return Fraction(1)


def expected_count(mol, i, group_of):
    a = mol["atoms"][i]
    if a["hint"] is not None:
        return int(a["hint"])
    g = group_of(a["z"])
    bv = sum((bt_order(bt, fo) for a1, a2, bt, fo in mol["bonds"] if i in (a1, a2)), Fraction(0))
    e = VE[g] - a["q"] - abs(a["spin"])
    return max(0, 4 - abs(4 - e) - math.ceil(bv))


def fvec(v):
    return [Fraction(float(x)) for x in v]


def fdot(a, b):
    return sum(x * y for x, y in zip(a, b))


def fsub(a, b):
    return [x - y for x, y in zip(a, b)]


PLANE_NORMAL = [None]     # side channel of geometry_class: exact normal of the 3-neighbour plane of the last 'ok' call


def fcross(a, b):
    return [a[1] * b[2] - a[2] * b[1], a[2] * b[0] - a[0] * b[2], a[0] * b[1] - a[1] * b[0]]


def geometry_class(mol, i, k):
    """('ok', w) with w = centroid - centre as floats when the property's non-degenerate domain applies to the
    'points away' clause; ('none', None) without orienting neighbours; ('degenerate', None) otherwise"""
    PLANE_NORMAL[0] = None
    a = mol["atoms"][i]["xyz"]
    nb = [j for a1, a2, _, _ in mol["bonds"] if i in (a1, a2) for j in ((a2,) if a1 == i else (a1,)) if j != i]
    nb = [j for j in nb if not mol["atoms"][j]["cc"]]
    if not nb:
        return "none", None, nb
    pts = [mol["atoms"][j]["xyz"] for j in nb]
    cent = [sum(p[c] for p in pts) / len(pts) for c in range(3)]
    w = [cent[c] - a[c] for c in range(3)]
    wn = math.sqrt(sum(x * x for x in w))
    if not all(math.isfinite(x) for x in w) or wn < 1e-2:
        return "degenerate", None, nb
    if len(nb) == 3:
        p1, p2, p3 = pts
        u = [p2[c] - p1[c] for c in range(3)]
        v = [p3[c] - p1[c] for c in range(3)]
        n = [u[1] * v[2] - u[2] * v[1], u[2] * v[0] - u[0] * v[2], u[0] * v[1] - u[1] * v[0]]
        nn = math.sqrt(sum(x * x for x in n))
        if nn < 1e-3:
            return "degenerate", None, nb
        height = abs(sum(n[c] * (a[c] - p1[c]) for c in range(3))) / nn
        if height < 0.1 or k != 1:
            return "degenerate", None, nb
        lu, lv = math.sqrt(sum(x * x for x in u)), math.sqrt(sum(x * x for x in v))
        if nn > 0.2 * lu * lv:
            # well-conditioned: the plane through the three neighbours is their mean plane; its normal in exact arithmetic
            fu, fv = fsub(fvec(p2), fvec(p1)), fsub(fvec(p3), fvec(p1))
            PLANE_NORMAL[0] = [fu[1] * fv[2] - fu[2] * fv[1], fu[2] * fv[0] - fu[0] * fv[2], fu[0] * fv[1] - fu[1] * fv[0]]
    if len(nb) == 2 and k == 2:
        r1 = [pts[0][c] - a[c] for c in range(3)]
        r2 = [pts[1][c] - a[c] for c in range(3)]
        cr = [r1[1] * r2[2] - r1[2] * r2[1], r1[2] * r2[0] - r1[0] * r2[2], r1[0] * r2[1] - r1[1] * r2[0]]
        if math.sqrt(sum(x * x for x in cr)) < 1e-3:
            return "degenerate", None, nb
    if len(nb) >= 4 or k >= 4:
        return "degenerate", None, nb
    return "ok", w, nb


def run_case(ctx, mol, origin, requests, live=None, group_of=None, radius_of=None, extra_tag=None, bad_normals=None):
    """one molecule through the real routine + oracle; appends driver requests"""
    import numpy as np

    s = live if live is not None else build(mol)
    n0 = len(mol["atoms"])
    before = snapshot(s)
    tag = {"mol": mol, "origin": origin, **(extra_tag or {})}
    try:
        with warnings.catch_warnings():
            warnings.simplefilter("ignore")
            with np.errstate(all="ignore"):
                if mol["sel"] is None:
                    s.add_implicit_hydrogens()
                else:
                    s.add_implicit_hydrogens(*[s.atoms[i] for i in mol["sel"]])
    except Exception as e:  # noqa: BLE001
        ctx.violation("C16:raised", f"add_implicit_hydrogens raised {type(e).__name__}: {e}", tag)
        return 0
    after = snapshot(s)
    n1 = len(after["atoms"])
    processed = list(mol["sel"]) if mol["sel"] is not None else [i for i, a in enumerate(mol["atoms"]) if 13 <= group_of(a["z"]) <= 16]

    # ---- 1. nothing but appending ----
    for i in range(n0):
        if i >= n1 or after["atoms"][i][0] != before["atoms"][i][0]:
            ctx.violation("C16:existing-atom-changed", f"atom {i} is no longer the same object / position", tag)
            return
        b4, af = before["atoms"][i], after["atoms"][i]
        attr_b = dict(b4[9])
        if i in processed:
            attr_b.pop("__implicit_hydrogens", None)
        if b4[1:9] != af[1:9] or attr_b != af[9]:
            ctx.violation("C16:existing-atom-changed", f"atom {i}: {b4[1:]} -> {af[1:]}", tag)
    nb0 = len(before["bonds"])
    if after["bonds"][:nb0] != before["bonds"]:
        ctx.violation("C16:existing-bond-changed", "the old bonds are not an unchanged prefix of the bond list", tag)
    if after["coords"].shape != (n1, 3):
        ctx.violation("C16:arrays-misaligned", f"{n1} atoms but coordinate array of shape {after['coords'].shape}", tag)
        return
    if after["coords"][:n0].tobytes() != before["coords"].tobytes():
        ctx.violation("C16:existing-coords-changed", "old coordinate rows changed", tag)
    if before["charges"] is not None:
        if len(after["charges"]) != n1:
            ctx.violation("C16:arrays-misaligned", f"{n1} atoms but {len(after['charges'])} partial charges", tag)
        elif after["charges"][:n0] != before["charges"]:
            ctx.violation("C16:existing-charges-changed", "old partial charges changed", tag)

    # ---- 2. new atoms are hydrogens, bonded once to their centre; counts ----
    ids = {a[0]: i for i, a in enumerate(after["atoms"])}
    newbonds = [(ids.get(b[1]), ids.get(b[2]), b) for b in after["bonds"][nb0:]]
    per_centre = {i: [] for i in range(n0)}
    ok_struct = True
    for j in range(n0, n1):
        a = after["atoms"][j]
        if a[1] != 1 or a[2] is not None or a[7] != 0 or a[8] != 0:
            ctx.violation("C16:new-atom-not-hydrogen", f"new atom {j}: element {a[1]}, charge {a[7]}, spin {a[8]}", tag)
            ok_struct = False
        inc = [(x, y, b) for x, y, b in newbonds if j in (x, y)]
        inc_old = [b for b in after["bonds"][:nb0] if ids.get(b[1]) == j or ids.get(b[2]) == j]
        if len(inc) != 1 or inc_old:
            ctx.violation("C16:hydrogen-not-bonded-once", f"new atom {j} occurs in {len(inc) + len(inc_old)} bonds", tag)
            ok_struct = False
            continue
        x, y, b = inc[0]
        c = y if x == j else x
        if c is None or c >= n0 or b[4] != 1:
            ctx.violation("C16:hydrogen-not-bonded-once", f"new atom {j} is bonded to {c} with bond type {b[4]}", tag)
            ok_struct = False
            continue
        per_centre[c].append(j)
    if len(newbonds) != n1 - n0:
        ctx.violation("C16:hydrogen-not-bonded-once", f"{n1 - n0} new atoms but {len(newbonds)} new bonds", tag)
        ok_struct = False
    for i in range(n0):
        want = expected_count(mol, i, group_of) if i in processed else 0
        got = len(per_centre[i])
        if got != want:
            a = mol["atoms"][i]
            nnb = sum(1 for a1, a2, _, _ in mol["bonds"] if i in (a1, a2))
            kind = "C16:wrong-hydrogen-count"
            if got == 0 and want >= 4 and nnb == 0:
                kind = "C16:no-hydrogens-on-isolated-atom-needing-four"
            ctx.violation(kind, f"atom {i} (Z={a['z']}, charge {a['q']}, spin {a['spin']}, hint {a['hint']}, {nnb} neighbours) "
                                f"received {got} hydrogens, the formula gives {want}", {**tag, "atom": i})
            ok_struct = False

    # ---- 3. positions ----
    for i in range(n0):
        hs = per_centre[i]
        if not hs:
            continue
        k = len(hs)
        cls, w, nb = geometry_class(mol, i, k)
        nrm = PLANE_NORMAL[0]
        ctx.count(f"branch:k={k}:nbrs={min(len(nb), 4)}:{cls}")
        if cls == "degenerate":
            continue
        a = mol["atoms"][i]["xyz"]
        P = [after["coords"][j] for j in hs]
        if not all(np.isfinite(p).all() for p in P):
            kind = "C16:non-finite-position"
            if not nb:
                kind = "C16:non-finite-position-isolated-atom"
            elif k == 2 and len(nb) == 1:
                d = [mol["atoms"][nb[0]]["xyz"][c] - a[c] for c in range(3)]
                if abs(d[0]) < 1e-9 and abs(d[1]) < 1e-9:
                    kind = "C16:non-finite-position-neighbour-along-z"
            ctx.violation(kind, f"hydrogens {hs} on atom {i} (Z={mol['atoms'][i]['z']}, {len(nb)} orienting neighbours) have positions {[list(map(float, p)) for p in P]}",
                          {**tag, "atom": i})
            continue
        L = Fraction(repr(radius_of(mol["atoms"][i]["z"]))) + Fraction(repr(radius_of(1)))
        fa = fvec(a)
        for j, p in zip(hs, P):
            d2 = fdot(fsub(fvec(p), fa), fsub(fvec(p), fa))
            lo, hi = (L * (1 - Fraction(REL_TOL_PROPERTY))) ** 2, (L * (1 + Fraction(REL_TOL_PROPERTY))) ** 2
            if not (lo <= d2 <= hi):
                ctx.violation("C16:wrong-distance", f"hydrogen {j} is {_sqrt_f(d2)} Å from atom {i}; sum of covalent radii {float(L):.4f}", {**tag, "atom": i})
            if w is not None and fdot(fsub(fvec(p), fa), fvec(w)) >= 0:
                ctx.violation("C16:not-pointing-away", f"hydrogen {j} on atom {i} does not point away from the centroid of its neighbours", {**tag, "atom": i})
        if len(set(tuple(map(float, p)) for p in P)) != len(P):
            ctx.violation("C16:coincident-hydrogens", f"hydrogens {hs} on atom {i} share a position", {**tag, "atom": i})
        if nrm is not None:
            # three neighbours: the model's direction is the normal of their plane, so the hydrogen lies on it
            ctx.count("three-neighbour-normal-checked")
            d = fsub(fvec(P[0]), fa)
            cr = fcross(d, nrm)
            if fdot(cr, cr) > Fraction(1, 10 ** 8) * fdot(d, d) * fdot(nrm, nrm):
                ctx.count("three-neighbour-normal-off")
                if bad_normals is not None:
                    bad_normals.append((mol, i))
        if ok_struct:
            wreq = "-" if w is None else vec_s([a[c] + w[c] for c in range(3)])
            nreq = "" if nrm is None else " nrm=" + ",".join(f"{x.numerator}/{x.denominator}" for x in nrm)
            line = f"g z={mol['atoms'][i]['z']} k={k} a={vec_s(a)} w={wreq}{nreq} hs={';'.join(vec_s(p) for p in P)}"
            want = (f"d={'1' * k} away={'-' if w is None else '1' * k} ang={'1' if k == 2 else '-'} "
                    f"par={'-' if nrm is None else '1' * k}")
            requests.append((line, want, {**tag, "atom": i, "what": "exact position predicates of the model"}))

    # ---- 4. the combinatorial outcome against the model ----
    ks = [len(per_centre[i]) for i in range(n0)]
    newS = ",".join(f"{min(x, y)}-{max(x, y)}" if x is not None and y is not None else "?" for x, y, _ in newbonds) or "-"
    hints = ",".join("-" if after["atoms"][i][9].get("__implicit_hydrogens") is None else str(after["atoms"][i][9]["__implicit_hydrogens"]) for i in range(n0))
    ncharges = n1 if before["charges"] is None else len(after["charges"])
    impl = (f"n={n1} k={','.join(map(str, ks)) or '-'} new={newS} hints={hints} rows={after['coords'].shape[0]} charges={ncharges}")
    requests.append((model_line(mol), impl, {**tag, "what": "counts / new bonds / hints / lengths"}))

    # ---- 5. a second call adds nothing (hint-free molecules) ----
    if all(a["hint"] is None for a in mol["atoms"]) and mol["sel"] is None:
        snap1 = snapshot(s)
        with warnings.catch_warnings():
            warnings.simplefilter("ignore")
            with np.errstate(all="ignore"):
                s.add_implicit_hydrogens()
        snap2 = snapshot(s)
        if len(snap2["atoms"]) != len(snap1["atoms"]) or len(snap2["bonds"]) != len(snap1["bonds"]) \
                or snap2["coords"].tobytes() != snap1["coords"].tobytes():
            ctx.violation("C16:second-call-adds", f"second call: {len(snap1['atoms'])} -> {len(snap2['atoms'])} atoms", tag)
        ctx.count("second-call-checked")
    return n1 - n0


# ----------------------------------------------------------------------------------------------

# ----------------------------------------------------------------------------------------------
# copies of one molecule: completing one must not touch the other, and each gets what ITS hints say
# ----------------------------------------------------------------------------------------------
COPY_HOW = ["ctor", "deepcopy", "pickle"]


def make_copy(s, how):
    import copy
    import pickle

    if how == "ctor":
        return type(s)(s)
    if how == "deepcopy":
        return copy.deepcopy(s)
    return pickle.loads(pickle.dumps(s))


def same_snapshot(x, y):
    return (x["atoms"] == y["atoms"] and x["bonds"] == y["bonds"] and x["coords"].tobytes() == y["coords"].tobytes()
            and x["charges"] == y["charges"])


def run_copies(ctx, mol, origin, requests, how, order, live=None, **kw):
    """clone, complete one, check the other is untouched, complete the other: both judged against the same description"""
    s = live if live is not None else build(mol)
    extra = {"copy": how, "order": order}
    try:
        c = make_copy(s, how)
    except Exception as e:  # noqa: BLE001
        ctx.count(f"copy:{how}:not-possible:{type(e).__name__}")
        return run_case(ctx, mol, origin, requests, live=s, **kw)
    ctx.count(f"copy:{how}:{order}")
    # the copy must carry the same description (hints included), otherwise the scenario says nothing
    if [a.attrib.get("__implicit_hydrogens") for a in c.atoms] != [a["hint"] for a in mol["atoms"]]:
        ctx.count(f"copy:{how}:hints-not-carried")
        return run_case(ctx, mol, origin, requests, live=s, **kw)
    first, second = (c, s) if order == "copy-first" else (s, c)
    pre = snapshot(second)
    added = run_case(ctx, mol, origin, requests, live=first, extra_tag={**extra, "completed": "first"}, **kw)
    post = snapshot(second)
    if not same_snapshot(pre, post):
        changed = [i for i, (x, y) in enumerate(zip(pre["atoms"], post["atoms"])) if x != y]
        ctx.violation("C16:completing-one-copy-changed-the-other",
                      f"after add_implicit_hydrogens on the {'copy' if order == 'copy-first' else 'original'} ({how}) the other object changed "
                      f"(atoms {changed[:6]}; {len(pre['atoms'])} -> {len(post['atoms'])} atoms)", {"mol": mol, "origin": origin, **extra})
    run_case(ctx, mol, origin, requests, live=second, extra_tag={**extra, "completed": "second"}, **kw)
    return added


# ----------------------------------------------------------------------------------------------
# three-neighbour centres under rigid placements
# ----------------------------------------------------------------------------------------------
def random_rotation(rng):
    while True:
        q = [2 * rng.uniform() - 1 for _ in range(4)]
        n2 = sum(x * x for x in q)
        if 0.05 < n2 <= 1:
            break
    n = math.sqrt(n2)
    w, x, y, z = (t / n for t in q)
    return [[1 - 2 * (y * y + z * z), 2 * (x * y - z * w), 2 * (x * z + y * w)],
            [2 * (x * y + z * w), 1 - 2 * (x * x + z * z), 2 * (y * z - x * w)],
            [2 * (x * z - y * w), 2 * (y * z + x * w), 1 - 2 * (x * x + y * y)]]


def place(mol, rng, tmax=50.0):
    """the same molecule after a random rotation and a translation of length up to `tmax` Å"""
    R = random_rotation(rng)
    d = unit((rng.uniform() - 0.5, rng.uniform() - 0.5, rng.uniform() - 0.5 + 1e-9))
    t = [tmax * rng.uniform() * x for x in d]
    out = json.loads(json.dumps(mol))
    for a in out["atoms"]:
        p = a["xyz"]
        a["xyz"] = [sum(R[r][c] * p[c] for c in range(3)) + t[r] for r in range(3)]
    return out


def pyramid(rng):
    """a centre that needs exactly one hydrogen, with three neighbours in a plane `h` Å below it (flattened to steep)"""
    z, q = rng.choice([(6, 0), (6, 0), (7, 1), (5, -1), (14, 0), (15, 1)])
    h = rng.choice([0.12, 0.15, 0.2, 0.25, 0.3, 0.4, 0.5]) + 0.05 * rng.uniform() if rng.chance(3, 4) else 0.5 + 0.4 * rng.uniform()
    atoms = [{"z": z, "q": q, "spin": 0, "cc": False, "hint": None, "xyz": [0.0, 0.0, 0.0], "pc": 0.0}]
    bonds = []
    for t in range(3):
        phi = math.radians(120 * t + 50 * (rng.uniform() - 0.5))
        rho = 1.0 + 0.8 * rng.uniform()
        atoms.append({"z": rng.choice([9, 17, 1, 35]), "q": 0, "spin": 0, "cc": False, "hint": None,
                      "xyz": [rho * math.cos(phi), rho * math.sin(phi), -h], "pc": 0.0})
        bonds.append([0, t + 1, 1, "1/1"] if rng.chance(1, 2) else [t + 1, 0, 1, "1/1"])
    return {"atoms": atoms, "bonds": bonds, "cls": "Molecule" if rng.chance(1, 2) else "Structure", "sel": None}


def search_sign_failure(ctx, mol, i, rng, tries, **kw):
    """failing-input search (S): the direction on atom `i` is not the normal of its neighbours' plane; look for a rigid
    placement of the same molecule in which the hydrogen ends up pointing towards the centroid"""
    import numpy as np

    for t in range(tries):
        m2 = place(mol, rng)
        s = build(m2)
        n0 = len(m2["atoms"])
        try:
            with warnings.catch_warnings():
                warnings.simplefilter("ignore")
                with np.errstate(all="ignore"):
                    s.add_implicit_hydrogens()
        except Exception:  # noqa: BLE001
            continue
        idx = {id(a): k for k, a in enumerate(s.atoms)}
        hs = [idx[id(b.a2)] if idx[id(b.a1)] == i else idx[id(b.a1)] for b in s.bonds
              if i in (idx[id(b.a1)], idx[id(b.a2)]) and max(idx[id(b.a1)], idx[id(b.a2)]) >= n0]
        cls, w, nb = geometry_class(m2, i, len(hs))
        if cls != "ok" or w is None:
            continue
        fa = fvec(m2["atoms"][i]["xyz"])
        for j in hs:
            if np.isfinite(s.coords[j]).all() and fdot(fsub(fvec(s.coords[j]), fa), fvec(w)) >= 0:
                ctx.violation("C16:not-pointing-away",
                              f"hydrogen {j} on atom {i} does not point away from the centroid of its neighbours "
                              f"(found by the placement search, try {t + 1})", {"mol": m2, "origin": "search:rigid-placements", "atom": i})
                return True
    return False


# ----------------------------------------------------------------------------------------------
# the count must not depend on the atom's type / geometry labels
# ----------------------------------------------------------------------------------------------
def typed_molecules(rng, elements_13_16):
    """every AtomType value and every AtomGeom value on every element of groups 13-16, bare and with one single bond"""
    from molli.chem import AtomGeom, AtomType

    def one(z, atype, geom, nn):
        atoms = [{"z": z, "q": 0, "spin": 0, "cc": atype == CC, "hint": None, "xyz": (0.5, 0.25, -0.125), "pc": 0.0,
                  "atype": atype, "geom": geom}]
        bonds = []
        if nn:
            atoms.append({"z": 9, "q": 0, "spin": 0, "cc": False, "hint": None, "xyz": (1.7, 0.6, 0.3), "pc": 0.0})
            bonds.append([0, 1, 1, "1/1"])
        return {"atoms": atoms, "bonds": bonds, "cls": "Structure" if nn else "Molecule", "sel": None}

    for z in elements_13_16:
        for t in AtomType:
            for nn in (0, 1):
                yield one(z, int(t), 0, nn)
        for g in AtomGeom:
            yield one(z, 1, int(g), rng.below(2))


def mol2_typed_atoms(elements_13_16):
    """live atoms typed by `set_mol2_type` from every token the writer can emit for a group 13-16 element, and from
    every element symbol combined with every suffix the reader knows"""
    from molli.chem import Atom, AtomGeom, AtomType, Element

    toks = set()
    for z in elements_13_16:
        e = Element(z)
        for t in AtomType:
            for g in AtomGeom:
                try:
                    toks.add(Atom(e, atype=t, geom=g).get_mol2_type())
                except Exception:  # noqa: BLE001
                    pass
        for suf in ("", ".4", ".3", ".2", ".1", ".ar", ".am", ".cat", ".pl3", ".co2", ".O", ".O2", ".oh", ".th", ".t3p", ".spc", ".o2"):
            toks.add(e.name + suf)
    for tok in sorted(toks):
        a = Atom()
        try:
            a.set_mol2_type(tok)
        except Exception:  # noqa: BLE001
            continue
        yield tok, a


# ----------------------------------------------------------------------------------------------
# histories before the call: queries, then edits through every route (API and the live lists), then the call
# ----------------------------------------------------------------------------------------------
def query_everything(s):
    """populate whatever an object might remember between calls"""
    for a in list(s.atoms):
        list(s.connected_atoms(a))
        list(s.bonds_with_atom(a))
        s.bonded_valence(a)
        s.n_bonds_with_atom(a)
        list(s.yield_bfs(a))
    for b in list(s.bonds):
        s.is_bond_in_ring(b)
        list(s.yield_bfsd(b.a1, b.a2))
    for i in range(s.n_atoms):
        s.get_atom_coord(i)
        s.get_atom_index(s.atoms[i])


def gen_history_edit(rng, mol, serial):
    n = len(mol["atoms"])
    present = {frozenset((b[0], b[1])) for b in mol["bonds"]}
    free = [(i, j) for i in range(n) for j in range(i + 1, n) if frozenset((i, j)) not in present
            and len([b for b in mol["bonds"] if i in (b[0], b[1])]) < 3 and len([b for b in mol["bonds"] if j in (b[0], b[1])]) < 3]
    choices = []
    if free:
        choices += ["add_bond"] * 4
    if mol["bonds"]:
        choices += ["del_bond"] * 4 + ["set_bond"] + (["swap_bonds"] if len(mol["bonds"]) > 1 else [])
    if n > 2:
        choices += ["del_atom"]
    if n > 1:
        choices += ["swap_atoms"]
    choices += ["add_atom", "set_atom"]
    op = rng.choice(choices)
    if op == "add_bond":
        i, j = rng.choice(free)
        if rng.chance(1, 2):
            i, j = j, i
        return {"op": op, "i": i, "j": j, "bt": rng.choice([1, 1, 2, 20]),
                "route": rng.choice(["append_bond", "connect", "list.append", "list.insert", "append_bonds"]), "pos": rng.below(len(mol["bonds"]) + 1)}
    if op == "del_bond":
        return {"op": op, "k": rng.below(len(mol["bonds"])), "route": rng.choice(["del_bond", "del list[k]", "list.pop"])}
    if op == "set_bond":
        return {"op": op, "k": rng.below(len(mol["bonds"])), "bt": rng.choice([1, 2, 3, 20])}
    if op == "swap_bonds":
        k = rng.below(len(mol["bonds"]) - 1)
        return {"op": op, "k": k, "l": k + 1 + rng.below(len(mol["bonds"]) - k - 1)}
    if op == "del_atom":
        return {"op": op, "i": rng.below(n)}
    if op == "swap_atoms":
        i = rng.below(n - 1)
        return {"op": op, "i": i, "j": i + 1 + rng.below(n - i - 1)}
    if op == "add_atom":
        j = rng.below(n)
        p = mol["atoms"][j]["xyz"]
        d = unit((rng.uniform() - 0.5, rng.uniform() - 0.5, rng.uniform() - 0.5 + 1e-9))
        return {"op": op, "z": rng.choice([6, 7, 8, 9, 1]), "to": j if rng.chance(4, 5) else None,
                "xyz": [p[c] + 1.45 * d[c] for c in range(3)], "route": rng.choice(["connect", "list.append"])}
    return {"op": "set_atom", "i": rng.below(n), "q": rng.choice([-1, 0, 0, 1]), "spin": rng.choice([0, 0, 1, -1]),
            "atype": rng.choice([1, 2, 31, 32, 100, 101, 201, 202, 204, 207])}


def apply_history_edit(s, mol, e):
    """the same edit on the live object and on its description"""
    from molli.chem import Atom, AtomType, Bond, BondType, Element

    op = e["op"]
    if op == "add_bond":
        b = Bond(s.atoms[e["i"]], s.atoms[e["j"]], btype=BondType(e["bt"]))
        entry = [e["i"], e["j"], e["bt"], "1/1"]
        r = e["route"]
        if r == "append_bond":
            s.append_bond(b)
        elif r == "append_bonds":
            s.append_bonds(b)
        elif r == "connect":
            s.connect(e["i"], e["j"], btype=BondType(e["bt"]))
        elif r == "list.append":
            b.parent = s
            s.bonds.append(b)
        else:
            b.parent = s
            s.bonds.insert(e["pos"], b)
            mol["bonds"].insert(e["pos"], entry)
            return
        mol["bonds"].append(entry)
    elif op == "del_bond":
        k, r = e["k"], e["route"]
        if r == "del_bond":
            s.del_bond(s.bonds[k])
        elif r == "list.pop":
            s.bonds.pop(k)
        else:
            del s.bonds[k]
        mol["bonds"].pop(k)
    elif op == "set_bond":
        s.bonds[e["k"]].btype = BondType(e["bt"])
        mol["bonds"][e["k"]][2] = e["bt"]
    elif op == "swap_bonds":
        k, l = e["k"], e["l"]
        s.bonds[k], s.bonds[l] = s.bonds[l], s.bonds[k]
        mol["bonds"][k], mol["bonds"][l] = mol["bonds"][l], mol["bonds"][k]
    elif op == "del_atom":
        i = e["i"]
        s.del_atom(i)
        mol["atoms"].pop(i)
        mol["bonds"][:] = [[b[0] - (b[0] > i), b[1] - (b[1] > i), b[2], b[3]] for b in mol["bonds"] if i not in (b[0], b[1])]
    elif op == "swap_atoms":
        # the atom list is edited in place: the coordinate rows (and partial charges) stay where they are
        i, j = e["i"], e["j"]
        s.atoms[i], s.atoms[j] = s.atoms[j], s.atoms[i]
        ai, aj = mol["atoms"][i], mol["atoms"][j]
        keep_i, keep_j = (ai["xyz"], ai["pc"]), (aj["xyz"], aj["pc"])
        mol["atoms"][i], mol["atoms"][j] = aj, ai
        mol["atoms"][i]["xyz"], mol["atoms"][i]["pc"] = keep_i
        mol["atoms"][j]["xyz"], mol["atoms"][j]["pc"] = keep_j
        sw = {i: j, j: i}
        mol["bonds"][:] = [[sw.get(b[0], b[0]), sw.get(b[1], b[1]), b[2], b[3]] for b in mol["bonds"]]
    elif op == "add_atom":
        a = Atom(Element(e["z"]))
        if mol["cls"] == "Molecule":
            s.add_atom(a, list(e["xyz"]), charge=0.0)
        else:
            s.add_atom(a, list(e["xyz"]))
        mol["atoms"].append({"z": e["z"], "q": 0, "spin": 0, "cc": False, "hint": None, "xyz": list(e["xyz"]), "pc": 0.0})
        if e["to"] is not None:
            if e["route"] == "connect":
                s.connect(a, e["to"])
            else:
                b = Bond(a, s.atoms[e["to"]])
                b.parent = s
                s.bonds.append(b)
            mol["bonds"].append([len(mol["atoms"]) - 1, e["to"], 1, "1/1"])
    elif op == "set_atom":
        a = s.atoms[e["i"]]
        a.formal_charge, a.formal_spin, a.atype = e["q"], e["spin"], AtomType(e["atype"])
        d = mol["atoms"][e["i"]]
        d["q"], d["spin"], d["atype"], d["cc"] = e["q"], e["spin"], e["atype"], e["atype"] == CC
    else:
        raise ValueError(op)


def run_history(ctx, mol, origin, requests, rng, script=None, **kw):
    """queries and edits before the call; the call is judged on the graph as it is when it is made"""
    initial = json.loads(json.dumps(mol))
    mol = json.loads(json.dumps(mol))
    s = build(mol)
    edits = []
    nrounds = len(script) if script is not None else rng.range(1, 4)
    def queries():
        try:
            query_everything(s)
        except Exception as ex:  # noqa: BLE001  (a graph query that fails on a consistent object)
            ctx.violation("C16:query-raised-in-history",
                          f"{type(ex).__name__}: {ex} in a neighbour / valence / ring query after the edits {edits}",
                          {"mol": initial, "origin": origin, "initial": initial, "history": list(edits)})

    for r in range(nrounds):
        queries()
        e = script[r] if script is not None else gen_history_edit(rng, mol, r)
        try:
            apply_history_edit(s, mol, e)
        except Exception as ex:  # noqa: BLE001  (a legal edit refused by an object that is in a consistent state)
            ctx.violation("C16:edit-raised-in-history", f"{type(ex).__name__}: {ex} in edit {e} after the edits {edits}",
                          {"mol": initial, "origin": origin, "initial": initial, "history": edits + [e]})
            return mol, 0
        edits.append(e)
        ctx.count(f"history:edit:{e['op']}" + (f":{e['route']}" if "route" in e else ""))
    if rng.chance(2, 3):
        queries()
    ctx.count("history:molecules")
    added = run_case(ctx, mol, origin, requests, live=s, extra_tag={"initial": initial, "history": edits}, **kw)
    return mol, added


def mol_to_json(mol):
    return json.loads(json.dumps(mol))


def run(ctx):
    from molli.chem import Element

    def group_of(z):
        g = Element(z).group
        return 0 if g is None else int(g)

    def radius_of(z):
        return Element(z).cov_radius_1

    ctx.rule = ("one case = one molecule through add_implicit_hydrogens (default atom list, or an explicit duplicate-free subset of "
                "group 13–17 atoms), compared atom by atom: counts, new bonds, consumed hints, array lengths, positions, second call. "
                "Non-trivial = at least one hydrogen is added. Distinct by the canonical model request. Copy scenarios: the molecule is "
                "cloned (copy constructor / deepcopy / pickle), one of the two is completed, the other must be untouched, then the other is "
                "completed; both are judged against the same description (every bundled CDXML fragment; generated molecules, half of those "
                "with hints). Placement scenarios: a centre with three neighbours in a plane 0.12–0.9 Å below it, needing one hydrogen, "
                "under rotations + translations up to 50 Å; the hydrogen must lie on the exact normal of that plane (model tie) and point "
                "away from the centroid (strict).")
    ctx.assumptions += [
        "A-frame: normalisation, cross products, SVD (mean_plane) and rotation_matrix_from_vectors are floating-point; the theorems take the resulting frame as input and state what they need of it; the returned positions are checked against the exact constants with tolerance 2e-5·L² (model) / 1e-4 relative (property)",
        "A-domain: 'points away' is claimed where the property's non-degenerate domain applies (centroid of the orienting neighbours ≠ centre, 3 neighbours pyramidal by ≥ 0.1 Å and one hydrogen, 2 neighbours not collinear, ≤ 3 neighbours); coordination-centre neighbours do not orient (as the code filters them)",
        "A-hint: hints above four, and explicit atom lists with duplicates or atoms outside groups 13–17, are outside the domain",
        "A-dtype: the partial charge stored for a new hydrogen (None, D07) is C05's subject; only the length of atomic_charges and the old entries are checked here",
    ]
    from molli.chem import AtomGeom, AtomType
    ALL_ATYPES[:] = [int(t) for t in AtomType]
    ALL_GEOMS[:] = [int(g) for g in AtomGeom]
    ctx.proof(props=["Molli.Props.C16"], gen=["Valence"])
    rng = ctx.rng
    requests = []
    bad_normals = []
    kw = dict(group_of=group_of, radius_of=radius_of, bad_normals=bad_normals)

    def account(mol, added, origin):
        line = model_line(mol)
        ctx.case(line, nontrivial=bool(added))
        ctx.count(f"{origin}:molecules")
        ctx.count("adds-hydrogens" if added else "adds-nothing")
        n = len(mol["atoms"])
        ctx.count(f"atoms={'1' if n == 1 else '2-3' if n <= 3 else '4-9' if n <= 9 else '10+'}")
        if any(a["hint"] is not None for a in mol["atoms"]):
            ctx.count("with-hints")
        if mol["sel"] is not None:
            ctx.count("explicit-atom-list")

    # ---- corpus ----
    cdir = Path(__file__).resolve().parent.parent / "corpus" / "C16"
    if cdir.is_dir():
        for f in sorted(cdir.glob("*.json")):
            j = json.loads(f.read_text())
            mol = j["mol"]
            if j.get("copy"):
                added = run_copies(ctx, mol, "corpus", requests, j["copy"], j.get("order", "copy-first"), **kw)
            else:
                added = run_case(ctx, mol, "corpus", requests, **kw)
            account(mol, added, "corpus")

    # ---- the whole domain of the count formula on one centre ----
    elements_13_16 = [e.value for e in Element if 13 <= group_of(e.value) <= 16]
    ngrid = 0
    for mol in grid_molecules(rng, elements_13_16, full=not ctx.quick()):
        ngrid += 1
        if mol["atoms"][0]["spin"] < 0:
            ctx.count("grid:negative-spin")
        ctx.check_deadline()
        mol = mol_to_json(mol)
        added = run_case(ctx, mol, "grid", requests, **kw)
        account(mol, added, "grid")
    ctx.extra_cov["count_formula_grid"] = (f"{ngrid} centres: all {len(elements_13_16)} elements of groups 13-16 x charges -2..+2 x spins -2..+2 x "
                                           + ("36 neighbour-bond multisets" if not ctx.quick() else
                                              "36 neighbour-bond multisets (B C N O Si P S) / 0..4 single bonds (other elements)"))

    # ---- hinted centres that already carry explicit hydrogens ----
    for mol in hinted_molecules(rng):
        ctx.check_deadline()
        mol = mol_to_json(mol)
        added = run_case(ctx, mol, "hinted", requests, **kw)
        account(mol, added, "hinted")
        ctx.count("hinted-centre-with-explicit-hydrogens" if any(a["z"] == 1 for a in mol["atoms"][1:]) else "hinted-centre")

    # ---- every atom type / geometry label, and atoms typed from mol2 tokens: the count ignores the labels ----
    for mol in typed_molecules(rng, elements_13_16):
        ctx.check_deadline()
        mol = mol_to_json(mol)
        added = run_case(ctx, mol, "typed", requests, **kw)
        account(mol, added, "typed")
        ctx.count(f"typed:atype={mol['atoms'][0]['atype']}")
    from molli.chem import Atom as _Atom, Bond as _Bond, Structure as _Structure
    ntok = 0
    for tok, a in mol2_typed_atoms(elements_13_16):
        if not (13 <= group_of(a.element.value) <= 16):
            continue
        for nn in (0, 1):
            live = _Structure()
            b = _Atom(a.element, atype=a.atype, geom=a.geom)
            b.set_mol2_type(tok)
            live.add_atom(b, [0.5, 0.25, -0.125])
            if nn:
                f = _Atom("F")
                live.add_atom(f, [1.7, 0.6, 0.3])
                live.append_bond(_Bond(b, f))
            mol = mol_to_json(describe(live))
            added = run_case(ctx, mol, f"mol2-token:{tok}", requests, live=live, **kw)
            account(mol, added, "mol2-typed")
        ntok += 1
    ctx.extra_cov["mol2_tokens_typed"] = ntok

    # ---- random organic-like molecules ----
    nrand = 300 if ctx.quick() else 40000
    for k in range(nrand):
        ctx.check_deadline()
        mol = gen_molecule(rng, ctx.quick())
        if rng.chance(1, 6):
            mol["sel"] = choose_subset(rng, mol, group_of)
        has_hint = any(a["hint"] is not None for a in mol["atoms"])
        if mol["sel"] is None and rng.chance(1, 3):
            mol, added = run_history(ctx, mol_to_json(mol), "random", requests, rng, **kw)
        elif mol["sel"] is None and rng.chance(1, 2 if has_hint else 10):
            added = run_copies(ctx, mol_to_json(mol), "random", requests, rng.choice(COPY_HOW),
                               rng.choice(["copy-first", "original-first"]), **kw)
        else:
            added = run_case(ctx, mol_to_json(mol), "random", requests, **kw)
        account(mol, added, "random")
        if k < 3:
            ctx.sample({"request": model_line(mol)[:300], "hydrogens_added": added})

    # ---- bundled CDXML fragments ----
    import molli as ml
    files = sorted(Path(ml.files.parser_demo_cdxml).parent.glob("*.cdxml"))
    ncd = 0
    for f in files:
        try:
            with warnings.catch_warnings():
                warnings.simplefilter("ignore")
                cdxf = ml.CDXMLFile(f)
                keys = list(cdxf.keys())
        except Exception:
            ctx.count("cdxml:file-not-parsed")
            continue
        for key in keys:
            ctx.check_deadline()
            try:
                with warnings.catch_warnings():
                    warnings.simplefilter("ignore")
                    live = cdxf[key]
            except Exception:
                ctx.count("cdxml:fragment-not-parsed")
                continue
            mol = describe(live)
            # every fragment as a pair of copies: clone, complete one, then the other (all ways of copying, both orders)
            how = COPY_HOW[ncd % 3]
            order = ["copy-first", "original-first"][(ncd // 3) % 2]
            added = run_copies(ctx, mol, f"cdxml:{f.name}:{key}", requests, how, order, live=live, **kw)
            account(mol, added, "cdxml")
            ncd += 1
    ctx.extra_cov["cdxml_fragments"] = ncd

    # ---- three-neighbour centres: the same local geometry under many rigid placements ----
    ngeo, nplace = (40, 8) if ctx.quick() else (1500, 12)
    for g in range(ngeo):
        ctx.check_deadline()
        base = pyramid(rng)
        for t in range(nplace):
            mol = place(base, rng) if t else base
            added = run_case(ctx, mol, "placement", requests, **kw)
            account(mol, added, "placement")
    ctx.extra_cov["rigid_placements"] = f"{ngeo} three-neighbour geometries (centre 0.12–0.9 Å out of plane) x {nplace} rotations + translations up to 50 Å"

    # ---- search (S): a direction that is not the plane normal → look for a placement where the sign comes out wrong ----
    if bad_normals:
        budget = 3000 if ctx.quick() else 30000
        seen = 0
        for mol, i in bad_normals:
            if seen >= 6 or budget <= 0 or len(mol["atoms"]) > 12:
                continue
            seen += 1
            tries = min(budget, 1000 if ctx.quick() else 6000)
            budget -= tries
            ctx.count("placement-search:started")
            if search_sign_failure(ctx, mol, i, rng, tries, **kw):
                ctx.count("placement-search:found")
                break

    # ---- model side ----
    outs = ctx.driver([r[0] for r in requests])
    for (line, want, tag), got in zip(requests, outs):
        if got != want:
            ctx.disagree(tag.get("what", "model"), {"request": line[:1500], "origin": tag.get("origin")}, want, got)
    ctx.extra_cov["driver_requests"] = len(requests)


def replay(ctx, path):
    from molli.chem import Element

    obj = json.loads(Path(path).read_text())
    print(json.dumps(obj, indent=1)[:3000])
    r = obj.get("replay") or {}
    if "mol" not in r:
        return 0
    mol = r["mol"]
    if r.get("history") is not None:
        mol = json.loads(json.dumps(r["initial"]))
        s = build(mol)
        for e in r["history"]:
            try:
                query_everything(s)
            except Exception as ex:  # noqa: BLE001
                print("  a query raised:", type(ex).__name__, ex)
            apply_history_edit(s, mol, e)
            print("  edit:", e)
        try:
            query_everything(s)
        except Exception as ex:  # noqa: BLE001
            print("  a query raised:", type(ex).__name__, ex)
        print("history re-run (queries between the edits); graph at the time of the call:", model_line(mol)[:400])
    else:
        s = build(mol)
    if r.get("copy"):
        c = make_copy(s, r["copy"])
        first, second = (c, s) if r.get("order") == "copy-first" else (s, c)
        with warnings.catch_warnings():
            warnings.simplefilter("ignore")
            first.add_implicit_hydrogens()
        print(f"copy scenario ({r['copy']}, {r.get('order')}): first object completed: {len(mol['atoms'])} -> {first.n_atoms} atoms;",
              "hints left on the other:", [a.attrib.get("__implicit_hydrogens") for a in second.atoms],
              "described:", [a["hint"] for a in mol["atoms"]])
        s = second
    with warnings.catch_warnings():
        warnings.simplefilter("ignore")
        s.add_implicit_hydrogens() if mol["sel"] is None else s.add_implicit_hydrogens(*[s.atoms[i] for i in mol["sel"]])
    n0 = len(mol["atoms"])
    print("implementation: atoms", n0, "->", s.n_atoms)
    for j in range(n0, s.n_atoms):
        print("  new atom", j, s.atoms[j].element.name, [float(x) for x in s.coords[j]])
    print("model:", ctx.driver([model_line(mol)])[0])
    return 0
