"""
Shared machinery of every check (see DESIGN.md §2, §4).

  Ctx.proof(...)        regenerate Gen tables from the repo, `lake build` the property's
                        Lean modules, audit axioms of every theorem, grep forbidden tokens
  Ctx.driver(lines)     run the compiled Lean model driver on request lines
  Ctx.case / disagree / violation / sample / dist      bookkeeping of the correspondence run
  Ctx.finish()          verdict (PASS / KNOWN-FINDING / VIOLATION), evidence file, exit code

The implementation under test is imported from $VERIF_REPO (default /repo) by putting that
directory first on sys.path (the /venv install of molli is editable and points to /repo).
"""
from __future__ import annotations

import fcntl
import hashlib
import importlib
import json
import os
import re
import shutil
import signal
import subprocess
import sys
import tempfile
import time
import traceback
from pathlib import Path

VERIF = Path(__file__).resolve().parent.parent
LEAN = VERIF / "lean"
REPO = Path(os.environ.get("VERIF_REPO", "/repo")).resolve()
DRIVER_EXE = LEAN / ".lake" / "build" / "bin" / "molli_driver"
ALLOWED_AXIOMS = {"propext", "Classical.choice", "Quot.sound"}
FORBIDDEN = re.compile(
    r"\bsorry\b|\badmit\b|^\s*axiom\s|native_decide|bv_decide|implemented_by|\bunsafe\s|maxHeartbeats\s+0\b"
)
TRUSTED_BASE = [
    "Lean 4.33.0 kernel",
    "axioms: subset of {propext, Classical.choice, Quot.sound} (audited per theorem on this run)",
    "the reading of the property into the Lean statements of the Props module",
    "harness: table generators (harness/gen), correspondence harness, canonicalisers, driver line parser",
]


# --------------------------------------------------------------------------------------
# deterministic PRNG: one splitmix64 stream per run
# --------------------------------------------------------------------------------------
class Prng:
    MASK = (1 << 64) - 1

    def __init__(self, seed: int):
        self.s = seed & self.MASK

    def next(self) -> int:
        self.s = (self.s + 0x9E3779B97F4A7C15) & self.MASK
        z = self.s
        z = ((z ^ (z >> 30)) * 0xBF58476D1CE4E5B9) & self.MASK
        z = ((z ^ (z >> 27)) * 0x94D049BB133111EB) & self.MASK
        return z ^ (z >> 31)

    def below(self, n: int) -> int:
        return self.next() % n if n > 0 else 0

    def range(self, lo: int, hi: int) -> int:
        """inclusive"""
        return lo + self.below(hi - lo + 1)

    def choice(self, seq):
        return seq[self.below(len(seq))]

    def weighted(self, pairs):
        """pairs: [(item, weight)]"""
        tot = sum(w for _, w in pairs)
        x = self.below(tot)
        for it, w in pairs:
            if x < w:
                return it
            x -= w
        return pairs[-1][0]

    def chance(self, num: int, den: int) -> bool:
        return self.below(den) < num

    def uniform(self) -> float:
        return (self.next() >> 11) / float(1 << 53)

    def shuffle(self, lst):
        for i in range(len(lst) - 1, 0, -1):
            j = self.below(i + 1)
            lst[i], lst[j] = lst[j], lst[i]
        return lst

    def fork(self, tag: str) -> "Prng":
        h = hashlib.sha256(f"{self.s}:{tag}".encode()).digest()
        return Prng(int.from_bytes(h[:8], "big"))


# --------------------------------------------------------------------------------------
# helpers
# --------------------------------------------------------------------------------------
def write_if_changed(path: Path, text: str) -> bool:
    path.parent.mkdir(parents=True, exist_ok=True)
    if path.exists() and path.read_text() == text:
        return False
    tmp = path.with_suffix(path.suffix + ".tmp")
    tmp.write_text(text)
    tmp.replace(path)
    return True


def strip_lean_comments(src: str) -> str:
    """remove /- ... -/ (nested) and -- ... comments and string literals"""
    out = []
    i, n, depth = 0, len(src), 0
    while i < n:
        if src.startswith("/-", i):
            depth += 1
            i += 2
            continue
        if depth and src.startswith("-/", i):
            depth -= 1
            i += 2
            continue
        if depth:
            if src[i] == "\n":
                out.append("\n")
            i += 1
            continue
        if src.startswith("--", i):
            while i < n and src[i] != "\n":
                i += 1
            continue
        if src[i] == '"':
            i += 1
            while i < n and src[i] != '"':
                i += 2 if src[i] == "\\" else 1
            i += 1
            out.append('""')
            continue
        out.append(src[i])
        i += 1
    return "".join(out)


def lean_module_path(mod: str) -> Path:
    return LEAN / (mod.replace(".", "/") + ".lean")


def import_closure(mods: list[str]) -> list[str]:
    """all Molli.* modules reachable through imports from `mods` (project-local only)"""
    seen, todo = [], list(mods)
    while todo:
        m = todo.pop()
        if m in seen:
            continue
        p = lean_module_path(m)
        if not p.exists():
            continue
        seen.append(m)
        for line in p.read_text().splitlines():
            mm = re.match(r"\s*(?:public\s+)?import\s+(Molli[\w.]*)", line)
            if mm:
                todo.append(mm.group(1))
    return sorted(seen)


class BuildLock:
    def __enter__(self):
        self.f = open(LEAN / ".verif-build.lock", "w")
        fcntl.flock(self.f, fcntl.LOCK_EX)
        return self

    def __exit__(self, *a):
        fcntl.flock(self.f, fcntl.LOCK_UN)
        self.f.close()


class Timeout(Exception):
    pass


class ProofResult:
    def __init__(self):
        self.ok = True
        self.obligations = 0
        self.discharged = 0
        self.theorems: dict[str, list[str]] = {}
        self.failures: list[str] = []
        self.log = ""
        self.modules: list[str] = []
        self.gen_changed: list[str] = []
        self.checker_cmd = ""

    def fail(self, msg: str):
        self.ok = False
        self.failures.append(msg)


# --------------------------------------------------------------------------------------
# the context of one check run
# --------------------------------------------------------------------------------------
class Ctx:
    def __init__(self, prop: str, tier: str, seed: int):
        self.prop = prop
        self.tier = tier
        self.seed = seed
        self.t0 = time.time()
        self.rng = Prng(seed ^ int.from_bytes(hashlib.sha256(prop.encode()).digest()[:8], "big"))
        self.evaluations = 0
        self._distinct: set[str] = set()
        self.samples: list = []
        self.dist: dict[str, int] = {}
        self.disagreements: list[dict] = []
        self.violations: list[dict] = []
        self.notes: list[str] = []
        self.proof_result: ProofResult | None = None
        self.rule = ""
        self.assumptions: list[str] = []
        self.extra_cov: dict = {}
        self.exhaustive = False
        self.level = "proof"
        self._scratch: Path | None = None
        self.known = load_known_findings(prop)
        self.deadline = self.t0 + float(os.environ.get("VERIF_DEADLINE_S", "1500" if tier == "quick" else "7000"))

    # ---- scratch space (outside /repo and /verif) ----
    @property
    def scratch(self) -> Path:
        if self._scratch is None:
            base = os.environ.get("VERIF_SCRATCH", tempfile.gettempdir())
            self._scratch = Path(tempfile.mkdtemp(prefix=f"verif-{self.prop}-", dir=base))
            home = self._scratch / "molli_home"
            home.mkdir()
            os.environ["MOLLI_HOME"] = str(home)
        return self._scratch

    def cleanup(self):
        if self._scratch is not None:
            shutil.rmtree(self._scratch, ignore_errors=True)
            self._scratch = None

    def clear_replays(self):
        """replays of earlier runs are stale (called by main.py before a run, never before --replay)"""
        shutil.rmtree(VERIF / "replays" / self.prop, ignore_errors=True)

    def quick(self) -> bool:
        return self.tier == "quick"

    def count(self, key: str, n: int = 1):
        self.dist[key] = self.dist.get(key, 0) + n

    def check_deadline(self):
        if time.time() > self.deadline:
            raise Timeout()

    # ---- bookkeeping of cases ----
    def case(self, canonical, nontrivial: bool = True):
        """one explored case; `canonical` is any JSON-able / str form used for distinctness"""
        self.evaluations += 1
        if nontrivial:
            s = canonical if isinstance(canonical, str) else json.dumps(canonical, sort_keys=True, default=str)
            self._distinct.add(hashlib.sha1(s.encode()).hexdigest())

    def sample(self, obj, limit: int = 5):
        if len(self.samples) < limit:
            self.samples.append(obj)

    def disagree(self, what: str, inp, impl, model):
        """model and implementation differ on `inp` (not yet a verdict about the code)"""
        self.disagreements.append({"what": what, "input": _short(inp), "impl": _short(impl), "model": _short(model)})

    def violation(self, kind: str, what: str, replay):
        """the model-free oracle found the property failing on the real code.
        `kind` names the witness class (matched against known_findings.json)."""
        self.violations.append({"kind": kind, "what": what, "replay": replay})

    # ---- Lean side ----
    def proof(self, props: list[str], gen: list[str] = ()) -> ProofResult:
        """Regenerate the Gen tables named in `gen` (harness/gen/<name>.py: generate() -> str),
        build the Props modules, audit every theorem in props + generated modules."""
        pr = ProofResult()
        self.proof_result = pr
        gen_mods = []
        with BuildLock():
            for g in gen:
                modname = f"Molli.Gen.{g}"
                gen_mods.append(modname)
                try:
                    m = importlib.import_module(f"harness.gen.{g}")
                    text = m.generate()
                    if write_if_changed(lean_module_path(modname), text):
                        pr.gen_changed.append(g)
                except Exception as e:  # broken tie: table cannot be extracted
                    pr.fail(f"table {g} could not be extracted from the repo: {type(e).__name__}: {e}")
                    pr.log += traceback.format_exc()
            targets = list(props) + gen_mods
            pr.modules = targets
            cmd = ["lake", "build", "molli_driver", "Molli.Audit"] + targets
            pr.checker_cmd = f"cd {LEAN} && {' '.join(cmd)} && lake env lean <audit of {' '.join(targets)}>"
            try:
                r = subprocess.run(cmd, cwd=LEAN, capture_output=True, text=True, timeout=3000)
                pr.log += r.stdout + r.stderr
                if r.returncode != 0:
                    errs = [l for l in (r.stdout + r.stderr).splitlines() if "error" in l.lower()][:12]
                    pr.fail("lake build failed: " + " | ".join(errs))
            except subprocess.TimeoutExpired:
                pr.fail("lake build timed out")
            # forbidden tokens anywhere in the import closure of the property modules
            closure = import_closure(targets)
            for mod in closure:
                src = strip_lean_comments(lean_module_path(mod).read_text())
                for ln, line in enumerate(src.splitlines(), 1):
                    if FORBIDDEN.search(line):
                        pr.fail(f"forbidden token in {mod}:{ln}: {line.strip()[:80]}")
            # axiom audit
            if pr.ok or True:
                audit_src = "import Molli.Audit\n" + "".join(f"import {m}\n" for m in targets) + "".join(
                    f"#audit_module {m}\n" for m in targets
                )
                af = LEAN / f".audit_{self.prop}.lean"
                af.write_text(audit_src)
                try:
                    r = subprocess.run(
                        ["lake", "env", "lean", af.name], cwd=LEAN, capture_output=True, text=True, timeout=1200
                    )
                    out = r.stdout + r.stderr
                    if r.returncode != 0:
                        pr.fail("axiom audit could not run: " + out.strip()[:300])
                    for line in out.splitlines():
                        m = re.match(r"AUDIT (\S+) (\S+) \[(.*)\]", line)
                        if m:
                            axs = [a for a in m.group(3).split(",") if a]
                            pr.theorems[m.group(2)] = axs
                except subprocess.TimeoutExpired:
                    pr.fail("axiom audit timed out")
                finally:
                    af.unlink(missing_ok=True)
        # obligations = the theorems written in the sources of the property / generated modules; theorems that Lean
        # generates itself (equation lemmas, injectivity, sizeOf specs ...) are axiom-audited too but not counted
        declared_names = []
        for mod in targets:
            p = lean_module_path(mod)
            if p.exists():
                declared_names += re.findall(r"^\s*(?:@\[[^\]]*\]\s*)?(?:protected\s+|private\s+)?theorem\s+([^\s:({\[]+)",
                                             strip_lean_comments(p.read_text()), re.M)
        user = {}
        for th, axs in pr.theorems.items():
            if any(th == d or th.endswith("." + d) for d in declared_names):
                user[th] = axs
        for th, axs in pr.theorems.items():
            bad = [a for a in axs if a not in ALLOWED_AXIOMS]
            if bad:
                pr.fail(f"theorem {th} depends on {bad}")
            elif th in user:
                pr.discharged += 1
        # thorough tier: replay the compiled modules through Lean's independent re-checker
        if self.tier == "thorough" and pr.ok and not os.environ.get("VERIF_NO_LEANCHECKER"):
            mods = [m for m in import_closure(targets) if not m.startswith("Molli.Driver")]
            try:
                r = subprocess.run(["lake", "env", "leanchecker"] + mods, cwd=LEAN, capture_output=True, text=True, timeout=2400)
                if r.returncode != 0:
                    pr.fail("leanchecker rejected the modules: " + (r.stdout + r.stderr).strip()[-300:])
                else:
                    self.extra_cov["leanchecker_replayed"] = mods
            except subprocess.TimeoutExpired:
                self.notes.append("leanchecker replay timed out (not counted)")
        pr.auto_generated = len(pr.theorems) - len(user)
        pr.theorems = user
        pr.obligations = len(user)
        if len(declared_names) > pr.obligations:
            pr.obligations = len(declared_names)
            pr.fail(f"{len(declared_names)} theorems declared but only {len(user)} checked")
        if pr.obligations == 0:
            pr.fail("no theorem found in the property modules")
        return pr

    def driver(self, lines: list[str], timeout: float = 600) -> list[str]:
        """feed request lines (without the property prefix) to the compiled model driver"""
        if not lines:
            return []
        if not DRIVER_EXE.exists():
            raise RuntimeError("model driver executable missing (build failed?)")
        data = "".join(f"{self.prop} {l}\n" for l in lines)
        r = subprocess.run([str(DRIVER_EXE)], input=data, capture_output=True, text=True, timeout=timeout)
        if r.returncode != 0:
            raise RuntimeError(f"driver exited {r.returncode}: {r.stderr[:300]}")
        outs = r.stdout.split("\n")
        if outs and outs[-1] == "":
            outs.pop()
        if len(outs) != len(lines):
            raise RuntimeError(f"driver returned {len(outs)} lines for {len(lines)} requests")
        return outs

    # ---- verdict ----
    def finish(self) -> int:
        wall = time.time() - self.t0
        pr = self.proof_result or ProofResult()
        if self.proof_result is None:
            pr.fail("no proof stage was run")
        lines = []
        unlisted = []
        known_hit = {}
        for v in self.violations:
            k = match_known(self.known, v)
            if k is not None:
                known_hit.setdefault(k["id"], (k, v))
            else:
                unlisted.append(v)
        for kid, (k, v) in sorted(known_hit.items()):
            lines.append(f"KNOWN-FINDING: property={self.prop} {k['id']} {k['what']}")
        rc = 0
        replay_dir = VERIF / "replays" / self.prop
        if unlisted:
            rc = 1
            replay_dir.mkdir(parents=True, exist_ok=True)
            seen_kinds = set()
            for v in unlisted:
                if v["kind"] in seen_kinds:
                    continue
                seen_kinds.add(v["kind"])
                path = replay_dir / f"{_slug(v['kind'])}.json"
                path.write_text(json.dumps({"property": self.prop, "kind": v["kind"], "what": v["what"],
                                            "seed": self.seed, "tier": self.tier, "replay": v["replay"],
                                            "proof_failures": pr.failures,
                                            "disagreements": self.disagreements[:5]}, indent=1, default=str))
                lines.append(f"VIOLATION property={self.prop} replay={path}")
                print(f"  violation [{v['kind']}]: {v['what']}", file=sys.stderr)
        elif (not pr.ok) or self.disagreements:
            # the property is no longer shown to hold, and the search found no failing input
            rc = 1
            replay_dir.mkdir(parents=True, exist_ok=True)
            path = replay_dir / "unproved.json"
            path.write_text(json.dumps({"property": self.prop, "kind": "no-failing-input-found",
                                        "seed": self.seed, "tier": self.tier,
                                        "broken_proof_obligations": pr.failures,
                                        "broken_correspondence": self.disagreements[:10],
                                        "search": f"oracle evaluated on {self.evaluations} cases found no failing input",
                                        "build_log_tail": pr.log[-3000:]}, indent=1, default=str))
            lines.append(f"VIOLATION property={self.prop} replay={path} no-failing-input-found")
            for f in pr.failures[:5]:
                print(f"  proof obligation broken: {f}", file=sys.stderr)
            for d in self.disagreements[:3]:
                print(f"  correspondence broken: {json.dumps(d, default=str)[:600]}", file=sys.stderr)
        cov = {
            "obligations": max(pr.obligations, 1) if pr.ok else pr.obligations,
            "discharged": pr.discharged,
            "checker_cmd": pr.checker_cmd or "lake build",
            "trusted_base": TRUSTED_BASE + self.assumptions,
            "theorems": {k: v for k, v in sorted(pr.theorems.items())},
            "proof_failures": pr.failures,
            "gen_tables_changed_this_run": pr.gen_changed,
            "evaluations": self.evaluations,
            "distinct_nontrivial": len(self._distinct),
            "rule": self.rule,
            "samples": self.samples or ["(no correspondence case was run)"],
            "input_distribution": dict(sorted(self.dist.items())),
            "disagreements": len(self.disagreements),
            "known_findings_seen": sorted(known_hit.keys()),
            "exhaustive": bool(self.exhaustive),
        }
        cov.update(self.extra_cov)
        ev = {
            "property_id": self.prop,
            "tier": self.tier,
            "seed": self.seed,
            "level": self.level,
            "coverage": cov,
            "assumptions": self.assumptions,
            "wall_s": round(wall, 2),
            "violations": len(unlisted) if unlisted else (1 if rc else 0),
            "repo": str(REPO),
            "notes": self.notes,
        }
        evdir = VERIF / "evidence"
        evdir.mkdir(exist_ok=True)
        (evdir / f"{self.prop}.json").write_text(json.dumps(ev, indent=1, default=str) + "\n")
        for l in lines:
            print(l)
        status = "PASS" if rc == 0 else "FAIL"
        print(f"{status} {self.prop} tier={self.tier} seed={self.seed} obligations={pr.obligations} discharged={pr.discharged} "
              f"cases={self.evaluations} distinct_nontrivial={len(self._distinct)} disagreements={len(self.disagreements)} "
              f"known={len(known_hit)} wall={wall:.1f}s")
        self.cleanup()
        return rc


def _slug(s: str) -> str:
    return re.sub(r"[^A-Za-z0-9_.-]+", "_", s)[:80]


def _short(x, n: int = 4000):
    s = x if isinstance(x, str) else json.dumps(x, default=str)
    return s if len(s) <= n else s[:n] + f"...(+{len(s) - n})"


# --------------------------------------------------------------------------------------
# known findings
# --------------------------------------------------------------------------------------
def load_known_findings(prop: str) -> list[dict]:
    p = VERIF / "known_findings.json"
    if not p.exists():
        return []
    data = json.loads(p.read_text())
    return [e for e in data.get("findings", []) if e.get("property") == prop]


def match_known(known: list[dict], v: dict):
    """a violation is a listed known finding iff its witness class (`kind`) is listed with status `known`.
    `fixed` entries suppress nothing."""
    for k in known:
        if k.get("status") == "known" and k.get("kind") == v["kind"]:
            return k
    return None


# --------------------------------------------------------------------------------------
# repo import
# --------------------------------------------------------------------------------------
def use_repo():
    """make `import molli` resolve to $VERIF_REPO (default /repo)"""
    p = str(REPO)
    if p in sys.path:
        sys.path.remove(p)
    sys.path.insert(0, p)
    os.environ["PYTHONPATH"] = p + (os.pathsep + os.environ["PYTHONPATH"] if os.environ.get("PYTHONPATH") else "")
    os.environ.setdefault("MOLLI_VERIF", "1")


def repo_python() -> str:
    return "/venv/bin/python"


def run_child(args: list[str], timeout: float, **kw) -> subprocess.CompletedProcess | None:
    """run a molli-using child under a hard timeout; None on timeout"""
    try:
        return subprocess.run(args, capture_output=True, text=True, timeout=timeout, **kw)
    except subprocess.TimeoutExpired:
        return None
