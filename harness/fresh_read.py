"""Read mol2 texts in a FRESH process: the process-independent expectation for "the read of a text is a function of the
text alone".  usage: python fresh_read.py <verif dir> <repo dir> <in.json> <out.json>
in: {"texts": [...], "history": [[token, e, t, g], ...] (optional: `Atom(E[e], atype=T[t], geom=G[g]).set_mol2_type(token)`
calls made by "user code" BEFORE anything is read), "order": [indices] (optional reading order)}  out: {"results": ["err" | [canonical molecule, ...], ...]}"""
import json
import sys
import warnings


def main():
    verif, repo, fin, fout = sys.argv[1:5]
    sys.path.insert(0, verif)
    sys.path.insert(0, repo)
    warnings.simplefilter("ignore")
    import molli as ml
    from harness import textlib as tl

    from molli.chem import Atom

    en = tl.Enums()
    job = json.load(open(fin))
    for tok, e, t, g in job.get("history", []):
        try:
            Atom(en.E[e], atype=en.T[t], geom=en.G[g]).set_mol2_type(tok)
        except Exception:  # noqa: BLE001
            pass
    texts = job["texts"]
    out = [None] * len(texts)
    for i in job.get("order", range(len(texts))):
        try:
            out[i] = [tl.canon_mol(en, m) for m in ml.Molecule.loads_all_mol2(texts[i])]
        except Exception:  # noqa: BLE001
            out[i] = "err"
    json.dump({"results": out, "molli": ml.__file__}, open(fout, "w"))


if __name__ == "__main__":
    main()
