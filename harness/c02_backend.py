"""Collection(UkvCollectionBackend) sessions for C02 (filled in below)."""


def run(ctx):
    pass
