"""Collection(UkvCollectionBackend) sessions for C02: "inside a writing session every key the collection
lists is readable", the map semantics through the buffered backend for bufsize in {-1, 0, 64, 10^6},
failed puts (duplicate, oversize key, read-only) leave the view unchanged; 1..2 long-lived collection
objects on the same path (their cached UKVFile handles go stale between sessions)."""
from __future__ import annotations

import struct
from io import UnsupportedOperation
from pathlib import Path

from harness import ukvlib
from harness.ukvlib import hx, keys_token

# incl. non-ASCII keys: 127 x "é" = 254 bytes (accepted), 128 x "é" = 256 bytes in 128 characters (must be refused)
KEYS = ["a", "b", "k" * 255, "L" * 256, "", "z1", "z2", "z3", "é" * 127, "é" * 128, "ü"]
VALS = [b"", b"v", b"0123456789" * 7, b"\x00" * 200]
BUFS = [-1, 0, 64, 1_000_000]


def tok_err(e, op):
    if isinstance(e, FileNotFoundError):
        return "err:not-found"
    if isinstance(e, UnsupportedOperation):
        return "err:readonly" if op in ("begin", "cput") else "err:closed"
    if isinstance(e, KeyError):
        return "err:key-exists" if op in ("cput", "cflush", "end") else "err:no-key"
    if isinstance(e, (struct.error, ValueError)):
        return "err:too-long"
    if isinstance(e, OSError):
        return "err:readonly"
    return f"err:other:{type(e).__name__}"


class RealC:
    def __init__(self, path: Path):
        self.path = path
        self.c = {}
        self.cm = {}

    def apply(self, op):
        from molli.storage import Collection, UkvCollectionBackend

        k = op[0]
        try:
            if k == "cnew":
                _, c, buf, ro, ow, cm = op
                self.c[c] = Collection(self.path, UkvCollectionBackend, bufsize=buf, readonly=bool(ro),
                                       overwrite=bool(ow), comment=cm.decode())
                return "ok"
            c = op[1]
            if c not in self.c:
                return "err:no-backend"
            col = self.c[c]
            if k == "begin":
                cm = col.writing(timeout=5) if op[2] == "w" else col.reading(timeout=5)
                cm.__enter__()
                self.cm[c] = cm
                return "ok"
            if k == "end":
                cm = self.cm.pop(c, None)
                if cm is None:
                    return "err:no-session"
                cm.__exit__(None, None, None)
                return "ok"
            if k == "cput":
                col[op[2]] = op[3]
                return "ok"
            if k == "cputx":
                # the put's exception is not caught inside the session: it propagates out of `with c.writing():`
                try:
                    col[op[2]] = op[3]
                    return "ok"
                except Exception as e:
                    cm = self.cm.pop(c, None)
                    tok = tok_err(e, "cput")
                    try:
                        swallowed = cm.__exit__(type(e), e, e.__traceback__)
                    except type(e):
                        swallowed = False
                    return tok + ("+end" if not swallowed else "+swallowed")
            if k == "cget":
                return "val:" + hx(col[op[2]])
            if k == "ckeys":
                return keys_token([x.encode() for x in col.keys()])
            if k == "cflush":
                col.flush()
                return "ok"
        except Exception as e:
            return tok_err(e, k)
        raise ValueError(k)

    def abort_all(self):
        for c, cm in list(self.cm.items()):
            try:
                cm.__exit__(None, None, None)
            except Exception:
                pass
        self.cm.clear()
        for col in self.c.values():      # nothing may be left for the atexit flush hooks
            try:
                col._backend._write_queue.clear()
            except Exception:
                pass


def line_of(op):
    k = op[0]
    if k == "cnew":
        return f"cnew {op[1]} {op[2]} {op[3]} {op[4]} {hx(op[5])}"
    if k == "begin":
        return f"begin {op[1]} {op[2]}"
    if k in ("cput", "cputx"):
        return f"cput {op[1]} {hx(op[2].encode())} {hx(op[3])} {len(op[2])}"
    if k == "cget":
        return f"cget {op[1]} {hx(op[2].encode())}"
    return f"{k} {op[1]}"


def short(op):
    return " ".join((x if len(x) < 12 else f"<{len(x)}c>") if isinstance(x, str) else
                    ((hx(x) if len(x) < 8 else f"<{len(x)}B>") if isinstance(x, bytes) else str(x)) for x in op)


def gen_ops(rng, n):
    buf = rng.choice(BUFS)
    ops = [("cnew", 0, buf, 0, 0, rng.choice([b"", b"lib"]))]
    ncol = 1
    insess = None      # (c, mode)
    for _ in range(n):
        if insess is None:
            k = rng.weighted([("begin", 10), ("cnew", 2), ("ckeys", 1)])
            if k == "cnew":
                c = rng.below(2)
                ro = 1 if rng.chance(1, 4) else 0
                # truncating re-creation only while no other collection object caches the file (insert-only scope)
                ow = 1 if (not ro and ncol == 1 and c == 0 and rng.chance(1, 6)) else 0
                ops.append(("cnew", c, rng.choice(BUFS), ro, ow, b""))
                ncol = max(ncol, c + 1)
            elif k == "begin":
                c = rng.below(ncol)
                m = rng.weighted([("w", 3), ("r", 1)])
                ops.append(("begin", c, m))
                insess = (c, m)
            else:
                ops.append(("ckeys", rng.below(ncol)))
        else:
            c, m = insess
            k = rng.weighted([("cput", 12), ("cget", 5), ("ckeys", 3), ("cflush", 1), ("end", 4), ("cputx", 2)])
            if k == "cputx" and m != "w":
                k = "cput"
            if k == "cputx":
                # a put that must fail (duplicate of a key of this script, or an oversize key); its exception ends the session
                prev = [o[2] for o in ops if o[0] in ("cput",) and o[1] == c]
                key = rng.choice(prev) if prev and rng.chance(2, 3) else KEYS[3]
                ops.append(("cputx", c, key, rng.choice(VALS)))
                insess = None
                continue
            if k == "cput":
                key = rng.weighted([(KEYS[0], 3), (KEYS[1], 3), (KEYS[2], 1), (KEYS[3], 1), (KEYS[4], 1),
                                    (KEYS[5], 2), (KEYS[6], 2), (KEYS[7], 2), (KEYS[8], 1), (KEYS[9], 1), (KEYS[10], 1),
                                    ("r%d" % rng.below(30), 6)])
                ops.append(("cput", c, key, rng.choice(VALS)))
            elif k == "cget":
                ops.append(("cget", c, rng.choice(KEYS[:3] + KEYS[4:9] + KEYS[10:])))
            elif k == "end":
                ops.append(("end", c))
                insess = None
            elif k == "cflush":
                if m == "w":
                    ops.append(("cflush", c))
            else:
                ops.append(("ckeys", c))
    if insess is not None:
        ops.append(("end", insess[0]))
    return ops


def run_seq(ctx, path: Path, ops):
    if path.exists():
        path.unlink()
    real = RealC(path)
    ref = {}
    toks = []
    done = []
    viol = None
    sess = None
    try:
        for op in ops:
            k = op[0]
            if k in ("cput", "cputx", "cget", "cflush", "end") and sess is None:
                continue          # outside a session: not in the property's domain
            if k in ("cput", "cputx", "cflush") and sess[1] != "w" and not real.c[sess[0]]._backend._readonly:
                continue          # a put inside a reading() session of a writable collection is a usage error outside the claim
            col = real.c.get(op[1])
            before = None
            if col is not None and sess is not None:
                before = sorted(col.keys())
            out = real.apply(op)
            if k == "cputx":
                # seen by the model as the failing put followed by the session exit (flush of what was buffered, close)
                k = "cput"
                op = ("cput",) + tuple(op[1:])
                if out.endswith("+end") or out.endswith("+swallowed"):
                    out = out.rsplit("+", 1)[0]
                    toks.append(out)
                    done.append(op)
                    toks.append("ok")
                    done.append(("end", op[1]))
                    ctx.count("session_ended_by_escaping_put_exception")
                    sess = None
                    if not viol and sorted(real.c[op[1]].keys()) != before:
                        viol = ("C02:collection-failed-put-changes-listing", f"`{short(op)}` failed with {out} but changed keys()")
                    continue
                # the put was accepted after all (the key it duplicates was never stored): the session is ended normally,
                # as the generator assumed it would end
                toks.append(out)
                done.append(op)
                if out == "ok" and not viol:
                    if op[2] in ref:
                        viol = ("C02:collection-duplicate-put-accepted", f"`{short(op)}` was accepted although the key is already stored/listed")
                    else:
                        ref[op[2]] = op[3]
                toks.append(real.apply(("end", op[1])))
                done.append(("end", op[1]))
                sess = None
                continue
            toks.append(out)
            done.append(op)
            if k == "cnew" and out == "ok" and op[4]:
                ref = {}
            if k == "begin" and out == "ok":
                sess = (op[1], op[2])
            if k == "end":
                sess = None
            if viol:
                continue
            if k == "cput" and out == "ok":
                if op[2] in ref:
                    viol = ("C02:collection-duplicate-put-accepted",
                            f"`{short(op)}` was accepted although the key is already stored/listed")
                else:
                    ref[op[2]] = op[3]
            if out.startswith("err:") and k == "cput" and before is not None:
                col = real.c[op[1]]
                if sorted(col.keys()) != before:
                    viol = ("C02:collection-failed-put-changes-listing", f"`{short(op)}` failed with {out} but changed keys()")
            if out.startswith("err:other"):
                viol = ("C02:collection-unexpected-exception", f"`{short(op)}` raised {out}")
            # inside a session: everything listed must be readable with the value that was put
            if sess is not None and real.c.get(sess[0]) is not None and k != "begin" or (k == "begin" and out == "ok"):
                if sess is None:
                    continue
                col = real.c[sess[0]]
                listed = sorted(col.keys())
                if listed != sorted(ref.keys()):
                    viol = ("C02:collection-listing-differs-from-puts",
                            f"after `{short(op)}` the collection lists {len(listed)} keys; {len(ref)} were put successfully")
                    continue
                for kk in listed:
                    try:
                        got = col[kk]
                    except Exception as e:
                        viol = ("C02:listed-key-not-readable",
                                f"after `{short(op)}` (bufsize={col._backend._bufsize}) key {kk[:12]!r} is listed but c[key] raises {type(e).__name__}")
                        break
                    if got != ref[kk]:
                        viol = ("C02:collection-get-differs-from-put", f"after `{short(op)}` c[{kk[:12]!r}] != value put")
                        break
                if not viol and len(done) % 3 == 0:
                    # the other public ways to enumerate a collection tell the same story as keys() + c[key]
                    for how, fn in (("items()", lambda: dict(col.items())), ("values()", lambda: sorted(col.values())),
                                    ("iteration", lambda: sorted(col)), ("len()", lambda: len(col)),
                                    ("`in`", lambda: all(kk in col for kk in ref))):
                        want = {"items()": ref, "values()": sorted(ref.values()), "iteration": sorted(ref), "len()": len(ref), "`in`": True}[how]
                        try:
                            got = fn()
                        except Exception as e:
                            got = f"{type(e).__name__}: {e}"
                        if got != want:
                            viol = ("C02:listed-key-not-readable" if how in ("items()", "values()") else "C02:collection-listing-differs-from-puts",
                                    f"after `{short(op)}` (bufsize={col._backend._bufsize}) {how} of the collection gives {str(got)[:60]!r}, "
                                    f"not what keys() + c[key] give ({len(ref)} pairs)")
                            break
    finally:
        real.abort_all()
    data = path.read_bytes() if path.exists() else None
    if not viol and data is not None:
        hdr, recs, clean = ukvlib.scan_file(data)
        if hdr is None or not clean or {k.decode("utf-8", "replace"): v for k, v in recs} != ref:
            viol = ("C02:collection-file-differs-from-puts", "independent scan of the final file != the successfully put pairs")
    if viol:
        ctx.violation(viol[0], viol[1], {"ops": [line_of(o) for o in done]})
    return toks, (hx(data) if data is not None else "none"), done


def two_libraries(ctx):
    """two (three) collections on DIFFERENT paths whose writing sessions are open at the same time in one process: each is
    its own insert-only map — nothing put into one may show up in, or be missing from, the other (model-free oracle; the
    byte-level model has one file per world)."""
    from molli.storage import Collection, UkvCollectionBackend
    from harness import ukvlib
    combos = [(64, 64), (1_000_000, 1_000_000), (1_000_000, -1), (0, 64), (-1, -1), (1_000_000, 0, 64)]
    for ci, bufs in enumerate(combos):
        paths = [ctx.scratch / f"two{ci}_{j}.ukv" for j in range(len(bufs))]
        for p in paths:
            p.unlink(missing_ok=True)
        cols = [Collection(p, UkvCollectionBackend, readonly=False, bufsize=b) for p, b in zip(paths, bufs)]
        ref = [dict() for _ in cols]
        tag = {"two_libraries": {"bufsizes": list(bufs)}}
        bad = None
        import contextlib
        for rnd in range(2):                   # two rounds of overlapping sessions on the same long-lived objects
          try:
              with contextlib.ExitStack() as st:
                  for c in cols:
                      st.enter_context(c.writing(timeout=5))
                  for step in range(6):
                      j = (step + rnd) % len(cols)
                      shared, own = f"k{rnd}{step // len(cols)}", f"own{j}r{rnd}s{step}"
                      for k, v in ((shared, f"lib{j}:{shared}".encode()), (own, bytes([j]) * (step + 1))):
                          try:
                              cols[j][k] = v
                              ref[j][k] = v
                          except Exception as e:
                              bad = bad or f"put {k!r} into library {j} raised {type(e).__name__}: {e}"
                      for i, c in enumerate(cols):
                          listed = sorted(c.keys())
                          if listed != sorted(ref[i]) and not bad:
                              bad = f"library {i} lists {listed[:6]} after its own puts {sorted(ref[i])[:6]}"
                          for k, v in ref[i].items():
                              try:
                                  got = c[k]
                              except Exception as e:
                                  got = f"{type(e).__name__}"
                              if got != v and not bad:
                                  bad = f"library {i}: key {k!r} reads {str(got)[:30]!r}, {v[:30]!r} was put into it"
          except Exception as e:
            bad = bad or f"overlapping writing sessions on different libraries raised {type(e).__name__}: {e}"
        for i, p in enumerate(paths):
            hdr, recs, clean = ukvlib.scan_file(p.read_bytes())
            onfile = {k.decode("utf-8", "replace"): v for k, v in recs}
            if (onfile != ref[i] or not clean) and not bad:
                bad = f"file of library {i} holds {sorted(onfile)[:6]}, the pairs put into it are {sorted(ref[i])[:6]}"
        ctx.case(f"two-libraries:{bufs}", True)
        ctx.count("two_library_scenarios")
        if bad:
            ctx.violation("C02:libraries-on-different-paths-interfere", bad, tag)


def run(ctx):
    two_libraries(ctx)
    path = ctx.scratch / "col.ukv"
    n = 150 if ctx.quick() else 3000
    fixed = [
        # D04 witness: buffered put is listed; must be readable before the flush
        [("cnew", 0, 1_000_000, 0, 0, b""), ("begin", 0, "w"), ("cput", 0, "a", b"v"), ("ckeys", 0), ("cget", 0, "a"), ("end", 0),
         ("begin", 0, "r"), ("cget", 0, "a"), ("end", 0)],
        # duplicate and oversize keys with a large buffer
        [("cnew", 0, 1_000_000, 0, 0, b""), ("begin", 0, "w"), ("cput", 0, "a", b"1"), ("cput", 0, "a", b"2"), ("cget", 0, "a"),
         ("cput", 0, "L" * 256, b"x"), ("cput", 0, "é" * 128, b"y"), ("cput", 0, "é" * 127, b"z"), ("ckeys", 0), ("end", 0),
         ("begin", 0, "w"), ("cput", 0, "a", b"3"), ("cget", 0, "a"), ("cget", 0, "é" * 127), ("end", 0)],
        # two long-lived collection objects alternate (stale cached handles)
        [("cnew", 0, 64, 0, 0, b""), ("cnew", 1, -1, 0, 0, b""), ("begin", 0, "w"), ("cput", 0, "a", b"1"), ("end", 0),
         ("begin", 1, "w"), ("cput", 1, "b", b"2"), ("cput", 1, "a", b"9"), ("end", 1), ("begin", 0, "w"), ("ckeys", 0), ("cput", 0, "b", b"7"),
         ("cput", 0, "z1", b""), ("end", 0), ("begin", 1, "r"), ("ckeys", 1), ("cget", 1, "z1"), ("end", 1)],
    ]
    seqs = fixed + [gen_ops(ctx.rng, ctx.rng.range(6, 40)) for _ in range(n)]
    lines, impls = [], []
    for s in seqs:
        toks, fhex, done = run_seq(ctx, path, s)
        lines.append(";".join(line_of(o) for o in done))
        impls.append((toks, fhex, done))
        ctx.case("col:" + lines[-1], any(o[0] == "cput" for o in done) and any(o[0] == "end" for o in done))
        for o, t in zip(done, toks):
            ctx.count("cop:" + o[0]); ctx.count("cout:" + (t if t.startswith("err") else t.split(":")[0]))
        ctx.count("collection_sequences")
        ctx.count(f"bufsize={s[0][2]}")
        ctx.check_deadline()
    ctx.sample({"collection_ops": [short(o) for o in impls[1][2]], "outcomes": [t[:24] for t in impls[1][0]]})
    outs = ctx.driver(lines)
    for line, (toks, fhex, done), mout in zip(lines, impls, outs):
        parts = mout.split(";")
        mfile, mt = parts[-1][5:], parts[:-1]
        if mt != toks:
            idx = next((j for j, (a, b) in enumerate(zip(mt, toks)) if a != b), min(len(mt), len(toks)))
            ctx.disagree("collection op outcome differs", {"ops": [short(o) for o in done], "first_difference_at": idx},
                         toks[idx] if idx < len(toks) else None, mt[idx] if idx < len(mt) else None)
        elif mfile != fhex:
            ctx.disagree("collection final file bytes differ", {"ops": [short(o) for o in done]}, fhex[:200], mfile[:200])
