"""Gen/Schema.lean: the wire orders of the library codecs, obtained from the LIVE code by sentinel probing
through the public library API.

 serialiser side   probe objects whose every field holds a distinct sentinel are stored in a real
                   MoleculeLibrary / ConformerLibrary; the raw stored value is read with UKVFile + msgpack and
                   each slot of the top-level / atom / bond tuple is attributed to the field whose sentinel it
                   holds (in every probe).
 decoder side      the stored tuple of probe A with ONE slot replaced by the slot of probe B (all values
                   different, same counts) is written as a raw record and read through `lib[key]`; the fields of
                   the object that now show B's value are the fields this slot feeds.  Count slots: the tuple of
                   a probe that differs from A in exactly one count (conformers / atoms / bonds) with that slot
                   put back to A's value - a slot the decoder reads makes the decode fail or change.
 also              constructor defaults (`Atom()`, `Bond(a, b)`), `Element.get` on every member value, the
                   encoding version the library classes choose for a set of file headers.

The generated module ends with the `decide` obligations the parametric theorems of Molli.Props.C01 need.
"""
from __future__ import annotations

import shutil
import tempfile
from pathlib import Path

from harness import codeclib as cl
from harness.gen._util import HEADER, lean_bytes, lean_int, lean_str

_CACHE = {}


# --------------------------------------------------------------------------------------
# probe objects
# --------------------------------------------------------------------------------------
def _enum_vals():
    from molli.chem import AtomGeom, AtomStereo, AtomType, BondStereo, BondType, Element
    return {
        "element": sorted({int(m) for m in Element}),
        "atype": sorted({int(m) for m in AtomType}),
        "stereo": sorted({int(m) for m in AtomStereo}),
        "geom": sorted({int(m) for m in AtomGeom}),
        "btype": sorted({int(m) for m in BondType}),
        "bstereo": sorted({int(m) for m in BondStereo}),
    }


def _pick(vals, used, salt):
    """a member value not used by another integer sentinel of the same tuple"""
    n = len(vals)
    for k in range(n):
        v = vals[(salt * 7 + 3 + k) % n]
        if v not in used and v > 1:
            used.add(v)
            return v
    raise RuntimeError("no distinct sentinel value available")


def probe_record(kind: str, variant: str) -> dict:
    """A: base; B: every value different, same counts; D: one more conformer; E: one more atom; F: one more bond"""
    ev = _enum_vals()
    tag = "B" if variant == "B" else "A"
    s = 1 if variant == "B" else 0
    na = 4 if variant == "E" else 3
    nc = 5 if variant == "D" else 4
    atoms = []
    for i in range(na):
        used = set()
        fc, fs, iso = -(3 + i + 10 * s), 70 + i + 10 * s, 200 + i + 10 * s
        used |= {fc, fs, iso}
        el = _pick(ev["element"], used, i + 4 * s)
        at = _pick(ev["atype"], used, i + 4 * s + 1)
        st = _pick(ev["stereo"], used, i + 4 * s + 2)
        ge = _pick(ev["geom"], used, i + 4 * s + 3)
        atoms.append([el, iso, f"SENT_al{i}{tag}", at, st, ge, fc, fs, {f"SENT_aa{i}{tag}": i + 1}])
    ends = ([(2, 1), (0, 1)] if not s else [(0, 2), (1, 0)]) + ([(0, 2)] if variant == "F" else [])
    bonds = []
    for j, (x, y) in enumerate(ends):
        used = {x, y}
        bt = _pick(ev["btype"], used, j + 3 * s)
        bs = _pick(ev["bstereo"], used, j + 3 * s + 1)
        bonds.append([x, y, f"SENT_bl{j}{tag}", bt, bs, 2.5 + j + 4 * s, {f"SENT_ba{j}{tag}": j + 1}])
    base = 4000.0 * s
    rec = {"kind": kind, "name": f"SENT_name{tag}", "charge": -7 - 2 * s, "mult": 6 + 2 * s,
           "attrib": {f"SENT_attr{tag}": 1 + s}, "atoms": atoms, "bonds": bonds}
    if kind == "mol":
        rec["coords"] = [[1000.0 + base + 3 * i + k for k in range(3)] for i in range(na)]
        rec["charges"] = [2000.0 + base + i for i in range(na)]
    else:
        rec["coords"] = [[[1000.0 + base + (c * na + i) * 3 + k for k in range(3)] for i in range(na)] for c in range(nc)]
        rec["weights"] = [3000.0 + base + c for c in range(nc)]
        rec["charges"] = [[2000.0 + base + c * na + i for i in range(na)] for c in range(nc)]
    return rec


def variants(kind: str) -> list:
    return ["A", "B", "E", "F"] + (["D"] if kind == "ens" else [])


COUNT_OF = {"D": "n_conformers", "E": "n_atoms", "F": "n_bonds"}


# --------------------------------------------------------------------------------------
# serialiser side
# --------------------------------------------------------------------------------------
def _teq(a, b) -> bool:
    try:
        return cl.canon_nan(cl.toks(a)) == cl.canon_nan(cl.toks(b))
    except TypeError:
        return False


def _f32s(b):
    import numpy as np
    if not isinstance(b, (bytes, bytearray)) or len(b) % 4:
        return None
    return np.frombuffer(bytes(b), dtype=">f4").astype(float).tolist()


def _top_matches(f: str, val, rec: dict) -> bool:
    flat = lambda x: list(cl._flat(x))  # noqa: E731
    if f in ("name", "charge", "mult"):
        return _teq(val, rec[f])
    if f == "attrib":
        return _teq(val, rec["attrib"])
    if f == "n_atoms":
        return type(val) is int and val == len(rec["atoms"])
    if f == "n_bonds":
        return type(val) is int and val == len(rec["bonds"])
    if f == "n_conformers":
        return rec["kind"] == "ens" and type(val) is int and val == len(rec["coords"])
    if f == "atoms":
        return (isinstance(val, tuple) and len(val) == len(rec["atoms"])
                and all(isinstance(t, tuple) and any(_teq(x, a[2]) for x in t) for t, a in zip(val, rec["atoms"])))
    if f == "bonds":
        return (isinstance(val, tuple) and len(val) == len(rec["bonds"])
                and all(isinstance(t, tuple) and any(_teq(x, b[2]) for x in t) for t, b in zip(val, rec["bonds"])))
    if f == "coords":
        return _f32s(val) == flat(rec["coords"])
    if f == "atomic_charges":
        return _f32s(val) == flat(rec["charges"])
    if f == "weights":
        return rec["kind"] == "ens" and _f32s(val) == flat(rec["weights"])
    return False


def _label(cands: list) -> str:
    return cands[0] if len(cands) == 1 else "other"


def ser_orders(wires: dict, recs: dict) -> dict:
    """wires/recs: per variant the stored tuple and the probe record"""
    vs = [v for v in wires if isinstance(wires[v], tuple)]
    if "A" not in vs or "B" not in vs:
        return {"top": ["other"], "atom": ["other"], "bond": ["other"]}
    width = len(wires["A"])
    vs = [v for v in vs if len(wires[v]) == width]
    top = []
    for p in range(width):
        top.append(_label([f for f in cl.TFIELDS[:12] if all(_top_matches(f, wires[v][p], recs[v]) for v in vs)]))

    def inner(slot_field, fields, getter):
        if slot_field not in top:
            return ["other"]
        p = top.index(slot_field)
        t0 = wires["A"][p][0]
        out = []
        for q in range(len(t0)):
            out.append(_label([f for k, f in enumerate(fields)
                               if all(q < len(wires[v][p][0]) and _teq(wires[v][p][0][q], getter(recs[v])[k]) for v in vs)]))
        return out

    return {"top": top,
            "atom": inner("atoms", cl.AFIELDS, lambda r: r["atoms"][0]),
            "bond": inner("bonds", cl.BFIELDS, lambda r: r["bonds"][0])}


# --------------------------------------------------------------------------------------
# decoder side
# --------------------------------------------------------------------------------------
TOP_OBS = ["name", "charge", "mult", "attrib", "atoms", "bonds", "coords", "atomic_charges", "weights"]


def _obs(snap: dict, f: str):
    return snap.get({"atomic_charges": "charges"}.get(f, f))


def _snap_eq(a, b) -> bool:
    return (isinstance(a, dict) and isinstance(b, dict) and a.get("shape") == b.get("shape")
            and cl.canon_nan(cl.record_tokens(a)) == cl.canon_nan(cl.record_tokens(b)))


def deser_orders(kind: str, version: int, wires: dict, ser: dict, work: Path) -> dict:
    bad = {"top": ["other"], "atom": ["other"], "bond": ["other"]}
    if not all(isinstance(wires.get(v), tuple) for v in ("A", "B")) or len(wires["A"]) != len(wires["B"]):
        return bad
    WA, WB = wires["A"], wires["B"]
    width = len(WA)
    items = [(v, wires[v]) for v in wires if isinstance(wires[v], tuple)]

    def repl(t, p, x):
        return t[:p] + (x,) + t[p + 1:]

    for p in range(width):
        if not _teq(WA[p], WB[p]):
            items.append((f"t{p}", repl(WA, p, WB[p])))
        for X, w in wires.items():
            if (X in COUNT_OF and isinstance(w, tuple) and len(w) == width and type(WA[p]) is int
                    and not _teq(w[p], WA[p])):
                items.append((f"c{p}{X}", repl(w, p, WA[p])))
    pa = ser["top"].index("atoms") if "atoms" in ser["top"] else None
    pb = ser["top"].index("bonds") if "bonds" in ser["top"] else None
    if pa is not None:
        for q in range(len(WA[pa][0])):
            if q < len(WB[pa][0]):
                a0 = repl(WA[pa][0], q, WB[pa][0][q])
                items.append((f"a{q}", repl(WA, pa, (a0,) + WA[pa][1:])))
    if pb is not None:
        for q in range(len(WA[pb][0])):
            if q < len(WB[pb][0]):
                b0 = repl(WA[pb][0], q, WB[pb][0][q])
                items.append((f"b{q}", repl(WA, pb, (b0,) + WA[pb][1:])))
    path = work / f"dec_{kind}_v{version}.lib"
    cl.put_raw(path, version, kind, items)
    got = cl.load(kind, path, [k for k, _ in items])
    snaps = {}
    for k, o in got.items():
        try:
            snaps[k] = None if isinstance(o, Exception) else cl.snapshot(o)
        except Exception:  # noqa: BLE001
            snaps[k] = None
    rbA, rbB = snaps.get("A"), snaps.get("B")
    if rbA is None or rbB is None:
        return bad
    top = []
    for p in range(width):
        eff = set()
        h = snaps.get(f"t{p}", "absent")
        if h is None:
            eff.add("other")
        elif h != "absent":
            for f in TOP_OBS:
                if _obs(rbA, f) is None:
                    continue
                if _teq(_obs(h, f), _obs(rbB, f)) and not _teq(_obs(h, f), _obs(rbA, f)):
                    eff.add(f)
                elif not _teq(_obs(h, f), _obs(rbA, f)):
                    eff.add("other")
        for X, cname in COUNT_OF.items():
            key = f"c{p}{X}"
            if key in snaps and (snaps[key] is None or not _snap_eq(snaps[key], snaps.get(X))):
                eff.add(cname)
        top.append("skip" if not eff else _label(sorted(eff)))

    def inner(prefix, n, fields, getter):
        out = []
        for q in range(n):
            h = snaps.get(f"{prefix}{q}", "absent")
            if h is None or h == "absent":
                out.append("other")
                continue
            eff = []
            for k, f in enumerate(fields):
                hv, av, bv = getter(h)[k], getter(rbA)[k], getter(rbB)[k]
                if _teq(hv, bv) and not _teq(hv, av):
                    eff.append(f)
                elif not _teq(hv, av):
                    eff.append("other")
            out.append(_label(eff) if eff else "other")
        return out

    return {"top": top,
            "atom": inner("a", len(WA[pa][0]), cl.AFIELDS, lambda s: s["atoms"][0]) if pa is not None else ["other"],
            "bond": inner("b", len(WA[pb][0]), cl.BFIELDS, lambda s: s["bonds"][0]) if pb is not None else ["other"]}


# --------------------------------------------------------------------------------------
# defaults, Element.get, version dispatch
# --------------------------------------------------------------------------------------
def defaults():
    from molli.chem import Atom, Bond
    a = Atom()
    b = Bond(Atom(), Atom())
    return ([getattr(a, f) for f in cl.AFIELDS], [None, None] + [getattr(b, f) for f in cl.BFIELDS[2:]])


def element_table():
    from molli.chem import Element
    out = []
    for z in sorted({int(m) for m in Element}):
        try:
            out.append((z, int(Element.get(z))))
        except Exception:  # noqa: BLE001
            out.append((z, -1))
    return out


HEADERS = [b"ML10Library", b"ML10UKV01", b"ML10Librar", b"ML10LibraryXYZ", b"XML10Library", b"ml10library",
           b"ML10Library\x00\x00\x00\x00\x01", b"M"]


def version_table(work: Path):
    """[(first 16 bytes of the file | None, observed encoding version)]: the version is read off the arity of
    the record the library class writes into such a file (legacy molecule records have 8 slots)"""
    from molli.storage.ukvfile import UKVFile
    rec = probe_record("mol", "A")
    out = []
    for i, h1 in enumerate([None] + HEADERS):
        p = work / f"ver{i}.mlib"
        if p.exists():
            p.unlink()
        if h1 is not None:
            with cl.hard_timeout(cl.SESSION_TIMEOUT, "version probe"):
                with UKVFile(p, mode="x", h1=h1):
                    pass
            head = p.read_bytes()[:16]
        else:
            head = None
        cl.store("mol", p, [("k", cl.build(rec))])
        w = cl.raw_values(p, ["k"]).get("k")
        ver = 0 if not isinstance(w, tuple) else (1 if len(w) == 8 else (2 if len(w) == 10 else 0))
        out.append((head, ver))
    return out


# --------------------------------------------------------------------------------------
# the whole probe
# --------------------------------------------------------------------------------------
def probe(work: Path | None = None) -> dict:
    """{'orders': {(kind, version): {'ser': {...}, 'deser': {...}}}, 'atom_dflt', 'bond_dflt', 'elements', 'versions'}"""
    own = work is None
    if own:
        work = Path(tempfile.mkdtemp(prefix="verif-schema-"))
    try:
        res = {"orders": {}}
        for kind in ("mol", "ens"):
            for version in (2, 1):
                recs = {v: probe_record(kind, v) for v in variants(kind)}
                path = work / f"ser_{kind}_v{version}.lib"
                cl.new_library_file(kind, path, version)
                cl.store(kind, path, [(v, cl.build(r)) for v, r in recs.items()])
                wires = cl.raw_values(path, list(recs))
                ser = ser_orders(wires, recs)
                de = deser_orders(kind, version, wires, ser, work)
                res["orders"][(kind, version)] = {"ser": ser, "deser": de}
        res["atom_dflt"], res["bond_dflt"] = defaults()
        res["elements"] = element_table()
        res["versions"] = version_table(work)
        return res
    finally:
        if own:
            shutil.rmtree(work, ignore_errors=True)


def cached_probe() -> dict:
    if "p" not in _CACHE:
        _CACHE["p"] = probe()
    return _CACHE["p"]


# --------------------------------------------------------------------------------------
# Lean text
# --------------------------------------------------------------------------------------
def lean_mval(v) -> str:
    if v is None:
        return ".nil"
    if isinstance(v, bool):
        return f"(.bool {'true' if v else 'false'})"
    if isinstance(v, int):
        return f"(.int {lean_int(int(v))})"
    if isinstance(v, float):
        return "(.f64 0x%016x)" % cl.f64_bits(v)
    if isinstance(v, str):
        return f"(.str {lean_bytes(v.encode('utf8'))})"
    if isinstance(v, bytes):
        return f"(.bin {lean_bytes(v)})"
    if isinstance(v, (list, tuple)):
        return f"(.arr {'true' if isinstance(v, list) else 'false'} [{', '.join(lean_mval(x) for x in v)}])"
    if isinstance(v, dict):
        return "(.map [" + ", ".join(f"({lean_mval(k)}, {lean_mval(x)})" for k, x in v.items()) + "])"
    raise TypeError(type(v))


def _lst(xs) -> str:
    return "[" + ", ".join("." + x for x in xs) + "]"


def _fn(fields, vals) -> str:
    arms = " ".join(f"| .{f} => {lean_mval(v)}" for f, v in zip(fields, vals))
    return f"⟨fun f => match f with {arms} | .other => .nil⟩"


def generate() -> str:
    pr = cached_probe()
    L = [HEADER.format(name="Schema", src="molli/chem/io.py, molli/chem/library.py via stored probe records"), """
import Molli.Model.Codec
namespace Molli.Gen.Schema
open Molli.Model.Codec

/-- `Atom()` -/
def atomDflt : AtomRec := %s
/-- `Bond(a, b)` (endpoints have no default) -/
def bondDflt : BondRec := %s
""" % (_fn(cl.AFIELDS, pr["atom_dflt"]), _fn(cl.BFIELDS, pr["bond_dflt"]))]
    names = {}
    for (kind, version), o in sorted(pr["orders"].items()):
        for side in ("ser", "deser"):
            nm = f"{side}{kind.capitalize()}V{version}"
            names[(kind, version, side)] = nm
            d = o[side]
            L.append(f"""/-- {'wire order written by' if side == 'ser' else 'slots read by'} the {'current' if version == 2 else 'legacy'} {kind} codec -/
def {nm} : Schema :=
  {{ atom := {_lst(d['atom'])}
    bond := {_lst(d['bond'])}
    top := {_lst(d['top'])}
    atomDflt := atomDflt, bondDflt := bondDflt }}
""")
    L.append("/-- `(z, Element.get(z))` for every member value of `Element` -/\ndef elementGet : List (Int × Int) :=\n  ["
             + ", ".join(f"({z}, {lean_int(g)})" for z, g in pr["elements"]) + "]\n")
    L.append("/-- `(first 16 bytes of an existing file | none, encoding version the library class used)` -/\n"
             "def versionTable : List (Option (List UInt8) × Nat) :=\n  ["
             + ",\n   ".join(f"({'none' if h is None else 'some ' + lean_bytes(h)}, {v})" for h, v in pr["versions"]) + "]\n")
    L.append("/-! obligations: the side conditions of the parametric round-trip theorems, for the orders the code has now -/\n")
    for (kind, version) in sorted(pr["orders"]):
        s, d = names[(kind, version, "ser")], names[(kind, version, "deser")]
        K, tag = kind.capitalize(), f"{kind}_v{version}"
        req = f"{kind}Required" + ("V1" if version == 1 else "")
        L.append(f"""theorem atom_order_agrees_{tag} : {s}.atom = {d}.atom := by decide
theorem bond_order_agrees_{tag} : {s}.bond = {d}.bond := by decide
theorem top_order_agrees_{tag} : {s}.top.map eraseUnread = {d}.top := by decide
theorem top_required_{tag} : ∀ f ∈ {req}, f ∈ {s}.top := by decide
theorem orders_nodup_{tag} : {s}.top.Nodup ∧ {s}.atom.Nodup ∧ {s}.bond.Nodup := by decide
""")
        if version == 2:
            L.append(f"""theorem atom_fields_{tag} : ∀ f ∈ AField.all, f ∈ {s}.atom := by decide
theorem bond_fields_{tag} : ∀ f ∈ BField.all, f ∈ {s}.bond := by decide
""")
        else:
            L.append(f"""theorem atom_fields_{tag} :
    ∀ f ∈ [AField.element, .isotope, .label, .atype, .stereo, .geom], f ∈ {s}.atom := by decide
theorem bond_fields_{tag} : ∀ f ∈ [BField.a1, .a2, .label, .btype, .stereo, .f_order], f ∈ {s}.bond := by decide
""")
    L.append("""/-- `Element.get` is the identity on the integer values of the enumeration -/
theorem element_get_id : ∀ p ∈ elementGet, p.1 = p.2 := by decide
/-- the codec version is chosen by the `ML10Library` magic, exactly as `codecVersion` says -/
theorem version_dispatch : ∀ p ∈ versionTable, codecVersion p.1 = p.2 := by decide

end Molli.Gen.Schema
""")
    return "\n".join(L)
