"""Gen/UkvLayout.lean: the struct layouts and defaults of molli/storage/ukvfile.py, read from the live module."""
from harness.gen._util import lean_bytes, lean_str, HEADER


def generate() -> str:
    from molli.storage import ukvfile as u

    fh, bh = u._FILE_HEADER, u._BLOCK_HEADER
    ffmt = fh.format if isinstance(fh.format, str) else fh.format.decode()
    bfmt = bh.format if isinstance(bh.format, str) else bh.format.decode()
    # behaviour probes of the two structs (so that an equivalent spelling of the format keeps the table)
    fprobe = fh.pack(b"ABCDEFGHIJKLMNOPQRS", 0x0102, 0x03040506)
    bprobe = bh.pack(0xA1, 0xB2B3B4B5)
    return HEADER.format(name="UkvLayout", src="molli/storage/ukvfile.py") + f"""
import Molli.Model.Ukv
namespace Molli.Gen.UkvLayout

def fileHeaderFormat : String := {lean_str(ffmt)}
def fileHeaderSize : Nat := {fh.size}
def blockHeaderFormat : String := {lean_str(bfmt)}
def blockHeaderSize : Nat := {bh.size}
def h1Default : List UInt8 := {lean_bytes(u.UKVFile.FILE_H1_DEFAULT)}
/-- `_FILE_HEADER.pack(b"ABCDEFGHIJKLMNOPQRS", 0x0102, 0x03040506)` -/
def fileHeaderProbe : List UInt8 := {lean_bytes(fprobe)}
/-- `_BLOCK_HEADER.pack(0xA1, 0xB2B3B4B5)` -/
def blockHeaderProbe : List UInt8 := {lean_bytes(bprobe)}

open Molli.Model.Ukv

/-! obligations: the byte layout the model (and every theorem about it) assumes is the layout of the code -/
theorem file_header_layout :
    fileHeaderSize = 32 ∧ hdrFixed [65,66,67,68,69,70,71,72,73,74,75,76,77,78,79,80,81,82,83] 0x0102 0x03040506 = fileHeaderProbe := by
  decide
theorem block_header_layout : blockHeaderSize = 5 ∧ blkHdr 0xA1 0xB2B3B4B5 = blockHeaderProbe := by decide
theorem h1_default : h1Default = defaultH1 := by decide
theorem encHeader_uses_layout (h1 h2 b0 : List UInt8) :
    encHeader h1 h2 b0 = hdrFixed h1 h2.length b0.length ++ h2 ++ b0 := by simp [encHeader, hdrFixed]
theorem encBlock_uses_layout (r : KV) : encBlock r = blkHdr r.key.length r.val.length ++ r.key ++ r.val := by
  simp [encBlock, blkHdr]

end Molli.Gen.UkvLayout
"""
