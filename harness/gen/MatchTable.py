"""Gen/MatchTable.lean: `Connectivity._node_match` / `_edge_match` evaluated on the live code over all enum pairs
(molli/chem/bond.py); the obligations say that the model's `nodeMatch` / `edgeMatch` are these functions."""
from harness.gen._util import HEADER


def generate() -> str:
    from molli.chem import Atom, Bond, BondType, BondStereo, AtomStereo, Element, Connectivity

    nm, em = Connectivity._node_match, Connectivity._edge_match

    def node(eg, ep, ig=None, ip=None, sg=AtomStereo.Unknown, sp=AtomStereo.Unknown):
        g = Atom(eg, isotope=ig, stereo=sg).as_dict()
        p = Atom(ep, isotope=ip, stereo=sp).as_dict()
        return bool(nm(g, p))

    a, b = Atom("C"), Atom("C")

    def edge(tg, tp, sg=BondStereo.Unknown, sp=BondStereo.Unknown, lg=None, lp=None):
        g = Bond(a, b, btype=tg, stereo=sg, label=lg).as_dict()
        p = Bond(a, b, btype=tp, stereo=sp, label=lp).as_dict()
        try:
            return bool(em(g, p))
        except NotImplementedError:
            return None

    def ob(x):
        return "none" if x is None else ("some true" if x else "some false")

    def oi(x):
        return "none" if x is None else f"some {x}"

    def os_(x):
        return "none" if x is None else f'some "{x}"'

    elements = list(Element)
    # every source element against a spread of pattern elements, and every pattern element against a few sources
    picks = [e for e in elements if e.value in (0, 1, 6, 8, 118)]
    el_rows = sorted(set([(g.value, p.value, node(g, p)) for g in elements for p in picks] +
                         [(g.value, p.value, node(g, p)) for g in picks for p in elements]))
    isos = [None, 12, 13]
    stereos = [x for x in AtomStereo if x.value in (0, 1, 10, 11)]
    attr_rows = []
    for eg, ep in [(Element.C, Element.C), (Element.C, Element.Unknown), (Element.N, Element.C)]:
        for ig in isos:
            for ip in isos:
                for sg in stereos:
                    for sp in stereos:
                        attr_rows.append((eg.value, ep.value, ig, ip, sg.value, sp.value, node(eg, ep, ig, ip, sg, sp)))
    btypes = list(BondType)
    bt_rows = [(g.value, p.value, edge(g, p)) for g in btypes for p in btypes]
    bstereos = [x for x in BondStereo if x.value in (0, 10, 11)]
    labels = [None, "a", "b"]
    eattr_rows = []
    for tg, tp in [(BondType.Single, BondType.Single), (BondType.Double, BondType.Unknown), (BondType.Single, BondType.Double),
                   (BondType.Aromatic, BondType.Aromatic)]:
        for sg in bstereos:
            for sp in bstereos:
                for lg in labels:
                    for lp in labels:
                        eattr_rows.append((tg.value, tp.value, sg.value, sp.value, lg, lp, edge(tg, tp, sg, sp, lg, lp)))

    def lst(rows, f):
        return "[" + ", ".join(f(r) for r in rows) + "]"

    return HEADER.format(name="MatchTable", src="molli/chem/bond.py") + f"""
import Molli.Model.Graph
namespace Molli.Gen.MatchTable
open Molli.Model.Graph

def elUnknown : Nat := {Element.Unknown.value}
def asUnknown : Nat := {AtomStereo.Unknown.value}
def bsUnknown : Nat := {BondStereo.Unknown.value}
/-- the bond types a pattern bond may carry without `_edge_match` raising `NotImplementedError` -/
def patternBondTypes : List Nat := [{", ".join(str(t.value) for t in btypes if edge(BondType.Single, t) is not None)}]

/-- `_node_match(Atom(g).as_dict(), Atom(p).as_dict())` for every element against 5 representative ones (both roles): (g, p, result) -/
def nodeElementTable : List (Nat × Nat × Bool) := {lst(el_rows, lambda r: f"({r[0]}, {r[1]}, {'true' if r[2] else 'false'})")}
/-- `_node_match` with isotopes and stereo descriptors: (g, p, isotope g, isotope p, stereo g, stereo p, result) -/
def nodeAttrTable : List (Nat × Nat × Option Int × Option Int × Nat × Nat × Bool) :=
  {lst(attr_rows, lambda r: f"({r[0]}, {r[1]}, {oi(r[2])}, {oi(r[3])}, {r[4]}, {r[5]}, {'true' if r[6] else 'false'})")}
/-- `_edge_match` on every pair of bond types (other fields neutral); `none` = NotImplementedError -/
def edgeBtypeTable : List (Nat × Nat × Option Bool) := {lst(bt_rows, lambda r: f"({r[0]}, {r[1]}, {ob(r[2])})")}
/-- `_edge_match` with stereo and label: (btype g, btype p, stereo g, stereo p, label g, label p, result) -/
def edgeAttrTable : List (Nat × Nat × Nat × Nat × Option String × Option String × Option Bool) :=
  {lst(eattr_rows, lambda r: f"({r[0]}, {r[1]}, {r[2]}, {r[3]}, {os_(r[4])}, {os_(r[5])}, {ob(r[6])})")}

/-! obligations: the model's predicates are the code's, on every enum pair -/
theorem node_element_table_agrees :
    nodeElementTable.all (fun r => nodeMatch elUnknown asUnknown ⟨r.1, none, asUnknown⟩ ⟨r.2.1, none, asUnknown⟩ == r.2.2) = true := by
  decide +kernel
theorem node_attr_table_agrees :
    nodeAttrTable.all (fun r => nodeMatch elUnknown asUnknown ⟨r.1, r.2.2.1, r.2.2.2.2.1⟩ ⟨r.2.1, r.2.2.2.1, r.2.2.2.2.2.1⟩ == r.2.2.2.2.2.2) = true := by
  decide +kernel
theorem edge_btype_table_agrees :
    edgeBtypeTable.all (fun r => btypeMatch r.1 r.2.1 == r.2.2) = true := by decide +kernel
theorem edge_attr_table_agrees :
    edgeAttrTable.all (fun r => (some (edgeMatch bsUnknown ⟨r.1, r.2.2.1, r.2.2.2.2.1, 1⟩ ⟨r.2.1, r.2.2.2.1, r.2.2.2.2.2.1, 1⟩)) == r.2.2.2.2.2.2) = true := by
  decide +kernel
/-- the model's constants -/
theorem unknown_codes : elUnknown = 0 ∧ asUnknown = 0 ∧ bsUnknown = 0 := by decide

end Molli.Gen.MatchTable
"""
