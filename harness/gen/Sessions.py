"""Gen/Sessions.lean: the control skeleton of reading()/writing(), observed by injecting a fault at each step
of real sessions of a real Collection(UkvCollectionBackend), plus what a second process observes afterwards."""
import shutil
import tempfile
from pathlib import Path

from harness import sesslib
from harness.gen._util import HEADER

STEP = {"acquire": ".acquire", "begin": ".begin", "update": ".update", "body": ".body", "flush": ".flush",
        "end": ".end_", "release": ".release"}


def observe_all(scratch: Path):
    from molli.storage import Collection, UkvCollectionBackend

    probe = sesslib.Probe(scratch)
    rows = {}
    try:
        for kind in sesslib.KINDS:
            for fault in sesslib.FAULTS:
                path = scratch / f"sk_{kind}_{fault}.ukv"
                col = Collection(path, UkvCollectionBackend, readonly=False, bufsize=1_000_000)
                # a first clean session so that the file has content and the handle object exists
                sesslib.run_session(col, "writing", "none", [("seed", b"s")])
                out = sesslib.run_session(col, kind, fault, [("k1", b"v1"), ("k2", b"v2")], cut=1, reads=("seed",))
                ans = probe.ask("w", path)
                out["lock_free"] = ans.startswith("ok")
                out["probe"] = ans
                sesslib.force_cleanup(col)          # also empties the write queue (nothing left for the atexit flush hook)
                rows[(kind, fault)] = out
    finally:
        probe.stop()
    return rows


def generate() -> str:
    scratch = Path(tempfile.mkdtemp(prefix="verif-gen-sessions-"))
    try:
        import os
        old = os.environ.get("MOLLI_HOME")
        rows = observe_all(scratch)
    finally:
        shutil.rmtree(scratch, ignore_errors=True)
    def lst(tr):
        return "[" + ", ".join(STEP[s] for s in tr) + "]"
    def b(x):
        return "true" if x else "false"
    cases = "\n".join(f"  | .{k}, .{f} => {lst(rows[(k, f)]['trace'])}" for k in sesslib.KINDS for f in sesslib.FAULTS)
    lock = "\n".join(f"  | .{k}, .{f} => {b(rows[(k, f)]['lock_free'])}" for k in sesslib.KINDS for f in sesslib.FAULTS)
    closed = "\n".join(f"  | .{k}, .{f} => {b(rows[(k, f)]['closed'])}" for k in sesslib.KINDS for f in sesslib.FAULTS)
    idle = "\n".join(f"  | .{k}, .{f} => {b(rows[(k, f)]['state'] == 'idle')}" for k in sesslib.KINDS for f in sesslib.FAULTS)
    return HEADER.format(name="Sessions", src="molli/storage/backends.py: reading()/writing()") + f"""
import Molli.Model.Sessions
namespace Molli.Gen.Sessions
open Molli.Model.Sessions

/-- steps entered by a real session of the given kind when an exception is injected at the given step
(`begin` is listed once the file is open; an `atEnd` exception is raised after the file was closed) -/
def trace : Kind → Fault → List Step
{cases}

def skeleton : Skeleton := ⟨trace⟩

/-- could a second process take the write lock (2 s timeout) after the session ended? -/
def lockFreeAfter : Kind → Fault → Bool
{lock}

/-- was the backend's file handle closed after the session ended? -/
def closedAfter : Kind → Fault → Bool
{closed}

/-- was the backend back in state "idle"? -/
def idleAfter : Kind → Fault → Bool
{idle}

/-! obligations: the side conditions of the theorems of `Props.C04`, for the skeleton observed today -/
theorem skeleton_wellBracketed : skeleton.wellBracketed = true := by decide
theorem skeleton_alwaysCloses : skeleton.alwaysCloses = true := by decide
theorem skeleton_ordered : skeleton.ordered = true := by decide
theorem skeleton_writerFlushes : skeleton.writerFlushes = true := by decide
/-- side condition of `Props.C04Kill`: a writing session flushes only into a file it opened itself (so the torn tail a
killed writer left behind has been cut before anything is appended) -/
theorem skeleton_opensBeforeWrite : skeleton.opensBeforeWrite = true := by decide
theorem observed_lock_free : (allKinds.all fun k => allFaults.all fun f => lockFreeAfter k f) = true := by decide
theorem observed_closed : (allKinds.all fun k => allFaults.all fun f => closedAfter k f) = true := by decide
theorem observed_idle : (allKinds.all fun k => allFaults.all fun f => idleAfter k f) = true := by decide

end Molli.Gen.Sessions
"""
