"""Gen/Valence.lean: the tables behind `add_implicit_hydrogens` and `bonded_valence`, read from the live modules
(molli/chem/atom.py: IMPLICIT_VALENCE, VALENCE_ELECTRONS, Element.group, cov_radius_1; molli/chem/bond.py: Bond.order
per BondType; molli/math/polyhedra.py: TETRAHEDRON) and, for the two literals of the two-hydrogen branch, from the
observed behaviour of the routine on a probe molecule."""
from fractions import Fraction

from harness.gen._util import HEADER, lean_int


def rat(x) -> str:
    """exact rational of the shortest decimal repr of a float (or of an int)"""
    f = Fraction(repr(float(x))) if not isinstance(x, int) else Fraction(x)
    if f.denominator == 1:
        return f"({f.numerator} : Rat)" if f.numerator >= 0 else f"(-{-f.numerator} : Rat)"
    if f.numerator < 0:
        return f"(-{-f.numerator} / {f.denominator} : Rat)"
    return f"({f.numerator} / {f.denominator} : Rat)"


def probe_two_h_constants():
    """`c1 = a - (vec * 0.5736 + z * 0.8192) * L` observed on O(0,0,0)-C(1,0,0): vec = x̂, z = x̂ × ẑ = -ŷ"""
    import numpy as np
    from molli.chem import Atom, Bond, Structure

    # O with one single bond: 6 electrons -> 4 - 2 - 1 = 1 hydrogen; use a hint to force two
    s = Structure()
    o, c = Atom("O"), Atom("C")
    o.attrib["__implicit_hydrogens"] = 2
    s.add_atom(o, [0.0, 0.0, 0.0])
    s.add_atom(c, [1.0, 0.0, 0.0])
    s.append_bond(Bond(o, c))
    s.add_implicit_hydrogens(o)
    L = o.cov_radius_1 + Atom("H").cov_radius_1
    h = np.array(s.coords[2], dtype=float) / L
    cc, ss = round(abs(float(h[0])), 9), round(abs(float(h[1])), 9)
    return cc, ss


def generate() -> str:
    from molli.chem import Atom, Bond, BondType, Element, AtomType, AtomStereo, BondStereo
    from molli.chem import atom as atom_mod
    from molli.math.polyhedra import TETRAHEDRON

    groups = []
    radii = []
    for e in Element:
        g = e.group
        groups.append((e.value, 0 if g is None else int(g)))
        r = e.cov_radius_1
        if isinstance(r, (int, float)):
            radii.append((e.value, r))
    ve = sorted((int(k), int(v)) for k, v in atom_mod.VALENCE_ELECTRONS.items())
    iv = sorted((int(k), int(v)) for k, v in atom_mod.IMPLICIT_VALENCE.items())
    a, b = Atom("C"), Atom("C")
    orders, fractional = [], []
    for bt in BondType:
        o1 = Bond(a, b, btype=bt, f_order=0.25).order
        o2 = Bond(a, b, btype=bt, f_order=2.75).order
        if o1 != o2:
            assert (o1, o2) == (0.25, 2.75), "a bond order depends on f_order in an unexpected way"
            fractional.append(bt.value)
        else:
            orders.append((bt.value, o1))
    new_bond_order = Bond(Atom("C"), Atom("H")).order
    c2, s2 = probe_two_h_constants()
    tet = [[float(x) for x in row] for row in TETRAHEDRON]

    def pairs(lst, f):
        return "[" + ", ".join(f"({k}, {f(v)})" for k, v in lst) + "]"

    return HEADER.format(name="Valence", src="molli/chem/atom.py, molli/chem/bond.py, molli/math/polyhedra.py, molli/chem/structure.py") + f"""
import Molli.Model.Hydrogens
namespace Molli.Gen.Valence
open Molli.Model.Hydrogens

/-- `Element(z).group` (0 = None) -/
def elementGroup : List (Nat × Nat) := {pairs(groups, str)}
/-- `VALENCE_ELECTRONS` -/
def valenceElectrons : List (Nat × Int) := {pairs(ve, lean_int)}
/-- `IMPLICIT_VALENCE` -/
def implicitValence : List (Nat × Int) := {pairs(iv, lean_int)}
/-- `Element(z).cov_radius_1` (exact value of the decimal the data file holds) -/
def covRadius1 : List (Nat × Rat) := {pairs(radii, rat)}
/-- `Bond(btype=t).order` for every bond type whose order does not depend on `f_order` -/
def bondOrderTable : List (Nat × Rat) := {pairs(orders, rat)}
/-- bond types whose order is `f_order` -/
def fractionalTypes : List Nat := [{", ".join(str(x) for x in fractional)}]
/-- `Bond(a, Atom("H")).order`: the order of the bond that `add_implicit_hydrogens` appends -/
def newBondOrder : Rat := {rat(new_bond_order)}
def elUnknown : Nat := {Element.Unknown.value}
def elHydrogen : Nat := {Atom("H").element.value}
def atCoordinationCenter : Nat := {AtomType.CoordinationCenter.value}
def asUnknown : Nat := {AtomStereo.Unknown.value}
def bsUnknown : Nat := {BondStereo.Unknown.value}
def btSingle : Nat := {BondType.Single.value}

def bondOrder (btype : Nat) (forder : Rat) : Rat :=
  if fractionalTypes.contains btype then forder else (bondOrderTable.lookup btype).getD 1

def tables : Tables :=
  {{ group := fun z => (elementGroup.lookup z).getD 0
    ve := fun g => valenceElectrons.lookup g
    radius := fun z => (covRadius1.lookup z).getD 0
    hydrogen := elHydrogen
    c2 := {rat(c2)}
    s2 := {rat(s2)}
    tet := [{", ".join("⟨" + ", ".join(rat(x) for x in row) + "⟩" for row in tet)}] }}

/-! obligations: what the theorems of `Molli.Props.C16` assume of the tables -/

/-- a new hydrogen is never itself a centre (so a second call does not extend it) -/
theorem hydrogen_not_selected : selected tables (hyd tables) = false := by decide
/-- every element of groups 13–16 has a valence-electron entry (no KeyError on the default atom list) -/
theorem selected_have_valence_electrons :
    elementGroup.all (fun p => !(decide (13 ≤ p.2) && decide (p.2 < 17)) || (tables.ve p.2).isSome) = true := by decide
/-- valence electrons of groups 13–16 are group − 10 -/
theorem valence_electrons_13_16 :
    [13, 14, 15, 16].all (fun g => tables.ve g == some ((g : Int) - 10)) = true := by decide
/-- covalent radii of hydrogen and of every element of groups 13–16 are positive -/
theorem radii_positive :
    decide (0 < tables.radius tables.hydrogen) &&
    elementGroup.all (fun p => !(decide (13 ≤ p.2) && decide (p.2 < 17)) || decide (0 < tables.radius p.1)) = true := by
  decide +kernel
/-- the appended bond is a single bond of order 1 -/
theorem new_bond_order_one : newBondOrder = 1 ∧ bondOrder btSingle 0 = 1 := by decide +kernel
theorem bond_orders_nonneg : bondOrderTable.all (fun p => decide (0 ≤ p.2)) = true := by decide +kernel
/-- `TETRAHEDRON`: four rows, the first is ẑ, the others are unit vectors (to 1e-7) pointing below the xy-plane -/
theorem tetrahedron_shape :
    tables.tet.length = 4 ∧ tables.tet.head? = some ⟨0, 0, 1⟩ ∧
    (tables.tet.drop 1).all (fun t => decide (t.z < 0) &&
      decide (t.norm2 - 1 ≤ 1 / 10000000) && decide (1 - t.norm2 ≤ 1 / 10000000)) = true := by decide +kernel
/-- the two-hydrogen literals: positive, and `c² + s² = 1.0001056` -/
theorem two_h_constants :
    0 < tables.c2 ∧ 0 < tables.s2 ∧ tables.c2 * tables.c2 + tables.s2 * tables.s2 = 1250132 / 1250000 := by
  decide +kernel

end Molli.Gen.Valence
"""
