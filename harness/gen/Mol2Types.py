"""Gen/Mol2Types.lean: the atom-type / bond-type vocabulary of the mol2 codec, by exhaustive evaluation of
the live classes (molli/chem/atom.py, molli/chem/bond.py).

  emit    Atom(e, atype=t, geom=g).get_mol2_type()  for ALL len(Element) x len(AtomType) x len(AtomGeom) triples
  accept  Atom().set_mol2_type(tok) for every distinct emitted token (result state or "raised")
  bonds   MOL2_BOND_TYPE_MAP, Bond(btype=b).get_mol2_type() for every BondType

The table is stored compactly (see Molli/Model/Mol2Types.lean): a token is (element, shape) with
shape = pre + <element symbol> + post; equal rows of the emit table are stored once.  The generator
re-renders every token from that form and refuses to write a table that does not reproduce the observed
strings, so the compact form is lossless.
"""
from harness.gen._util import HEADER


def pack(s: str) -> int:
    b = s.encode("latin-1")
    if 0 in b or len(b) > 16:
        raise ValueError(f"cannot pack {s!r}")
    return int.from_bytes(b, "little")


def hx(n: int) -> str:
    return hex(n)


def observe():
    """everything the table is made of, as plain Python data (also used by the C07 harness)"""
    from molli.chem.atom import Atom, Element, AtomType, AtomGeom
    from molli.chem.bond import Bond, BondType, MOL2_BOND_TYPE_MAP

    E, T, G = list(Element), list(AtomType), list(AtomGeom)
    eidx = {e: i for i, e in enumerate(E)}
    tidx = {t: i for i, t in enumerate(T)}
    gidx = {g: i for i, g in enumerate(G)}
    syms = [e.symbol for e in E]
    names = [(k, eidx[v]) for k, v in Element.__members__.items()]

    def shape_of(tok: str, sym: str):
        i = tok.find(sym)
        # prefer the decomposition molli itself uses: symbol first, or "Du." + symbol
        if tok.startswith(sym):
            return (True, "", tok[len(sym):])
        if tok.startswith("Du." + sym):
            return (True, "Du.", tok[3 + len(sym):])
        if i >= 0:
            return (True, tok[:i], tok[i + len(sym):])
        return (False, tok, "")

    shapes: list = []
    sidx: dict = {}
    emit = {}            # (ei, ti, gi) -> token string
    cells = []           # per element: bytes of shape indices
    for ei, e in enumerate(E):
        row = bytearray()
        for ti, t in enumerate(T):
            for gi, g in enumerate(G):
                tok = Atom(e, atype=t, geom=g).get_mol2_type()
                if not isinstance(tok, str):
                    raise TypeError(f"get_mol2_type returned {tok!r}")
                emit[(ei, ti, gi)] = tok
                sh = shape_of(tok, syms[ei])
                if sh not in sidx:
                    sidx[sh] = len(shapes)
                    shapes.append(sh)
                row.append(sidx[sh])
        cells.append(bytes(row))
    if len(shapes) > 250:
        raise ValueError("too many token shapes for the compact table")
    # lossless?
    for (ei, ti, gi), tok in emit.items():
        u, pre, post = shapes[cells[ei][ti * len(G) + gi]]
        if (pre + syms[ei] + post if u else pre) != tok:
            raise ValueError("compact emit table does not reproduce the observed token")

    accept = {}          # (ei, shape) -> (status, e, t, g)
    for ei in range(len(E)):
        for sh in sorted(set(cells[ei])):
            u, pre, post = shapes[sh]
            tok = pre + syms[ei] + post if u else pre
            a = Atom()
            try:
                a.set_mol2_type(tok)
                accept[(ei, sh)] = (1, eidx[Element(a.element)], tidx[AtomType(a.atype)], gidx[AtomGeom(a.geom)])
            except Exception:
                accept[(ei, sh)] = (2, 0, 0, 0)
    d = Atom()
    dflt = (eidx[Element(d.element)], tidx[AtomType(d.atype)], gidx[AtomGeom(d.geom)])

    B = list(BondType)
    bidx = {b: i for i, b in enumerate(B)}
    bmap = [(k, bidx[BondType(v)]) for k, v in MOL2_BOND_TYPE_MAP.items()]

    class _A:  # Bond only needs two distinct endpoints
        pass
    bemit = []
    for b in B:
        bo = Bond(Atom("C"), Atom("C"), btype=b)
        bemit.append(bo.get_mol2_type())

    special = dict(
        eC=eidx[Element.C], eN=eidx[Element.N], eO=eidx[Element.O], eS=eidx[Element.S], eUnknown=eidx[Element.Unknown],
        tDummy=tidx[AtomType.Dummy], tSp=tidx[AtomType.sp], tSp2=tidx[AtomType.sp2], tSp3=tidx[AtomType.sp3],
        tAromatic=tidx[AtomType.Aromatic], tNAmmonium=tidx[AtomType.N_Ammonium], tNAmide=tidx[AtomType.N_Amide],
        tCGuanidinium=tidx[AtomType.C_Guanidinium], tOCarboxylate=tidx[AtomType.O_Carboxylate],
        tOSulfoxide=tidx[AtomType.O_Sulfoxide], tOSulfone=tidx[AtomType.O_Sulfone],
        gR1=gidx[AtomGeom.R1], gR3Planar=gidx[AtomGeom.R3_Planar], gR3Pyramidal=gidx[AtomGeom.R3_Pyramidal],
        gR4Tetrahedral=gidx[AtomGeom.R4_Tetrahedral], gR6Octahedral=gidx[AtomGeom.R6_Octahedral],
    )
    bspecial = dict(
        bUnknown=bidx[BondType.Unknown], bSingle=bidx[BondType.Single], bDouble=bidx[BondType.Double],
        bTriple=bidx[BondType.Triple], bAromatic=bidx[BondType.Aromatic], bAmide=bidx[BondType.Amide],
        bDummy=bidx[BondType.Dummy], bNotConnected=bidx[BondType.NotConnected],
    )
    return dict(E=E, T=T, G=G, B=B, syms=syms, names=names, shapes=shapes, cells=cells, emit=emit, accept=accept,
                dflt=dflt, bmap=bmap, bemit=bemit, special=special, bspecial=bspecial)


def generate() -> str:
    o = observe()
    E, T, G, B = o["E"], o["T"], o["G"], o["B"]
    shapes, cells, accept = o["shapes"], o["cells"], o["accept"]
    nS = len(shapes)
    # distinct rows
    rows, rowidx, row_of = [], {}, bytearray()
    for c in cells:
        if c not in rowidx:
            rowidx[c] = len(rows)
            rows.append(c)
        row_of.append(rowidx[c])
    if len(rows) > 255:
        raise ValueError("too many distinct rows")
    ab = bytearray(4 * len(E) * nS)
    for (ei, sh), (st, e, t, g) in accept.items():
        off = 4 * (ei * nS + sh)
        ab[off:off + 4] = bytes([st, e, t, g])
    # a witness that the first cycle is not a fixed point (recorded, not a finding)
    witness = None
    for (ei, ti, gi), tok in sorted(o["emit"].items()):
        sh = cells[ei][ti * len(G) + gi]
        st, e1, t1, g1 = accept[(ei, sh)]
        if st == 1 and o["emit"][(e1, t1, g1)] != tok:
            witness = (ei, ti, gi, tok, o["emit"][(e1, t1, g1)])
            break
    n_changed = 0
    for (ei, ti, gi), tok in o["emit"].items():
        st, e1, t1, g1 = accept[(ei, cells[ei][ti * len(G) + gi])]
        if st == 1 and o["emit"][(e1, t1, g1)] != tok:
            n_changed += 1

    L = []
    L.append(HEADER.format(name="Mol2Types", src="molli/chem/atom.py, molli/chem/bond.py"))
    L.append("import Molli.Model.Mol2Types\nnamespace Molli.Gen.Mol2Types\nopen Molli.Model.Mol2Types\n")
    L.append(f"/-- {len(E)} x {len(T)} x {len(G)} = {len(E) * len(T) * len(G)} atom states, "
             f"{len(accept)} distinct tokens, {nS} token shapes, {len(rows)} distinct rows -/")
    L.append("def table : TypeTable where")
    L.append(f"  nE := {len(E)}\n  nT := {len(T)}\n  nG := {len(G)}\n  nShape := {nS}")
    L.append("  names := [" + ", ".join(f"({hx(pack(k))}, {i})" for k, i in o["names"]) + "]")
    L.append("  syms := [" + ", ".join(hx(pack(s)) for s in o["syms"]) + "]")
    L.append("  shapes := [" + ", ".join(f"⟨{'true' if u else 'false'}, {hx(pack(pre))}, {hx(pack(post))}⟩"
                                         for u, pre, post in shapes) + "]")
    L.append(f"  rowOf := {hx(int.from_bytes(bytes(row_of), 'little'))}")
    L.append("  rows := [" + ",\n    ".join(hx(int.from_bytes(r, "little")) for r in rows) + "]")
    L.append(f"  acceptBlob := {hx(int.from_bytes(bytes(ab), 'little'))}")
    L.append(f"  dflt := ⟨{o['dflt'][0]}, {o['dflt'][1]}, {o['dflt'][2]}⟩")
    L.append("  sp := { " + ", ".join(f"{k} := {v}" for k, v in o["special"].items()) + " }")
    L.append("")
    L.append("/-- token shapes, for the reader: " + "; ".join(
        f"{i}: {pre!r}+sym+{post!r}" if u else f"{i}: literal {pre!r}" for i, (u, pre, post) in enumerate(shapes)) + " -/")
    L.append("def shapeCount : Nat := table.shapes.length")
    L.append("/-- enum member names in table order -/")
    L.append("def atomTypeNames : List String := [" + ", ".join(f'"{t.name}"' for t in T) + "]")
    L.append("def atomGeomNames : List String := [" + ", ".join(f'"{g.name}"' for g in G) + "]")
    L.append("def bondTypeNames : List String := [" + ", ".join(f'"{b.name}"' for b in B) + "]")
    L.append("")
    L.append("def bonds : BondTable where")
    L.append(f"  nB := {len(B)}")
    L.append("  map := [" + ", ".join(f"({hx(pack(k))}, {i})" for k, i in o["bmap"]) + "]")
    L.append("  emit := [" + ", ".join(hx(pack(s)) for s in o["bemit"]) + "]")
    L.append("  sp := { " + ", ".join(f"{k} := {v}" for k, v in o["bspecial"].items()) + " }")
    L.append("")
    L.append("/-! obligations (the quantifier is the finite table: all "
             f"{len(E) * len(T) * len(G)} atom states, all {len(B)} bond types) -/")
    L.append("theorem shapes_length : table.shapes.length = table.nShape ∧ table.syms.length = table.nE := by decide")
    L.append("theorem every_emitted_token_accepted : table.everyAccepted = true := by decide +kernel")
    L.append("theorem element_preserved : table.elementPreserved = true := by decide +kernel")
    L.append("theorem second_cycle_fixed : table.secondCycleFixed = true := by decide +kernel")
    L.append("theorem set_model_agrees : table.setModelAgrees = true := by decide +kernel")
    L.append("theorem tokens_wellformed : table.tokensOk = true ∧ table.symsOk = true ∧ bonds.tokensOk = true := by decide +kernel")
    L.append("/-- `Element.get(e.symbol) = e` for every element (the xyz reader looks symbols up this way) -/")
    L.append("theorem symbol_roundtrip : table.symbolRoundtrip = true := by decide +kernel")
    if witness is not None:
        ei, ti, gi, t0, t1 = witness
        L.append(f"/-- the FIRST cycle may normalise the token: ({E[ei].name}, {T[ti].name}, {G[gi].name}) writes "
                 f"`{t0}`, which reads back as a state that writes `{t1}` ({n_changed} of the "
                 f"{len(o['emit'])} states change once). Recorded, not a finding: the property claims the second cycle. -/")
        L.append(f"def cycleWitness : St := ⟨{ei}, {ti}, {gi}⟩")
        L.append("theorem first_cycle_not_fixed_counterexample : table.firstCycleChanges cycleWitness = true := by decide +kernel")
    L.append("theorem bond_token_accepted : bonds.tokenAccepted = true := by decide +kernel")
    L.append("theorem expressible_bond_type_preserved : bonds.expressiblePreserved = true := by decide +kernel")
    L.append("theorem bond_second_cycle_fixed : bonds.bondCycleFixed = true := by decide +kernel")
    L.append("theorem bond_token_prefix_free : bonds.prefixFree = true := by decide +kernel")
    L.append("\nend Molli.Gen.Mol2Types\n")
    return "\n".join(L)
