"""Gen/CdxmlConsts.lean: the enum values and the finite tables the CDXML model (Molli.Model.Cdxml) relies on, read
from the live modules: Element.Unknown / C / largest member, AtomType.{Regular, CoordinationCenter, AttachmentPoint},
BondType members, and the element / atom type of a node without attributes (`_parse_atom_node`).  The finite
behaviour of `_parse_bond` (Order x Display) and of the Radical / NodeType cases is tied by the synthetic-drawing part
of the correspondence run (strings do not reduce in the kernel, so it is not a `decide` obligation)."""
import warnings
import xml.etree.ElementTree as ET

from harness.gen._util import HEADER


def generate() -> str:
    import molli as ml
    from molli.ftypes.cdxml import CDXMLFile

    E, AT, BT = ml.Element, ml.AtomType, ml.BondType
    zmax = max(int(e) for e in E)
    members = sorted(int(b) for b in BT)
    obj = object.__new__(CDXMLFile)
    with warnings.catch_warnings():
        warnings.simplefilter("ignore")
        dflt = obj._parse_atom_node(ET.Element("n", {"id": "1"}))
    return HEADER.format(name="CdxmlConsts", src="molli/chem/atom.py, molli/chem/bond.py, molli/ftypes/cdxml.py") + f"""
import Molli.Model.Cdxml
namespace Molli.Gen.CdxmlConsts
open Molli.Model.Cdxml

def elementUnknown : Nat := {int(E.Unknown)}
def elementC : Nat := {int(E.C)}
def elementMax : Nat := {zmax}
/-- every integer 0..elementMax is a member of `Element` -/
def elementContiguous : Bool := {"true" if sorted(int(e) for e in E) == list(range(zmax + 1)) else "false"}
def defaultNodeElement : Nat := {int(dflt.element)}
def defaultNodeAtomType : Nat := {int(dflt.atype)}
def atomTypeRegular : Nat := {int(AT.Regular)}
def atomTypeCoordinationCenter : Nat := {int(AT.CoordinationCenter)}
def atomTypeAttachmentPoint : Nat := {int(AT.AttachmentPoint)}
def bondTypeSingle : Nat := {int(BT.Single)}
def bondTypeAromatic : Nat := {int(BT.Aromatic)}
def bondTypeLigand : Nat := {int(BT.Ligand)}
def bondTypeMembers : List Nat := {members}

/-! obligations: the constants and finite tables the model uses are those of the code -/
theorem element_consts : elementUnknown = zUnknown ∧ elementC = zCarbon ∧ elementMax = zMax ∧
    elementContiguous = true ∧ defaultNodeElement = zCarbon ∧ defaultNodeAtomType = atRegular := by decide
theorem atom_type_consts : atomTypeRegular = atRegular ∧ atomTypeCoordinationCenter = atCoordinationCenter ∧
    atomTypeAttachmentPoint = atAttachmentPoint := by decide
theorem bond_type_consts : bondTypeSingle = btSingle ∧ bondTypeAromatic = btAromatic ∧ bondTypeLigand = btLigand ∧
    bondTypeMembers = bondTypeValues := by decide

end Molli.Gen.CdxmlConsts
"""
