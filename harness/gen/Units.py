"""Gen/Units.lean: the members (aliases included) and values of molli.chem.geometry.DistanceUnit as exact
decimals (the shortest decimal that denotes the float, i.e. what the source says)."""
from fractions import Fraction

from harness.gen._util import HEADER, lean_str


def observe():
    from molli.chem.geometry import DistanceUnit

    out = []
    for name, member in DistanceUnit.__members__.items():
        v = member.value
        if not isinstance(v, (int, float)):
            raise TypeError(f"DistanceUnit.{name} has value {v!r}")
        fr = Fraction(repr(float(v)))
        out.append((name, fr.numerator, fr.denominator, float(v)))
    return out


def generate() -> str:
    ent = observe()
    body = ",\n    ".join(f"⟨{lean_str(n)}, {p}, {q}⟩" for n, p, q, _ in ent)
    return HEADER.format(name="Units", src="molli/chem/geometry.py: DistanceUnit") + f"""
import Molli.Model.Xyz
namespace Molli.Gen.Units
open Molli.Model.Xyz

/-- `DistanceUnit.__members__`: name, value as `num/den` -/
def units : List UnitEntry :=
   [{body}]

/-! obligations: every member is a non-zero, known unit whose table value is the number of such units in one
Ångström (so that dividing by it converts to Ångström), to 1e-4 -/
theorem units_ok : unitsOk units = true := by decide
theorem units_nonempty : units ≠ [] := by decide

end Molli.Gen.Units
"""
