"""Gen/Dispatch.lean: the OBSERVED action of ml.load/loads/load_all/loads_all/dump/dumps on every cell of the
configuration matrix (6 x 4 x 3 x 3 x 2 x 6 path forms = 2592 cells), recorded by spying on the class-level codec methods of the
live repository, plus the observed class-level failures the specification is relative to."""
import shutil
import tempfile
import warnings
from pathlib import Path

from harness import c09lib as L
from harness.gen._util import HEADER

_last = {}   # the raw observation of the last generate() (used by harness/c09.py to name the failing cell)


def lean_bool(b) -> str:
    return "true" if b else "false"


def lean_reach(r: str) -> str:
    if r in ("none", "many"):
        return "." + r
    _, on, op, codec = r.split(":")
    return f"(.meth .{on} .{op} .{codec})"


def lean_result(r: str) -> str:
    p = r.split(":")
    if p[0] in ("notCalled", "propagated"):
        return "." + p[0]
    if p[0] == "raised":
        return f"(.raised .{p[1]})"
    if p[1] in ("obj", "list"):
        return f"(.returned (.{p[1]} .{p[2]}))"
    return f"(.returned .{p[1]})"


def lean_action(a: dict) -> str:
    if not a["applicable"]:
        return "Action.na"
    return ("⟨true, %s, %s, %s, %s, %s, .%s, %s⟩" % (
        lean_reach(a["reached"]), lean_bool(a["nameFwd"]), lean_bool(a["argOk"]), lean_result(a["result"]),
        lean_bool(a["named"]), a["wrote"], lean_bool(a["streamOk"])))


def observe_all():
    """-> (actions by cell, class_raises dict, sample tag)"""
    work = Path(tempfile.mkdtemp(prefix="verif-C09-gen-"))
    try:
        with warnings.catch_warnings():
            warnings.simplefilter("ignore")
            sample = L.default_sample(work)
            cr = L.class_raises_table(sample)
            # class-level CDXML route: CDXMLFile(path)._parse_fragment
            for o in L.OTYPES:
                for e in ("load", "load_all"):
                    _, ex = L.class_call((e, "cdxml", "path", o, "notgiven", "explicitMatching"), sample)
                    cr[(o, e, "cdxml")] = ex is not None
            actions = {}
            with L.Spy() as spy:
                for c in L.all_cells():
                    actions[c] = L.observe(spy, c, sample)
        return actions, cr, sample.tag
    finally:
        shutil.rmtree(work, ignore_errors=True)


def cr_triples(cr: dict):
    return sorted((o, e, f) for (o, e, f), v in cr.items() if v)


def generate() -> str:
    actions, cr, tag = observe_all()
    _last.clear()
    _last.update({"actions": actions, "cr": cr, "tag": tag})
    rows = []
    for c in L.all_cells():
        assert L.cell_index(c) == len(rows)
        rows.append(f"  {lean_action(actions[c])}{',' if len(rows) < 2591 else ''} -- {len(rows)}: {L.cell_str(c)}")
    triples = ", ".join(f"(.{L.LEAN_OTYPE[o]}, .{L.LEAN_ENTRY[e]}, .{f})" for o, e, f in cr_triples(cr))
    return HEADER.format(name="Dispatch", src="molli/reader.py, molli/writer.py and the class-level codecs") + f"""
import Molli.Model.Dispatch
namespace Molli.Gen.Dispatch
open Molli.Model.Dispatch

/-- probe input: {tag}; unsupported format string: {L.UNSUPPORTED_TABLE_FMT!r}; name override: {L.GIVEN_NAME!r} -/
def probe : String := "{tag}"

/-- class-level codecs that raise BY THEMSELVES on the probe input (observed by calling them directly; these
belong to other properties, the dispatch only has to let the exception through) -/
def classRaisesList : List (OType × Entry × Fmt) := [{triples}]

def classRaises : ClassRaises := fun o e f => classRaisesList.any (fun t => decide (t = (o, e, f)))

/-- observed action per cell, row `Cell.idx` -/
def table : List Action := [
{chr(10).join(rows)}
]

def observed (c : Cell) : Action := table.getD c.idx Action.missing

/-! obligations -/
theorem table_complete : table.length = 2592 := by decide +kernel

/-- the whole matrix in ONE pass: row by row next to the enumeration `allCells` of the matrix, the observed action is
the specified action (lifted to `∀ c, observed c = spec classRaises c` by `Lemmas.Dispatch.lookup_of_zip_all`) -/
theorem table_agrees :
    (table.zip allCells).all (fun p => decide (p.1 = spec classRaises p.2)) = true := by decide +kernel

end Molli.Gen.Dispatch
"""
