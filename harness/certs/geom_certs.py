"""
Certificate generator for lean/Molli/Lemmas/GeomCert.lean  (run by hand:  python3-vt harness/certs/geom_certs.py).

NOT part of a check run and NOT trusted: it computes, with sympy, the cofactors that express each
polynomial identity `lhs - rhs` as a combination of the hypotheses (`reduced(...)`), and writes
them into `linear_combination` calls; the Lean kernel re-checks every one of them.

Hypotheses with a division are avoided by naming the inverse: `k` with `hk : k * (1 + a·b) = 1`.
A goal polynomial P(vars, k) of degree m in k is certified by
    Q := sum_j P_j * D^(m-j)           (P = sum_j P_j k^j,  D = 1 + a·b;   Q ≡ D^m P  mod hk)
    Q  = sum_i q_i * g_i               (sympy `reduced`; the g_i have coprime leading terms)
    P  = sum_i (k^m q_i) * g_i + q_k * hk      with q_k := (P - sum_i k^m q_i g_i) / hk  (exact division)
"""
import sys
from sympy import symbols, reduced, expand, Poly, div, Integer

OUT = []


def L(e):
    return str(e).replace("**", "^")


# ---------------------------------------------------------------------------------------------
# mirror of Molli.Model.Geom in sympy
# ---------------------------------------------------------------------------------------------
class V:
    def __init__(s, x, y, z): s.x, s.y, s.z = x, y, z
    def add(a, b): return V(a.x + b.x, a.y + b.y, a.z + b.z)
    def sub(a, b): return V(a.x - b.x, a.y - b.y, a.z - b.z)
    def neg(a): return V(-a.x, -a.y, -a.z)
    def smul(a, k): return V(k * a.x, k * a.y, k * a.z)
    def dot(a, b): return a.x * b.x + a.y * b.y + a.z * b.z
    def cross(a, b): return V(a.y * b.z - a.z * b.y, a.z * b.x - a.x * b.z, a.x * b.y - a.y * b.x)
    def mulM(v, m):
        return V(v.x * m.r1.x + v.y * m.r2.x + v.z * m.r3.x,
                 v.x * m.r1.y + v.y * m.r2.y + v.z * m.r3.y,
                 v.x * m.r1.z + v.y * m.r2.z + v.z * m.r3.z)
    def comps(s): return [s.x, s.y, s.z]


class M:
    def __init__(s, r1, r2, r3): s.r1, s.r2, s.r3 = r1, r2, r3
    def add(a, b): return M(a.r1.add(b.r1), a.r2.add(b.r2), a.r3.add(b.r3))
    def sub(a, b): return M(a.r1.sub(b.r1), a.r2.sub(b.r2), a.r3.sub(b.r3))
    def scale(a, k): return M(a.r1.smul(k), a.r2.smul(k), a.r3.smul(k))
    def mul(a, b): return M(a.r1.mulM(b), a.r2.mulM(b), a.r3.mulM(b))
    def mulV(m, v): return V(m.r1.dot(v), m.r2.dot(v), m.r3.dot(v))
    def transpose(m):
        return M(V(m.r1.x, m.r2.x, m.r3.x), V(m.r1.y, m.r2.y, m.r3.y), V(m.r1.z, m.r2.z, m.r3.z))
    def det(m): return m.r1.dot(m.r2.cross(m.r3))
    def comps(s): return s.r1.comps() + s.r2.comps() + s.r3.comps()


ONE = M(V(1, 0, 0), V(0, 1, 0), V(0, 0, 1))


def outer(a, b): return M(b.smul(a.x), b.smul(a.y), b.smul(a.z))


def rotAxis(u, s, c):
    w = M(V(0, -u.z, u.y), V(u.z, 0, -u.x), V(-u.y, u.x, 0))
    return ONE.add(w.scale(s)).add(w.mul(w).scale(1 - c))


def rotVecK(a, b, k):
    ux = outer(a, b).sub(outer(b, a))
    return ONE.add(ux).add(ux.mul(ux).scale(k))


def dihedralPair(p1, p2, p3, p4, l):
    u1, u2, u3 = p2.sub(p1), p3.sub(p2), p4.sub(p3)
    return (l * u1.dot(u2.cross(u3)), u1.cross(u2).dot(u2.cross(u3)))


def rotateAbout(o, r, p): return p.sub(o).mulM(r).add(o)


# ---------------------------------------------------------------------------------------------
# certificates
# ---------------------------------------------------------------------------------------------
def cert(P, gens, names, vars_, order="grevlex"):
    """P = sum q_i gens_i ; returns the linear_combination text (or 'ring' when P == 0)"""
    P = expand(P)
    if P == 0:
        return "ring"
    q, r = reduced(P, gens, *vars_, order=order)
    assert r == 0, ("remainder", r)
    assert expand(P - sum(qi * gi for qi, gi in zip(q, gens))) == 0
    terms = [f"({L(qi)}) * {n}" for qi, n in zip(q, names) if qi != 0]
    return "linear_combination " + " + ".join(terms)


def cert_k(P, k, D, gens, names, kname, vars_, order="grevlex"):
    """certificate in presence of hk : k*D = 1 (see module docstring)"""
    P = expand(P)
    if P == 0:
        return "ring"
    pk = Poly(P, k)
    m = pk.degree()
    coeffs = pk.all_coeffs()[::-1]  # P_j for k^j
    Q = expand(sum(cj * D ** (m - j) for j, cj in enumerate(coeffs)))
    if Q == 0:
        q = [Integer(0)] * len(gens)
    else:
        q, r = reduced(Q, gens, *vars_, order=order)
        assert r == 0, ("remainder", r)
    rest = expand(P - sum(k ** m * qi * gi for qi, gi in zip(q, gens)))
    hk = expand(k * D - 1)
    if rest == 0:
        qk = Integer(0)
    else:
        qk, rem = div(Poly(rest, *vars_, k), Poly(hk, *vars_, k))
        assert rem.is_zero, ("hk remainder", rem)
        qk = qk.as_expr()
    assert expand(P - sum(k ** m * qi * gi for qi, gi in zip(q, gens)) - qk * hk) == 0
    terms = [f"({L(expand(k ** m * qi))}) * {n}" for qi, n in zip(q, names) if qi != 0]
    if qk != 0:
        terms.append(f"({L(qk)}) * {kname}")
    return "linear_combination " + " + ".join(terms)


def emit(s=""):
    OUT.append(s)


HEADER = '''/-
GENERATED by harness/certs/geom_certs.py (sympy) — do not edit by hand; regenerate instead.

Polynomial identities behind C11/C12, each closed by `linear_combination` with cofactors computed
by sympy's `reduced`.  The cofactors are NOT trusted: `linear_combination` makes the kernel check
`lhs - rhs - Σ qᵢ·(hᵢ.lhs - hᵢ.rhs) = 0` by `ring`.
Statements are component-wise (scalars only) so that the proofs are independent of how the
structures are unfolded; `Molli.Lemmas.Geom` repackages them for `V3`/`M3`.
-/
import Mathlib.Tactic.Ring
import Mathlib.Tactic.LinearCombination
import Molli.Model.Geom
namespace Molli.Lemmas.GeomCert
open Molli.Model.Geom

set_option linter.unusedVariables false
set_option linter.unusedSimpArgs false
'''


def lemma(name, binders, hyps, lhs_lean, rhs_lean, proof):
    """hyps: list of (name, text)"""
    hs = " ".join(f"({n} : {t})" for n, t in hyps)
    emit(f"theorem {name} {{α : Type}} [CommRing α] ({binders} : α) {hs} :\n    {lhs_lean} = {rhs_lean} := by\n  {proof}\n")


def main():
    emit(HEADER)
    ux, uy, uz, s, c = symbols("ux uy uz s c")
    v1, v2, v3, w1, w2, w3 = symbols("v1 v2 v3 w1 w2 w3")
    u = V(ux, uy, uz)
    hu = ux * ux + uy * uy + uz * uz - 1
    ht = s * s + c * c - 1
    HU = ("hu", "ux*ux + uy*uy + uz*uz = 1")
    HT = ("ht", "s*s + c*c = 1")
    R = rotAxis(u, s, c)
    ents = ["r1.x", "r1.y", "r1.z", "r2.x", "r2.y", "r2.z", "r3.x", "r3.y", "r3.z"]
    unfoldA = "simp only [rotAxis, M3.one, M3.add, M3.scale, M3.mul, M3.transpose, M3.det, M3.mulV, V3.add, V3.smul, V3.mulM, V3.dot, V3.cross]"
    RA = "(rotAxis ⟨ux, uy, uz⟩ s c)"
    # --- rotAxis orthogonality: (R Rᵀ) entries
    RRt = R.mul(R.transpose())
    for e, val, one in zip(ents, RRt.comps(), ONE.comps()):
        nm = "rotAxis_orth_" + e.replace(".", "")
        pr = cert(val - one, [hu, ht], ["hu", "ht"], (ux, uy, uz, s, c))
        lemma(nm, "ux uy uz s c", [HU, HT], f"({RA}.mul {RA}.transpose).{e}", str(one), unfoldA + "\n  " + pr)
    # --- det
    pr = cert(R.det() - 1, [hu, ht], ["hu", "ht"], (ux, uy, uz, s, c))
    lemma("rotAxis_det", "ux uy uz s c", [HU, HT], f"{RA}.det", "1", unfoldA + "\n  " + pr)
    # --- axis fixed, row and column application (needs only hu)
    for nm, vec in (("row", u.mulM(R)), ("col", R.mulV(u))):
        for comp, val, uu in zip("xyz", vec.comps(), u.comps()):
            pr = cert(val - uu, [hu], ["hu"], (ux, uy, uz, s, c))
            lhs = f"((⟨ux, uy, uz⟩ : V3 α).mulM {RA}).{comp}" if nm == "row" else f"({RA}.mulV ⟨ux, uy, uz⟩).{comp}"
            lemma(f"rotAxis_fixes_{nm}_{comp}", "ux uy uz s c", [HU], lhs, "u" + comp, unfoldA + "\n  " + pr)
    # --- angle: for v ⊥ u, (R v)·v = c |v|², u·(v × R v) = s |v|²      (column application = the matrix itself)
    v = V(v1, v2, v3)
    hv = ux * v1 + uy * v2 + uz * v3
    HV = ("hv", "ux*v1 + uy*v2 + uz*v3 = 0")
    Rv = R.mulV(v)
    vars_ = (v3, v2, v1, ux, uy, uz, s, c)
    pr = cert(Rv.dot(v) - c * v.dot(v), [hu, ht, hv], ["hu", "ht", "hv"], vars_, order="lex")
    lemma("rotAxis_angle_cos", "ux uy uz s c v1 v2 v3", [HU, HT, HV],
          f"({RA}.mulV ⟨v1, v2, v3⟩).dot ⟨v1, v2, v3⟩", "c * (V3.dot ⟨v1, v2, v3⟩ ⟨v1, v2, v3⟩ : α)", unfoldA + "\n  " + pr)
    pr = cert(u.dot(v.cross(Rv)) - s * v.dot(v), [hu, ht, hv], ["hu", "ht", "hv"], vars_, order="lex")
    lemma("rotAxis_angle_sin", "ux uy uz s c v1 v2 v3", [HU, HT, HV],
          f"(V3.dot ⟨ux, uy, uz⟩ (V3.cross ⟨v1, v2, v3⟩ ({RA}.mulV ⟨v1, v2, v3⟩)) : α)",
          "s * (V3.dot ⟨v1, v2, v3⟩ ⟨v1, v2, v3⟩ : α)", unfoldA + "\n  " + pr)
    # row application turns the other way:  u·(v × vR) = -s |v|²
    vR = v.mulM(R)
    pr = cert(vR.dot(v) - c * v.dot(v), [hu, ht, hv], ["hu", "ht", "hv"], vars_, order="lex")
    lemma("rotAxis_row_angle_cos", "ux uy uz s c v1 v2 v3", [HU, HT, HV],
          f"((⟨v1, v2, v3⟩ : V3 α).mulM {RA}).dot ⟨v1, v2, v3⟩", "c * (V3.dot ⟨v1, v2, v3⟩ ⟨v1, v2, v3⟩ : α)", unfoldA + "\n  " + pr)
    pr = cert(u.dot(v.cross(vR)) + s * v.dot(v), [hu, ht, hv], ["hu", "ht", "hv"], vars_, order="lex")
    lemma("rotAxis_row_angle_sin", "ux uy uz s c v1 v2 v3", [HU, HT, HV],
          f"(V3.dot ⟨ux, uy, uz⟩ (V3.cross ⟨v1, v2, v3⟩ ((⟨v1, v2, v3⟩ : V3 α).mulM {RA})) : α)",
          "-(s * (V3.dot ⟨v1, v2, v3⟩ ⟨v1, v2, v3⟩ : α))", unfoldA + "\n  " + pr)

    # ------------------------------------------------------------------ rotVecK
    a1, a2, a3, b1, b2, b3, k = symbols("a1 a2 a3 b1 b2 b3 k")
    a, b = V(a1, a2, a3), V(b1, b2, b3)
    ha = a.dot(a) - 1
    hb = b.dot(b) - 1
    D = 1 + a.dot(b)
    HA = ("ha", "a1*a1 + a2*a2 + a3*a3 = 1")
    HB = ("hb", "b1*b1 + b2*b2 + b3*b3 = 1")
    HK = ("hk", "k * (1 + (a1*b1 + a2*b2 + a3*b3)) = 1")
    RV = rotVecK(a, b, k)
    RVL = "(rotVecK ⟨a1, a2, a3⟩ ⟨b1, b2, b3⟩ k)"
    unfoldV = "simp only [rotVecK, outer, M3.one, M3.add, M3.sub, M3.scale, M3.mul, M3.transpose, M3.det, M3.mulV, V3.add, V3.sub, V3.smul, V3.mulM, V3.dot, V3.cross]"
    vv = (a1, a2, a3, b1, b2, b3)
    # closed form:  R = I + 2 a bᵀ − k (a+b)(a+b)ᵀ
    sv = a.add(b)
    closed = ONE.add(outer(a, b).scale(2)).sub(outer(sv, sv).scale(k))
    for e, val, cl in zip(ents, RV.comps(), closed.comps()):
        pr = cert_k(val - cl, k, D, [ha, hb], ["ha", "hb"], "hk", vv)
        lemma("rotVecK_closed_" + e.replace(".", ""), "a1 a2 a3 b1 b2 b3 k", [HA, HB, HK], f"{RVL}.{e}", L(cl), unfoldV + "\n  " + pr)
    # orthogonality, det, maps — proved on the closed form to keep the certificates small; the
    # literal form is rewritten entry by entry with the lemmas above (done in Lemmas/Geom.lean).
    CL = "(M3.mk ⟨" + "⟩ ⟨".join(", ".join(L(x) for x in row.comps()) for row in (closed.r1, closed.r2, closed.r3)) + "⟩ : M3 α)"
    emit(f"/-- closed form of the general branch: `I + 2 a bᵀ − k (a+b)(a+b)ᵀ` -/\ndef rotVecClosed {{α : Type}} [CommRing α] (a1 a2 a3 b1 b2 b3 k : α) : M3 α :=\n  {CL}\n")
    CLL = "(rotVecClosed a1 a2 a3 b1 b2 b3 k)"
    unfoldC = "simp only [rotVecClosed, M3.mul, M3.transpose, M3.det, M3.mulV, V3.mulM, V3.dot, V3.cross]"
    CRt = closed.mul(closed.transpose())
    for e, val, one in zip(ents, CRt.comps(), ONE.comps()):
        pr = cert_k(val - one, k, D, [ha, hb], ["ha", "hb"], "hk", vv)
        lemma("rotVecClosed_orth_" + e.replace(".", ""), "a1 a2 a3 b1 b2 b3 k", [HA, HB, HK], f"({CLL}.mul {CLL}.transpose).{e}", str(one), unfoldC + "\n  " + pr)
    pr = cert_k(closed.det() - 1, k, D, [ha, hb], ["ha", "hb"], "hk", vv)
    lemma("rotVecClosed_det", "a1 a2 a3 b1 b2 b3 k", [HA, HB, HK], f"{CLL}.det", "1", unfoldC + "\n  " + pr)
    for comp, val, bb in zip("xyz", a.mulM(closed).comps(), b.comps()):
        pr = cert_k(val - bb, k, D, [ha, hb], ["ha", "hb"], "hk", vv)
        lemma("rotVecClosed_maps_" + comp, "a1 a2 a3 b1 b2 b3 k", [HA, HB, HK], f"((⟨a1, a2, a3⟩ : V3 α).mulM {CLL}).{comp}", str(bb), unfoldC + "\n  " + pr)

    # ------------------------------------------------------------------ dihedral after a rotation about the central bond
    p1x, p1y, p1z, p2x, p2y, p2z, qx, qy, qz, l = symbols("p1x p1y p1z p2x p2y p2z qx qy qz l")
    p1, p2 = V(p1x, p1y, p1z), V(p2x, p2y, p2z)
    p3 = p2.add(u.smul(l))
    p4 = V(qx, qy, qz)
    A, B = dihedralPair(p1, p2, p3, p4, l)
    Rr = rotAxis(u, s, c)
    p3n = rotateAbout(p2, Rr, p3)
    p4n = rotateAbout(p2, Rr, p4)
    A2, B2 = dihedralPair(p1, p2, p3n, p4n, l)
    vs = (p1x, p1y, p1z, p2x, p2y, p2z, qx, qy, qz, l, ux, uy, uz, s, c)
    unfoldD = "simp only [dihedralPair, rotateAbout, rotAxis, M3.one, M3.add, M3.scale, M3.mul, V3.add, V3.sub, V3.smul, V3.mulM, V3.dot, V3.cross]"
    P1, P2, P3, P4 = "(⟨p1x, p1y, p1z⟩ : V3 α)", "(⟨p2x, p2y, p2z⟩ : V3 α)", "(V3.add ⟨p2x, p2y, p2z⟩ (V3.smul l ⟨ux, uy, uz⟩) : V3 α)", "(⟨qx, qy, qz⟩ : V3 α)"
    RAB = f"(rotateAbout {P2} {RA})"
    binders = "p1x p1y p1z p2x p2y p2z qx qy qz l ux uy uz s c"
    # p3 is on the axis: it does not move
    for comp, val, old in zip("xyz", p3n.comps(), p3.comps()):
        pr = cert(val - old, [hu], ["hu"], vs)
        lemma("rotateAbout_axis_point_" + comp, binders, [HU], f"({RAB} {P3}).{comp}", f"{P3}.{comp}", unfoldD + "\n  " + pr)
    # row-vector application turns the dihedral by MINUS the angle:  (A', B') = (A c − B s, B c + A s)
    pr = cert(A2 - (A * c - B * s), [hu, ht], ["hu", "ht"], vs)
    lemma("dihedral_after_rotation_sin", binders, [HU, HT],
          f"(dihedralPair {P1} {P2} ({RAB} {P3}) ({RAB} {P4}) l).1",
          f"(dihedralPair {P1} {P2} {P3} {P4} l).1 * c - (dihedralPair {P1} {P2} {P3} {P4} l).2 * s", unfoldD + "\n  " + pr)
    pr = cert(B2 - (B * c + A * s), [hu, ht], ["hu", "ht"], vs)
    lemma("dihedral_after_rotation_cos", binders, [HU, HT],
          f"(dihedralPair {P1} {P2} ({RAB} {P3}) ({RAB} {P4}) l).2",
          f"(dihedralPair {P1} {P2} {P3} {P4} l).2 * c + (dihedralPair {P1} {P2} {P3} {P4} l).1 * s", unfoldD + "\n  " + pr)
    emit("end Molli.Lemmas.GeomCert")
    path = sys.argv[1] if len(sys.argv) > 1 else None
    text = "\n".join(OUT) + "\n"
    if path:
        open(path, "w").write(text)
    else:
        print(text)


if __name__ == "__main__":
    main()
