"""
Child process of the C18 check: replays one history of `jobmap` runs on the real code and prints what happened.

usage:  python c18_child.py <scenario.json> <workdir>        (PYTHONPATH = repository under test, MOLLI_HOME in scratch)

The job is a `@Job(...).prep/.post` task of a driver derived from the real DriverBase.  It has one command per entry
of the job's plan (`PLAN;PLAN;…`): `sh -c` scripts; command 0 bumps a counter file (one per job name, outside the scratch
directory), every command reads its own plan from the plan file and behaves accordingly.  The result is a returned
file (`return_files=("r.txt",)`) or, for the shapes `stdout-none` / `stdout-empty` (`return_files` None / ()), what a
command printed; `envars` None / {} / set, `files` None / {} / an xyz file:
    S      write the return file, exit 0            F<c>   exit c
    W<c>   write the return file, then exit c       N<n>,<c>  like S from the n-th attempt on, exit c before
    K<s>   write the return file, then die by signal s (kill -s $$)
    U<n>,<c>  like S before the n-th attempt, exit c from it on
    O      exit 0 without writing the return file
The returned file holds `<job>:<tag>:<attempt>`; post-processing stores `<tag>|<payloads>` in the result's attrib.
"""
import json
import os
import shlex
import sys
import traceback
from pathlib import Path


def main():
    scen = json.loads(Path(sys.argv[1]).read_text())
    work = Path(sys.argv[2]).resolve()
    work.mkdir(parents=True, exist_ok=True)
    import logging

    import msgpack

    import molli as ml
    from molli.pipeline.driver import DriverBase
    from molli.pipeline.job import Job, JobInput, JobOutput, jobmap

    logging.disable(logging.CRITICAL)
    counters, plans = work / "counters", work / "plans"
    counters.mkdir(exist_ok=True), plans.mkdir(exist_ok=True)

    shape = scen.get("shape", "file")          # where the result comes from: a returned file, or stdout (no file requested)
    from_file = shape == "file"
    RF = {"file": ("r.txt",), "stdout-none": None, "stdout-empty": ()}[shape]
    ENV = {"none": None, "empty": {}, "some": {"C18_X": "1"}}[scen.get("envars", "none")]
    FILES = scen.get("files", "xyz")

    def ncmds(job):
        return len(scen["plans"].get(job, "S").split(";"))

    def script(job, tag, i):
        """command number i of the job: command 0 bumps the job's counter; every command follows its own plan"""
        c, p = shlex.quote(str(counters / job)), shlex.quote(str(plans / job))
        text = f"printf '%s' {shlex.quote(job + ':' + tag + ':')}$n"
        pay = f"{text} > r.txt" if from_file else text
        bump = f"n=$(cat {c} 2>/dev/null || echo 0); n=$((n+1)); echo $n > {c}" if i == 0 else f"n=$(cat {c})"
        return (f"{bump}; plans=$(cat {p} 2>/dev/null || echo S); plan=$(printf '%s' \"$plans\" | cut -d';' -f{i + 1}); "
                f"case $plan in S) {pay}; exit 0;; F*) exit ${{plan#F}};; W*) {pay}; exit ${{plan#W}};; K*) {pay}; ulimit -c 0; kill -${{plan#K}} $$; sleep 5;; "
                f"N*) a=${{plan#N}}; if [ $n -ge ${{a%,*}} ]; then {pay}; exit 0; else exit ${{a#*,}}; fi;; "
                f"U*) a=${{plan#U}}; if [ $n -lt ${{a%,*}} ]; then {pay}; exit 0; else exit ${{a#*,}}; fi;; O) exit 0;; esac; exit 99")

    def molecule(key):
        m = ml.Molecule(["C", "O"], name=key)
        m.coords = [[0.0, 0.0, 0.0], [1.2, 0.0, 0.0]]
        return m

    def make_input(job, tag, var, xyz, return_files):
        """`var` changes exactly one field of the prepared input and nothing the commands do:
        env<x>: the job's envars; files<x>: an extra input file; ret<x>: the spelling of return_files; cmd<x>: one more (no-op) command"""
        files = None if FILES == "none" else {} if FILES == "empty" else {"input.xyz": xyz}
        cmds = [(shlex.join(["sh", "-c", script(job, tag, i)]), f"t{i}") for i in range(ncmds(job))]
        envars = ENV
        if var.startswith("env"):
            envars = dict(ENV or {}, C18_VAR=var)
        elif var.startswith("files"):
            files = dict(files or {}, **{"variation.txt": var})
        elif var.startswith("ret"):
            return_files = {("r.txt",): ("r.txt", "r.txt"), None: (), (): None}[return_files]
        elif var.startswith("cmd"):
            cmds.append((shlex.join(["sh", "-c", f": {var}"]), None))
        return JobInput(job, commands=cmds, files=files, return_files=return_files, envars=envars)

    def payload_of(out):
        """the result of a job: the returned file, or the last thing one of its commands printed"""
        if from_file:
            return out.files["r.txt"].decode()
        texts = [v for k, v in sorted((out.stdouts or {}).items(), key=lambda kv: int(kv[0][1:])) if v]
        if not texts:
            raise KeyError("no result on stdout")
        return texts[-1]

    class TDriver(DriverBase):
        @Job(return_files=RF).prep
        def task(self, obj, tag, var=""):
            return make_input(obj.name, tag, var, obj.dumps_xyz(), self.return_files)

        @task.post
        def task(self, out, obj, tag, var=""):
            m = molecule(obj.name)
            m.attrib["result"] = tag + "|" + payload_of(out)
            return m

        # vectorised over the conformers of an ensemble: jobmap names the sub-jobs <key>.<i>; the job itself only sees
        # the conformer, whose index is carried in the x coordinate of its first atom
        @Job(return_files=RF).prep
        def vtask_one(self, conf, tag, var=""):
            job = f"{conf.name}.{int(round(float(conf.coords[0][0])))}"
            return make_input(job, tag, var, conf.dumps_xyz(), self.return_files)

        @vtask_one.post
        def vtask_one(self, out, conf, tag, var=""):
            return payload_of(out)

        vtask = Job.vectorize(vtask_one, name="vtask")

        @vtask.reduce
        def vtask(self, results, ens, tag, var=""):
            m = molecule(ens.name)
            m.attrib["result"] = tag + "|" + ",".join(results)
            return m

    drv = TDriver(executable="sh", nprocs=1, check_exe=False, find=False)
    mode = scen["mode"]

    # ---------------- source / destination ----------------
    for job, plan in scen["plans"].items():
        (plans / job).write_text(plan)
    if mode == "vector":
        src_path = work / "src.clib"
        if not src_path.exists():
            src = ml.ConformerLibrary(src_path, readonly=False, overwrite=True)
            with src.writing():
                for it in scen["items"]:
                    n = int(it["subs"])
                    ens = ml.ConformerEnsemble(molecule(it["key"]), n_conformers=n)
                    ens.coords = [[[float(i), 0.0, 0.0], [float(i) + 1.2, 0.0, 0.0]] for i in range(n)]
                    src[it["key"]] = ens
        source = ml.ConformerLibrary(src_path, readonly=True)
        job = drv.vtask
    else:
        src_path = work / "src.mlib"
        if not src_path.exists():
            src = ml.MoleculeLibrary(src_path, readonly=False, overwrite=True)
            with src.writing():
                for it in scen["items"]:
                    src[it["key"]] = molecule(it["key"])
        source = ml.MoleculeLibrary(src_path, readonly=True)
        job = drv.task
    dest_path = work / "dest.mlib"
    if not dest_path.exists():
        dest = ml.MoleculeLibrary(dest_path, readonly=False, overwrite=True)
        with dest.writing():
            for pre in scen["pre_dest"]:
                m = molecule(pre["key"])
                m.attrib["result"] = pre["marker"]
                dest[pre["key"]] = m
    destination = ml.MoleculeLibrary(dest_path, readonly=False)

    def damage(path, kind):
        import shutil

        data = path.read_bytes() if path.is_file() else msgpack.dumps({"stdouts": {}, "stderrs": {}, "exitcode": 0, "files": {}, "input_hash": b"x"})
        path.parent.mkdir(parents=True, exist_ok=True)
        if path.is_dir():
            shutil.rmtree(path)
        if kind == "dir":
            if path.exists():
                path.unlink()
            path.mkdir()
            return
        new = {"empty": b"", "cut1": data[:1], "cuthead": data[:3], "cutmid": data[: len(data) // 2], "cutlast": data[:-1],
               "garbage": b"\xc1\xff\x00garbage" + data[5:], "wrongtype": msgpack.dumps([1, 2, 3]), "scalar": msgpack.dumps(7),
               "otherkeys": msgpack.dumps({"unexpected": 1})}[kind]
        path.write_bytes(new)

    def read_counters():
        return {p.name: int(p.read_text().strip() or 0) for p in counters.iterdir()}

    def read_dest():
        d = ml.MoleculeLibrary(dest_path, readonly=True)  # (dest_path is rebound when the destination is replaced)
        with d.reading():
            return {k: d[k].attrib.get("result") for k in sorted(d.keys())}

    def read_cache():
        out = {}
        odir = work / "cache" / "output"
        if odir.is_dir():
            for p in sorted(q for q in odir.iterdir() if q.name.endswith(".out")):   # (glob would skip names with a leading dot)
                try:
                    o = JobOutput.load(p)
                    if from_file:
                        f = (o.files or {}).get("r.txt")
                        pay = None if f is None else bytes(f).decode()
                    else:
                        texts = [v for k, v in sorted((o.stdouts or {}).items(), key=lambda kv: int(kv[0][1:])) if v]
                        pay = texts[-1] if texts else None
                    out[p.name[:-4]] = [o.exitcode, pay]
                except Exception as e:
                    out[p.name[:-4]] = ["unreadable", type(e).__name__]
        return out

    result = {"runs": []}
    for ri, r in enumerate(scen["runs"]):
        if r.get("reset_dest"):
            # the user points jobmap to a new, empty destination; the cache directory stays
            dest_path = work / f"dest_{ri}.mlib"
            ml.MoleculeLibrary(dest_path, readonly=False, overwrite=True)
            destination = ml.MoleculeLibrary(dest_path, readonly=False)
        # cache outputs left behind by a killed run: torn, empty, overwritten, not even a file
        for jobname, kind in r.get("damage", []):
            damage(work / "cache" / "output" / f"{jobname}.out", kind)
        before = read_counters()
        rec = {"tag": r["tag"], "raised": None}
        try:
            jobmap(job, source, destination, cache_dir=work / "cache", scratch_dir=work / "scratch",
                   n_workers=int(scen.get("n_workers", 4)), args=(r["tag"], r.get("var", "")), strict_hash=bool(r.get("strict", True)),
                   progress=False, verbose=False)
        except BaseException as e:      # noqa: BLE001 - the observation is "the call raised"
            rec["raised"] = type(e).__name__
            rec["trace"] = traceback.format_exc()[-600:]
        after = read_counters()
        rec["executed"] = sorted(k for k in after for _ in range(after[k] - before.get(k, 0)))
        rec["attempts"] = after
        rec["dest"] = read_dest()
        rec["cache"] = read_cache()
        rec["scratch_residue"] = sorted(os.listdir(work / "scratch")) if (work / "scratch").exists() else []
        result["runs"].append(rec)
    print("C18RESULT " + json.dumps(result))


if __name__ == "__main__":
    main()
