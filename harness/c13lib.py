"""
C13 — shared machinery: an INDEPENDENT ElementTree walk of a CDXML file (raw attribute strings, exact rational
positions), encoders for the Lean driver (Molli.Driver.C13), canonical forms of molli's result, the drawing variants
(stereo marks mirrored, page children permuted, page translated, atoms renumbered) and the model-free oracles.

Nothing in this file imports molli.ftypes.cdxml's helpers: positions, labels, fragments and the records are read
from the XML directly.
"""
from __future__ import annotations

import copy
import xml.etree.ElementTree as ET
from fractions import Fraction
from pathlib import Path

MIRROR = {"WedgeBegin": "WedgedHashBegin", "WedgedHashBegin": "WedgeBegin",
          "WedgeEnd": "WedgedHashEnd", "WedgedHashEnd": "WedgeEnd", "Bold": "Hash", "Hash": "Bold"}
STEREO_DISPLAYS = set(MIRROR)
EPS = Fraction(1, 10**6)       # planarity threshold of the orientation predicate (absolute, on 6 x volume in Å^3)
F_ORDER_TOL = 1e-12


# --------------------------------------------------------------------------------------
# the independent walk
# --------------------------------------------------------------------------------------
def pos_of(elt) -> tuple[Fraction, Fraction]:
    """page position: centre of the BoundingBox, else `p` (exact decimals)"""
    bb = elt.get("BoundingBox")
    if bb is not None:
        l, t, r, b = (Fraction(x) for x in bb.split())
        return (l + r) / 2, (t + b) / 2
    p = elt.get("p")
    if p is not None:
        x, y = (Fraction(v) for v in p.split())
        return x, y
    raise ValueError("no position")


def is_label(t) -> bool:
    ss = [c for c in t if c.tag == "s"]
    return len(ss) == 1 and ss[0].get("face", "0") == "1"


def is_fragment(fr) -> bool:
    return any(c.tag == "b" for c in fr)


class Drawing:
    """what is drawn on the page(s): chemically meaningful top-level fragments and bold-face labels"""

    def __init__(self, path):
        self.path = Path(path)
        self.tree = ET.parse(self.path)
        root = self.tree.getroot()
        self.bond_length = root.get("BondLength")
        self.frags = []     # dict(elt, id, pos, group)
        self.labels = []    # dict(key, pos, sibling (fragment id or None), elt)
        seen = set()
        self.dup_keys = set()
        # molli lists page-level items of ALL pages first, then the grouped ones
        tops, grouped = [], []
        for page in root.findall("page"):
            for ch in page:
                if ch.tag in ("fragment", "t"):
                    tops.append((ch, None))
            for g in page.findall("group"):
                for ch in g:
                    if ch.tag in ("fragment", "t"):
                        grouped.append((ch, g))
        for ch, g in tops + grouped:
            if ch.tag == "fragment" and is_fragment(ch):
                self.frags.append({"elt": ch, "id": ch.get("id"), "pos": pos_of(ch), "group": g})
        for ch, g in tops + grouped:
            if ch.tag == "t" and is_label(ch):
                key = [c for c in ch if c.tag == "s"][0].text
                if key in seen:
                    self.dup_keys.add(key)     # only the first occurrence counts
                    continue
                seen.add(key)
                sib = None
                if g is not None:
                    for c in g:
                        if c.tag == "fragment":
                            # the first fragment of the group, if it is a listed one
                            sib = c.get("id") if is_fragment(c) else None
                            break
                self.labels.append({"key": key, "pos": pos_of(ch), "sibling": sib, "elt": ch})

    def frag_by_id(self, fid):
        for f in self.frags:
            if f["id"] == fid:
                return f
        return None


# --------------------------------------------------------------------------------------
# encoders for the driver
# --------------------------------------------------------------------------------------
def enc(s) -> str:
    return "~" if s is None else "=" + s.encode("utf-8").hex()


def dec(tok: str):
    return None if tok == "~" else bytes.fromhex(tok[1:]).decode("utf-8")


def rat(fr: Fraction) -> str:
    return f"{fr.numerator}/{fr.denominator}"


def encode_fragment(frag_elt) -> str:
    """`frag` request: the fragment tree in post-order"""
    out = []

    def visit(fr) -> int:
        nodes = []
        for n in fr.findall("n"):
            sub = n.find("fragment")
            nested = "~"
            if sub is not None:
                nested = str(visit(sub))
            ts = n.find("t")
            s = ts.find("s") if ts is not None else None
            unspec = None if s is None else (s.text or "")
            fields = [enc(n.get("id")), enc(n.get("Element")), enc(n.get("AtomNumber")), enc(n.get("Isotope")),
                      enc(n.get("Charge")), enc(n.get("Radical")), enc(n.get("NodeType")),
                      enc(n.get("ExternalConnectionNum")), enc(n.get("GenericNickname")), enc(unspec),
                      enc(n.get("NumHydrogens")), enc(n.get("Attachments")), nested]
            nodes.append(",".join(fields))
        bonds = [",".join([enc(b.get("B")), enc(b.get("E")), enc(b.get("Order")), enc(b.get("Display"))])
                 for b in fr.findall("b")]
        out.append(";".join(nodes) + "|" + ";".join(bonds))
        return len(out) - 1

    visit(frag_elt)
    return "frag " + " ".join(out)


def parse_model_mol(line: str):
    """driver response -> canonical constitution (same shape as `canon_mol`)"""
    if not line.startswith("ok "):
        return line
    parts = dict(p.split("=", 1) for p in line[3:].split(" "))
    atoms = []
    if parts["atoms"] != "-":
        for a in parts["atoms"].split(";"):
            z, iso, lbl, atype, ch, spin, hyd = a.split(":")
            atoms.append((int(z), None if iso == "~" else int(iso), dec(lbl), int(atype), int(ch), int(spin),
                          None if hyd == "~" else int(hyd)))
    bonds = []
    if parts["bonds"] != "-":
        for b in parts["bonds"].split(";"):
            ij, bt, fo = b.split(":")
            i, j = ij.split("-")
            bonds.append((int(i), int(j), int(bt), Fraction(fo)))
    ap = [] if parts["ap"] == "-" else [int(x) for x in parts["ap"].split(",")]
    return {"atoms": atoms, "bonds": sorted(bonds), "charge": int(parts["charge"]), "mult": int(parts["mult"]), "ap": ap}


def canon_mol(m):
    """constitution of a molli Molecule through public accessors"""
    atoms = []
    for a in m.atoms:
        hyd = a.attrib.get("__implicit_hydrogens") if isinstance(a.attrib, dict) else None
        atoms.append((int(a.element), a.isotope, a.label, int(a.atype), a.formal_charge, a.formal_spin, hyd))
    idx = {id(a): i for i, a in enumerate(m.atoms)}
    bonds = []
    for b in m.bonds:
        i, j = idx[id(b.a1)], idx[id(b.a2)]
        bonds.append((min(i, j), max(i, j), int(b.btype), b.f_order))
    ap = [i for i, a in enumerate(m.atoms) if a in m.attachment_points] if hasattr(m, "attachment_points") else []
    return {"atoms": atoms, "bonds": sorted(bonds), "charge": m.charge, "mult": m.mult, "ap": ap}


def same_constitution(a, b) -> str | None:
    """None when equal (fractional orders within F_ORDER_TOL), else a description of the first difference"""
    if isinstance(a, str) or isinstance(b, str):
        return None if a == b else f"{a!r} vs {b!r}"
    for k in ("charge", "mult", "ap"):
        if a[k] != b[k]:
            return f"{k}: {a[k]} vs {b[k]}"
    if len(a["atoms"]) != len(b["atoms"]):
        return f"number of atoms: {len(a['atoms'])} vs {len(b['atoms'])}"
    for i, (x, y) in enumerate(zip(a["atoms"], b["atoms"])):
        if tuple(x) != tuple(y):
            return f"atom {i}: {x} vs {y}"
    if len(a["bonds"]) != len(b["bonds"]):
        return f"number of bonds: {len(a['bonds'])} vs {len(b['bonds'])}"
    for x, y in zip(a["bonds"], b["bonds"]):
        if x[:3] != y[:3] or abs(float(x[3]) - float(y[3])) > F_ORDER_TOL:
            return f"bond {x} vs {y}"
    return None


def encode_resolve(d: Drawing, ids: dict) -> str:
    """`resolve` request; ids: fragment id string -> small integer"""
    fr = ";".join(f"{ids[f['id']]},{rat(f['pos'][0])},{rat(f['pos'][1])}" for f in d.frags) or "-"
    lb = ";".join(f"{l['key'].encode('utf-8').hex() or '00'},{rat(l['pos'][0])},{rat(l['pos'][1])},"
                  f"{'~' if l['sibling'] is None else ids[l['sibling']]}" for l in d.labels) or "-"
    return f"resolve {fr} {lb}"


def l1(a, b) -> Fraction:
    return abs(a[0] - b[0]) + abs(a[1] - b[1])


def distinct_distances(d: Drawing, label, margin=Fraction(1, 10**6)) -> bool:
    """The label's resolution is decided WITH A MARGIN, i.e. not by the rounding of the decimal text:
    no two fragments at (nearly) the same L1 distance from the label (the order of the candidates, and which five are
    the nearest, is then determined), and no fragment centre at (nearly) the label's height ("above" is then determined:
    a centre such as (716.28 + 737.88) / 2 equals 727.08 exactly but 727.0799999999999 in binary floating point).
    Drawings with such ties are degenerate; the property says nothing about them and no expectation is formed."""
    ds = sorted(l1(f["pos"], label["pos"]) for f in d.frags)
    if not all(b - a > margin for a, b in zip(ds, ds[1:])):
        return False
    ly = label["pos"][1]
    return all(abs(f["pos"][1] - ly) > margin for f in d.frags)


# --------------------------------------------------------------------------------------
# model-free constitution oracle (plain arithmetic on the raw XML)
# --------------------------------------------------------------------------------------
def drawn_counts(frag_elt):
    """expected numbers for a fragment, straight from what is drawn. Returns None for drawings outside the domain
    (hapto centres: `one bond per drawn bond` is not claimed there)."""
    total = {"atoms": 0, "bonds": 0, "charge": 0, "radicals": 0, "joins": 0, "hapto": False,
             "isotopes": [], "orders": [], "ext_points": 0, "malformed": False}

    def visit(fr, top):
        for n in fr.findall("n"):
            if n.get("NodeType") == "MultiAttachment":
                total["hapto"] = True
                continue
            total["atoms"] += 1
            try:
                total["charge"] += int(n.get("Charge", 0))
            except ValueError:
                total["malformed"] = True
            total["radicals"] += {"Doublet": 1, "Singlet": 2}.get(n.get("Radical"), 0)
            if n.get("Isotope") is not None:
                try:
                    total["isotopes"].append(int(n.get("Isotope")))
                except ValueError:
                    total["malformed"] = True
            if n.get("NodeType") == "ExternalConnectionPoint" and top:
                total["ext_points"] += 1
            sub = n.find("fragment")
            if sub is not None:
                total["joins"] += 1
                visit(sub, False)
        for b in fr.findall("b"):
            total["bonds"] += 1
            o = b.get("Order")
            total["orders"].append("dash" if b.get("Display") == "Dash" else ("1" if o is None else o))

    visit(frag_elt, True)
    return total


# --------------------------------------------------------------------------------------
# variants of a drawing
# --------------------------------------------------------------------------------------
def write_tree(tree, path: Path):
    tree.write(path, encoding="utf-8", xml_declaration=True)
    return path


def variant_mirror(d: Drawing, out: Path) -> Path:
    t = copy.deepcopy(d.tree)
    for b in t.getroot().iter("b"):
        disp = b.get("Display")
        if disp in MIRROR:
            b.set("Display", MIRROR[disp])
    return write_tree(t, out)


BEGIN_END = {"WedgeBegin": "WedgeEnd", "WedgeEnd": "WedgeBegin", "WedgedHashBegin": "WedgedHashEnd",
             "WedgedHashEnd": "WedgedHashBegin"}


def variant_restereo(d: Drawing, out: Path, rng) -> Path:
    """a NEW drawing of a stereoisomer / differently drawn stereo marks: every stereo mark is, at random, kept,
    replaced by its opposite (wedge <-> hash), or moved to the other end of the bond"""
    t = copy.deepcopy(d.tree)
    for b in t.getroot().iter("b"):
        disp = b.get("Display")
        if disp in MIRROR:
            r = rng.below(4)
            if r == 1:
                b.set("Display", MIRROR[disp])
            elif r == 2 and disp in BEGIN_END:
                b.set("Display", BEGIN_END[disp])
            elif r == 3 and disp in BEGIN_END:
                b.set("Display", MIRROR[BEGIN_END[disp]])
    return write_tree(t, out)


def variant_reorder(d: Drawing, out: Path, rng) -> Path:
    """the SAME drawing written down in another order: the `<n>` elements of every fragment (nested ones too) are
    shuffled, and every bond is, at random, written from its other end (B <-> E, Begin <-> End marks follow)"""
    t = copy.deepcopy(d.tree)
    for fr in t.getroot().iter("fragment"):
        kids = list(fr)
        nodes = [k for k in kids if k.tag == "n"]
        if len(nodes) < 2:
            continue
        shuffled = list(nodes)
        rng.shuffle(shuffled)
        it = iter(shuffled)
        new = [next(it) if k.tag == "n" else k for k in kids]
        for k in kids:
            fr.remove(k)
        for k in new:
            fr.append(k)
    for b in t.getroot().iter("b"):
        if b.get("B") is not None and b.get("E") is not None and rng.chance(1, 2):
            disp = b.get("Display")
            if disp is None or disp in BEGIN_END or disp in ("Bold", "Hash", "Dash"):
                bb, ee = b.get("B"), b.get("E")
                b.set("B", ee)
                b.set("E", bb)
                if disp in BEGIN_END:
                    b.set("Display", BEGIN_END[disp])
    return write_tree(t, out)


AP_NODE_TYPES = {"ExternalConnectionPoint", "Fragment", "Nickname", "GenericNickname", "Unspecified"}


def atom_node_ids(frag_elt):
    """the node id behind every atom of the parsed molecule, in atom order: nodes in document order (hapto
    place-holders make no atom); every nested fragment replaces its place-holder node — the place-holder and the nested
    fragment's first attachment point disappear, the rest of the nested fragment is appended.
    Returns a list of (id, is_attachment_point) or None when the order cannot be told (no attachment point inside)."""
    ids = [(n.get("id"), n.get("NodeType") in AP_NODE_TYPES) for n in frag_elt.findall("n") if n.get("NodeType") != "MultiAttachment"]
    for n in frag_elt.findall("n"):
        sub = n.find("fragment")
        if sub is None:
            continue
        sub_ids = atom_node_ids(sub)
        if sub_ids is None:
            return None
        ap = next((i for i, (_, isap) in enumerate(sub_ids) if isap), None)
        ph = next((i for i, (x, _) in enumerate(ids) if x == n.get("id")), None)
        if ap is None or ph is None:
            return None
        ids = ids[:ph] + ids[ph + 1:] + sub_ids[:ap] + sub_ids[ap + 1:]
    return ids


def constitution_by_id(c, ids):
    """constitution keyed by node ids instead of atom positions (labels that are node ids blanked)"""
    c = strip_id_labels(c, True)
    atoms = {ids[i]: a for i, a in enumerate(c["atoms"])}
    bonds = sorted((tuple(sorted((ids[i], ids[j]))), bt, round(float(fo), 9)) for i, j, bt, fo in c["bonds"])
    return {"atoms": atoms, "bonds": bonds, "charge": c["charge"], "mult": c["mult"], "ap": sorted(ids[i] for i in c["ap"])}


def variant_charge_split(d: Drawing, out: Path, q: int, o: int, radical: bool = False):
    """derived drawings for contracted labels: in every top-level fragment that holds nested fragments the first atom
    inside each nested fragment gets `q` added to its formal charge and the first plain skeleton atom gets `o` added
    (q = -o: a zwitterion split across the contracted-label boundary, total unchanged — 0 for most bundled
    drawings); `radical`: the nested atom also becomes a doublet radical.  Returns None when nothing is nested."""
    t = copy.deepcopy(d.tree)
    touched = 0

    def bump(n, dq):
        v = int(n.get("Charge", 0)) + dq
        if v:
            n.set("Charge", str(v))
        elif "Charge" in n.attrib:
            del n.attrib["Charge"]

    def plain(n):
        return n.get("NodeType") is None and n.find("fragment") is None

    for page in t.getroot().findall("page"):
        tops = [c for c in page if c.tag == "fragment"] + [c for g in page.findall("group") for c in g if c.tag == "fragment"]
        for fr in tops:
            holders = [n for n in fr.findall("n") if n.find("fragment") is not None]
            skeleton = [n for n in fr.findall("n") if plain(n)]
            if not holders or not skeleton:
                continue
            for h in holders:
                inner = [n for n in h.find("fragment").findall("n") if plain(n)]
                if inner:
                    bump(inner[0], q)
                    if radical and inner[0].get("Radical") is None:
                        inner[0].set("Radical", "Doublet")
                    bump(skeleton[0], o)
                    touched += 1
    if not touched:
        return None
    return write_tree(t, out)


def variant_permute(d: Drawing, out: Path, rng) -> Path:
    """shuffle the children of every page and of every group holding several fragments/labels"""
    t = copy.deepcopy(d.tree)
    for page in t.getroot().findall("page"):
        kids = list(page)
        rng.shuffle(kids)
        for k in list(page):
            page.remove(k)
        for k in kids:
            page.append(k)
    return write_tree(t, out)


def _shift(vals, dx, dy):
    out = []
    for i, v in enumerate(vals):
        out.append(str(float(Fraction(v) + (dx if i % 2 == 0 else dy))))
    return " ".join(out)


def shift_fmt(v: Fraction) -> str:
    """exact decimal with at most 6 places (inputs have at most 3, shifts at most 2)"""
    s = f"{float(v):.6f}".rstrip("0").rstrip(".")
    assert Fraction(s) == v, (s, v)
    return s


def variant_translate(d: Drawing, out: Path, dx: Fraction, dy: Fraction) -> Path:
    """move everything on the page by (dx, dy)"""
    t = copy.deepcopy(d.tree)
    for e in t.getroot().iter():
        for att in ("p", "BoundingBox"):
            v = e.get(att)
            if v is not None:
                vals = v.split()
                e.set(att, " ".join(shift_fmt(Fraction(x) + (dx if i % 2 == 0 else dy)) for i, x in enumerate(vals)))
    return write_tree(t, out)


def variant_renumber(d: Drawing, out: Path, offset: int) -> Path:
    """give every atom node a new id (old + offset); B / E / Attachments follow"""
    t = copy.deepcopy(d.tree)
    root = t.getroot()
    ids = {n.get("id") for n in root.iter("n") if n.get("id") is not None}

    def new(i):
        return str(int(i) + offset) if i in ids else i

    for n in root.iter("n"):
        if n.get("id") is not None:
            n.set("id", new(n.get("id")))
        if n.get("Attachments") is not None:
            n.set("Attachments", " ".join(new(x) for x in n.get("Attachments").split()))
    for b in root.iter("b"):
        for att in ("B", "E"):
            if b.get(att) is not None:
                b.set(att, new(b.get(att)))
    return write_tree(t, out)


def strip_id_labels(c, offset_ids: bool):
    """constitution with labels that are node ids (place-holders of unexpanded nicknames) blanked"""
    if isinstance(c, str):
        return c
    atoms = []
    for a in c["atoms"]:
        lbl = a[2]
        if lbl is not None and lbl.isdigit() and a[3] == 101:
            lbl = "<node id>"
        atoms.append((a[0], a[1], lbl) + tuple(a[3:]))
    return dict(c, atoms=atoms)


# --------------------------------------------------------------------------------------
# handedness
# --------------------------------------------------------------------------------------
def centres(mol, canon):
    """atoms with >= 3 neighbours, excluding hapto centres and atoms bonded to one; with their neighbour triples"""
    n = len(canon["atoms"])
    nb = {i: [] for i in range(n)}
    for i, j, bt, fo in canon["bonds"]:
        nb[i].append(j)
        nb[j].append(i)
    hapto = {i for i, a in enumerate(canon["atoms"]) if a[3] == 10}
    out = []
    for c in range(n):
        if c in hapto or any(x in hapto for x in nb[c]):
            continue
        ns = sorted(set(nb[c]))
        if len(ns) < 3:
            continue
        ns = ns[:4]
        triples = [(ns[0], ns[1], ns[2])]
        if len(ns) == 4:
            triples += [(ns[0], ns[1], ns[3]), (ns[0], ns[2], ns[3]), (ns[1], ns[2], ns[3])]
        for t in triples:
            out.append((c,) + t)
    return out


def encode_orient(coords, quads) -> str:
    def v(i):
        return ",".join(rat(Fraction(float(x))) for x in coords[i])

    return f"orient {rat(EPS)} " + " ".join("|".join(v(i) for i in q) for q in quads)
