"""
C04 — concurrent library sessions are serialised and survive failing sessions.

Proof:  Molli.Props.C04 (mutex, always_released, progress, file_prefix, no_lost_update, reader_sees_complete,
        torn_only_under_writer — for every schedule of any length, any number of sessions, any fault plans,
        for every well-bracketed control skeleton) + the generated skeleton Molli.Gen.Sessions with its
        `decide` obligations (regenerated on every run by fault injection into real sessions).
Tie:    (i) the skeleton itself; (ii) scripted single-process replays: orders of sessions over 2..3 long-lived
        Collection objects (stale cached handles) with a fault injected at each step, after every session a
        SECOND PROCESS takes the lock (with a timeout) and lists the library — compared with the Lean backend
        model; (iii) real multi-process histories (random delays, long-lived handles, failing sessions) whose
        merged event log is checked against the serialisation spec; (iv) kill rounds: writer processes die (SIGKILL)
        inside their sessions while others carry on (Molli.Props.C04Kill is the theorem side).
Oracle: model-free — a hung or timed-out second process is the failing history for "releases the lock"; the
        library must hold exactly the records of the sessions whose flush completed; a session must list at
        its start every record written before.
"""
from __future__ import annotations

import json
import os
import subprocess
import time
from pathlib import Path

from harness import common, sesslib
from harness.ukvlib import hx


def parse_probe(ans: str):
    if not ans.startswith("ok"):
        return None
    body = ans[3:].strip()
    out = {}
    if body:
        for item in body.split(";"):
            k, v = item.split("=")
            out[bytes.fromhex(k).decode("utf-8", "replace") if k != "-" else ""] = bytes.fromhex(v) if v != "-" else b""
    return out


def gen_script(rng, ncols, nsess, bufs, allow_bad=False):
    """a list of sessions: (col, kind, fault, puts, cut)"""
    script = []
    used = 0
    retry = {}
    for _ in range(nsess):
        c = rng.below(ncols)
        kind = rng.weighted([("writing", 3), ("reading", 1)])
        fault = rng.weighted([("none", 5), ("atBegin", 1), ("atUpdate", 1), ("atBody", 2), ("atFlush", 2), ("atEnd", 1), ("atBodyBase", 2)])
        if bufs[c] == "ro":
            # a read-only handle: reading sessions only; now and then a writing session is attempted on it, which must be
            # refused before any lock is taken
            if kind == "writing" and rng.chance(1, 2):
                script.append((c, "writing", "readonly", [(f"ro{len(script)}", b"x")], 1))
                continue
            kind = "reading"
        if kind == "reading" and fault == "atFlush":
            fault = "none"
        if fault == "atFlush" and bufs[c] != 1_000_000:
            fault = "atBody"          # with a small buffer the injected write failure would fire inside the body
        torn = fault == "atFlush" and rng.chance(1, 2)
        puts = []
        if kind == "writing":
            for _ in range(rng.range(0, 3)):
                used += 1
                puts.append((f"k{used}", bytes([rng.below(256)]) * rng.range(0, 4)))
            if puts and fault == "none" and not retry.get("") and rng.chance(1, 8):
                # the empty string is a legal key (and the empty value a legal value): a record like any other
                retry[""] = True
                puts.insert(rng.range(0, len(puts) - 1), ("", bytes([rng.below(256)]) * rng.range(0, 2)))
        cut = rng.range(0, max(len(puts), 1))
        if torn:
            # the write fails after some bytes of the record are in the file: a torn tail is left behind.  The record is
            # long and zero-filled, so that whatever of it survives behind a shorter later record parses as blocks.
            fault = "atFlushTorn"
            used += 1
            puts = [(f"k{used}", b"\x00" * rng.choice([0, 3, 40, 150]))] + puts
            cut = rng.below(1 << 20)          # raw; run_script derives the number of bytes from the record's length
        if kind == "writing" and fault == "none" and retry.get(c):
            # the key whose write failed in an earlier session of this collection is put again: it must be accepted
            puts = [(retry.pop(c), b"again")] + puts
        if kind == "writing" and fault == "none" and allow_bad and rng.chance(1, 5):
            # "raised by the value encoder": one value is a str -> the backend write raises part-way through the record
            used += 1
            bad = (f"k{used}", "not-bytes")
            pos = rng.range(0, len(puts))
            puts = puts[:pos] + [bad] + puts[pos:]
            fault = "badValue"
            retry[c] = bad[0]
            if bufs[c] in (-1, 0) and rng.chance(1, 2):
                # every put is written at once: the failing put raises inside the body, the user code catches the exception
                # and goes on writing in the same session — which then COMPLETES: all its other records must be there
                fault = "badValueCaught"
                used += 1
                puts = puts + [(f"k{used}", bytes([rng.below(256)]) * rng.range(1, 30))]
        script.append((c, kind, fault, puts, cut))
    return script


def model_lines(bufs, script):
    """the same script for the Lean backend model (driver ops of C02 + session faults)"""
    ops = [f"cnew {c} {0 if b == 'ro' else b} 0 0 -" for c, b in enumerate(bufs)]
    for (c, kind, fault, puts, cut) in script:
        w = "w" if kind == "writing" else "r"
        if fault in ("atBegin", "readonly"):
            continue                                   # nothing happens: the file is never opened
        ops.append(f"begin {c} {w}")
        if fault != "atUpdate":
            ops.append(f"ckeys {c}")
        if kind == "writing" and fault != "atUpdate":
            ps = puts[:cut] if fault in ("atBody", "atBodyBase") else puts
            for k, v in ps:
                ops.append(f"cput {c} {hx(k.encode())} {hx(v)} {len(k)}")
        ops.append(f"endfault {c}" if fault == "atFlush" else (f"endfaulttorn {c} {cut}" if fault == "atFlushTorn" else f"end {c}"))
        ops.append("probe")
    return ";".join(ops)


def run_script(ctx, probe, path: Path, bufs, script, tag, alias: Path = None, probe_inside=()):
    from molli.storage import Collection, UkvCollectionBackend

    if sum(1 for v in ctx.violations if v["kind"].startswith("C04:lock-not-released")) >= 4:
        return None        # each leaked lock costs two probe timeouts; four witnesses are enough
    if path.exists():
        path.unlink()
    cols = [Collection(path, UkvCollectionBackend, readonly=(b == "ro"), bufsize=0 if b == "ro" else b) for b in bufs]
    if probe_inside:
        # let the second process construct its collection object now (its constructor takes the write lock without a
        # timeout): the in-session probes below then answer "timeout" instead of hanging
        probe.ask("r", alias if alias is not None else path, timeout=8.0)
    expected = {}          # reference semantics of the property
    pending = {i: [] for i in range(len(cols))}   # pairs still queued in a collection object after a failed flush
    toks = []
    for si, (c, kind, fault, puts, cut) in enumerate(script):
        col = cols[c]
        ppath = alias if alias is not None else path      # the second process reaches the library through an aliased path
        in_body = None
        if si in probe_inside and fault not in ("atBegin", "atUpdate"):
            def in_body():
                # while this session is inside its body a second process must not get the write lock,
                # and must get a read lock iff this session is a reader
                return (probe.ask("w", ppath, timeout=8.0, lock_timeout=0.25), probe.ask("r", ppath, timeout=8.0, lock_timeout=0.25))
        if fault == "readonly":
            ctx.count("session:writing-on-readonly-handle")
            exc = None
            try:
                with col.writing(timeout=5):
                    for k, v in puts:
                        col[k] = v
            except BaseException as e:
                exc = e
            ans = probe.ask("w", ppath, timeout=8.0)
            lib = parse_probe(ans)
            rtag = {"bufs": bufs, "script": tag, "at": si}
            if exc is None:
                ctx.violation("C04:read-only-handle-wrote", f"session {si}: a writing session on a read-only handle was accepted", rtag)
            if lib is None:
                ctx.violation("C04:lock-not-released-after-writing-session-fault-readonly",
                              f"after a refused writing session on a read-only handle a second process could not start a session ({ans})", rtag)
                sesslib.force_cleanup(col)
            elif lib != expected:
                ctx.violation("C04:completed-session-record-lost" if any(lib.get(k) != v for k, v in expected.items())
                              else "C04:unexpected-record-in-library",
                              f"after a refused writing session on a read-only handle the library changed", rtag)
            continue
        reads = tuple(sorted(expected.keys())[:1]) if (kind == "reading" or si % 2 == 1) else ()
        tear = 0
        if fault == "atFlushTorn":
            q0 = pending[c] + puts
            blen = 5 + len(q0[0][0].encode()) + len(q0[0][1])
            # a third of the time fewer bytes than a block header; else anywhere inside the record
            if cut < 0:
                tear = min(-cut, blen - 1)                       # directed scripts name the byte count themselves
            else:
                tear = 1 + (cut // 3) % 4 if cut % 3 == 0 else 1 + (cut // 3) % (blen - 1)
            script[si] = (c, kind, fault, puts, tear)            # the model is told the exact number of bytes
            cut = tear
            ctx.count("torn_flush_bytes<5" if tear < 5 else "torn_flush_bytes>=5")
        out = sesslib.run_session(col, kind, fault, puts, cut=cut, in_body=in_body, reads=reads, tear=tear)
        for rk, rv in out.get("reads", {}).items():
            if fault not in ("atBegin", "atUpdate") and rv != expected.get(rk):
                ctx.violation("C04:read-in-writing-session-differs",
                              f"session {si}: reading {rk!r} inside a writing session gave {str(rv)[:40]!r}, not the stored value",
                              {"bufs": bufs, "script": tag, "at": si})
        if "in_body" in out:
            aw, ar = out["in_body"]
            ctx.count("in_session_probes")
            if aw not in ("timeout", "hung"):
                ctx.violation("C04:second-process-writes-during-session",
                              f"while a {kind} session was inside its body a second process (path alias) obtained the write lock ({aw[:20]})",
                              {"bufs": bufs, "script": tag, "at": si})
            elif kind == "writing" and ar not in ("timeout", "hung"):
                ctx.violation("C04:second-process-reads-during-writing-session",
                              f"while a writing session was inside its body a second process (path alias) obtained a read lock ({ar[:20]})",
                              {"bufs": bufs, "script": tag, "at": si})
            elif kind == "reading" and not ar.startswith("ok"):
                ctx.violation("C04:readers-do-not-share", f"a second process could not read while a reading session was open ({ar[:20]})",
                              {"bufs": bufs, "script": tag, "at": si})
        step = {"session": si, "col": c, "kind": kind, "fault": fault,
                "puts": [[k, hx(v) if isinstance(v, bytes) else "str:" + v] for k, v in puts], "cut": cut}
        ctx.count(f"session:{kind}:{fault}")
        if fault == "none" and out["exc"] is not None:
            ctx.violation("C04:fault-free-session-raised",
                          f"session {si} ({kind}, no fault injected) ended with {out['exc']} after earlier sessions {[s[2] for s in script[:si]]}",
                          {"bufs": bufs, "script": tag, "at": step})
        # ---- reference semantics
        if fault != "atBegin":
            if out["listed"] is not None and sorted(expected.keys()) != out["listed"] and kind == "reading":
                ctx.violation("C04:stale-key-listing-in-session",
                              f"session {si} ({kind}) listed {len(out['listed'])} keys at its start; {len(expected)} records had been written",
                              {"bufs": bufs, "script": tag, "at": step})
            if kind == "writing":
                if out["listed"] is not None and fault != "atUpdate":
                    exp_listed = sorted(expected.keys())
                    if out["listed"] != exp_listed:
                        ctx.violation("C04:stale-key-listing-in-session",
                                      f"writing session {si} listed {len(out['listed'])} keys at its start; {len(exp_listed)} expected",
                                      {"bufs": bufs, "script": tag, "at": step})
                ps = [] if fault == "atUpdate" else (puts[:cut] if fault in ("atBody", "atBodyBase") else puts)
                queue = pending[c] + ps
                if fault == "badValueCaught":
                    for k, v in queue:
                        if isinstance(v, bytes):
                            expected[k] = v
                    pending[c] = []
                    expected_after_min = expected_after_max = dict(expected)
                    queue = []
                    if out["exc"] is not None:
                        ctx.violation("C04:fault-free-session-raised",
                                      f"session {si}: the user code caught the failing put and went on, but the session ended with {out['exc']}",
                                      {"bufs": bufs, "script": tag, "at": step})
                if fault == "badValue":
                    # everything queued before the bad pair is written (flushes write in order), the bad pair is not,
                    # what follows it is either never put (small buffer: the body is aborted) or stays queued
                    nb = next(j for j, (k, v) in enumerate(queue) if isinstance(v, str))
                    for k, v in queue[:nb]:
                        expected[k] = v
                    pending[c] = []
                    expected_after_min = expected_after_max = dict(expected)
                    queue = []
                if fault in ("badValue", "badValueCaught"):
                    pass
                elif fault in ("atFlush", "atFlushTorn") and queue:
                    # the first write of the exit flush raises: that pair is popped and lost, the rest stays queued in the
                    # collection object (exact bookkeeping is the model's job; the oracle demands only that nothing already
                    # written disappears and nothing outside the queue appears)
                    pending[c] = []
                    expected_after_min = dict(expected)
                    expected_after_max = dict(expected) | dict(queue)
                else:
                    for k, v in queue:
                        expected[k] = v
                    pending[c] = []
                    expected_after_min = expected_after_max = dict(expected)
            else:
                expected_after_min = expected_after_max = dict(expected)
        else:
            expected_after_min = expected_after_max = dict(expected)
        # ---- a second process must be able to take the lock and must see the library
        ans = probe.ask("w", ppath, timeout=8.0)
        lib = parse_probe(ans)
        if lib is None:
            ctx.violation(f"C04:lock-not-released-after-{kind}-session-fault-{fault}",
                          f"after a {kind} session with an exception at `{fault}` a second process could not start a session ({ans}); "
                          f"steps entered: {out['trace']}",
                          {"bufs": bufs, "script": tag, "at": step})
            sesslib.force_cleanup(col)
            ans2 = probe.ask("w", ppath, timeout=8.0)
            lib = parse_probe(ans2) or {}
        else:
            if not out["closed"]:
                ctx.violation(f"C04:file-left-open-after-{kind}-session-fault-{fault}",
                              f"after a {kind} session with an exception at `{fault}` the backend's file handle is still open",
                              {"bufs": bufs, "script": tag, "at": step})
            missing = [k for k, v in expected_after_min.items() if lib.get(k) != v]
            extra = [k for k in lib if k not in expected_after_max or lib[k] != expected_after_max[k]]
            if missing:
                ctx.violation("C04:completed-session-record-lost",
                              f"after session {si} the library lacks/alters {missing[:3]} written by completed sessions",
                              {"bufs": bufs, "script": tag, "at": step})
            elif extra:
                ctx.violation("C04:unexpected-record-in-library", f"after session {si} the library holds {extra[:3]} nobody wrote",
                              {"bufs": bufs, "script": tag, "at": step})
            # what a failed flush really left behind becomes the reference from here on
            expected = dict(lib) if fault in ("atFlush", "atFlushTorn") else expected
            if fault in ("atFlush", "atFlushTorn", "badValue"):
                pending[c] = [(k, v) for k, v in col._backend._write_queue]
        if fault == "atBegin":
            continue
        if fault != "atUpdate":
            toks.append(("keys:" + ",".join(hx(k.encode()) for k in sorted(out["listed"]))) if out["listed"] is not None else "none")
        toks.append("lib:" + ",".join(f"{hx(k.encode())}={hx(v)}" for k, v in sorted(lib.items())))
    for col in cols:
        sesslib.force_cleanup(col)
    return toks


def multiprocess_round(ctx, work: Path, nproc: int, nsess: int, seed: int):
    """real processes, random delays, some sessions fail; every process logs (t_ns, pid, sid, event, ...)"""
    path = work / f"mp{seed}.ukv"
    logdir = work / f"mplog{seed}"
    logdir.mkdir()
    from molli.storage import Collection, UkvCollectionBackend
    Collection(path, UkvCollectionBackend, readonly=False)
    src = r'''
import sys, os, time, random, json
sys.path.insert(0, os.environ["VERIF_REPO_PATH"])
from molli.storage import Collection, UkvCollectionBackend
path, logf, pid, nsess, seed = sys.argv[1], sys.argv[2], int(sys.argv[3]), int(sys.argv[4]), int(sys.argv[5])
rnd = random.Random(seed * 1000 + pid)
col = Collection(path, UkvCollectionBackend, readonly=False, bufsize=rnd.choice([-1, 0, 64, 10**6]))
tmo = None if pid % 2 == 0 else 60      # half of the processes wait for the lock without a timeout (the default)
log = open(logf, "w")
def ev(*a):
    log.write(json.dumps([time.monotonic_ns(), pid, *a]) + "\n"); log.flush()
for s in range(nsess):
    time.sleep(rnd.random() * 0.02)
    if rnd.random() < 0.3 and s % 3 == 0:
        col = Collection(path, UkvCollectionBackend, readonly=False, bufsize=rnd.choice([-1, 0, 64, 10**6]))   # fresh handle
    sid = f"{pid}.{s}"
    write = rnd.random() < 0.6
    fail = rnd.random() < 0.25
    try:
        if write:
            with col.writing(timeout=tmo):
                ev(sid, "begin", "w", sorted(col.keys()))
                keys = []
                for j in range(rnd.randint(1, 3)):
                    k = f"p{pid}s{s}r{j}"
                    if fail and j == 1:
                        ev(sid, "raise", "w", keys)
                        raise RuntimeError("user code")
                    col[k] = (k * 3).encode()
                    keys.append(k)
                    time.sleep(rnd.random() * 0.003)
                ev(sid, "endbody", "w", keys)
            ev(sid, "done", "w", keys)
        else:
            with col.reading(timeout=tmo):
                ks = sorted(col.keys())
                ev(sid, "begin", "r", ks)
                time.sleep(rnd.random() * 0.004)
                vals_ok = all(col[k] == (k * 3).encode() for k in ks)
                ks2 = sorted(col.keys())
                ev(sid, "endbody", "r", [vals_ok, ks2 == ks])
                if fail:
                    raise RuntimeError("user code")
            ev(sid, "done", "r", [])
    except RuntimeError:
        ev(sid, "failed", "w" if write else "r", [])
    except TimeoutError:
        ev(sid, "timeout", "w" if write else "r", [])
'''
    env = dict(os.environ)
    env["VERIF_REPO_PATH"] = str(common.REPO)
    procs = [subprocess.Popen([common.repo_python(), "-c", src, str(path), str(logdir / f"{p}.log"), str(p), str(nsess), str(seed)],
                              env=env, stdout=subprocess.DEVNULL, stderr=subprocess.PIPE, text=True) for p in range(nproc)]
    deadline = time.time() + 120
    hung = False
    errs = []
    for p in procs:
        try:
            _, e = p.communicate(timeout=max(1, deadline - time.time()))
            if p.returncode != 0:
                errs.append(e[-400:])
        except subprocess.TimeoutExpired:
            p.kill()
            hung = True
    events = []
    for f in logdir.glob("*.log"):
        for line in f.read_text().splitlines():
            try:
                events.append(json.loads(line))
            except Exception:
                pass
    events.sort()
    return path, events, hung, errs


def creation_race(ctx, work: Path, nproc: int, rounds: int):
    """several processes construct their handle on a library that does not exist yet at the same instant and run one
    writing session each; every such session completes, so every record must be there afterwards"""
    root = work / f"race{ctx.rng.below(1 << 30)}"
    root.mkdir()
    src = r'''
import sys, os, time
sys.path.insert(0, os.environ["VERIF_REPO_PATH"])
from molli.storage import Collection, UkvCollectionBackend
root, who, rounds, t0, dt = sys.argv[1], int(sys.argv[2]), int(sys.argv[3]), float(sys.argv[4]), float(sys.argv[5])
bad = []
for r in range(rounds):
    target = t0 + r * dt
    while time.monotonic() < target - 0.002:
        time.sleep(0.001)
    while time.monotonic() < target:
        pass
    try:
        lib = Collection(os.path.join(root, f"lib{r}.ukv"), UkvCollectionBackend, readonly=False)
        with lib.writing(timeout=20):
            lib[f"p{who}"] = (f"r{r}p{who}-" * (3 + who)).encode()
    except Exception as e:
        bad.append(f"round {r}: {type(e).__name__}")
print(";".join(bad))
'''
    env = dict(os.environ)
    env["VERIF_REPO_PATH"] = str(common.REPO)
    t0 = time.monotonic() + 1.5          # time for the interpreters to start and import molli
    dt = 0.06
    procs = [subprocess.Popen([common.repo_python(), "-c", src, str(root), str(w), str(rounds), repr(t0), repr(dt)], env=env,
                              stdout=subprocess.PIPE, stderr=subprocess.DEVNULL, text=True) for w in range(nproc)]
    problems = []
    for w, p in enumerate(procs):
        try:
            out, _ = p.communicate(timeout=60 + rounds * dt * 4)
            if out.strip():
                problems.append(f"process {w}: {out.strip()[:120]}")
        except subprocess.TimeoutExpired:
            p.kill()
            problems.append(f"process {w} hung")
    from molli.storage import Collection, UkvCollectionBackend
    lost = []
    for r in range(rounds):
        path = root / f"lib{r}.ukv"
        try:
            col = Collection(path, UkvCollectionBackend, readonly=True)
            with col.reading(timeout=10):
                got = {k: col[k] for k in col.keys()}
        except Exception as e:
            got = {"<unreadable>": type(e).__name__}
        for w in range(nproc):
            if got.get(f"p{w}") != (f"r{r}p{w}-" * (3 + w)).encode():
                lost.append((r, w))
    ctx.count("creation_race_rounds", rounds)
    if problems:
        ctx.violation("C04:session-fails-on-fresh-library", f"sessions on a library being created concurrently failed: {problems[:2]}",
                      {"creation_race": {"nproc": nproc, "rounds": rounds}, "problems": problems[:5]})
    elif lost:
        ctx.violation("C04:completed-session-record-lost",
                      f"{len(lost)} records of completed sessions are missing after {nproc} processes created and wrote the same fresh library concurrently "
                      f"(first: round {lost[0][0]}, process {lost[0][1]})",
                      {"creation_race": {"nproc": nproc, "rounds": rounds}, "lost": lost[:10]})


def kill_round(ctx, work: Path, nproc: int, seed: int):
    """a writer process is killed (SIGKILL) inside its writing session — in the body, or `cut` bytes into the record it is
    writing — while other processes keep running sessions on the same library.  The kernel drops the dead process's lock;
    nobody may hang, readers must see whole records only, the next writer must not append behind the torn tail, and no
    record of a completed session may be lost."""
    from molli.storage import Collection, UkvCollectionBackend
    from harness import ukvlib
    path = work / f"kill{seed}.ukv"
    logdir = work / f"killlog{seed}"
    logdir.mkdir()
    col0 = Collection(path, UkvCollectionBackend, readonly=False)
    with col0.writing(timeout=20):
        for j in range(3):
            col0[f"base{j}"] = (f"base{j}" * 3).encode()
    src = r"""
import sys, os, time, random, json, signal
sys.path.insert(0, os.environ["VERIF_REPO_PATH"])
from molli.storage import Collection, UkvCollectionBackend
path, logf, pid, nsess, seed, victim = sys.argv[1], sys.argv[2], int(sys.argv[3]), int(sys.argv[4]), int(sys.argv[5]), int(sys.argv[6])
rnd = random.Random(seed * 1000 + pid)
col = Collection(path, UkvCollectionBackend, readonly=False, bufsize=0 if victim else rnd.choice([-1, 0, 64, 10**6]))
log = open(logf, "w")
def ev(*a):
    log.write(json.dumps([time.monotonic_ns(), pid, *a]) + "\n"); log.flush(); os.fsync(log.fileno())
class Killer:
    # lets `left` more bytes reach the file, flushes them, then the process dies
    def __init__(self, stream, left):
        self._s, self._left = stream, left
    def write(self, data):
        if len(data) >= self._left:
            self._s.write(data[:self._left]); self._s.flush()
            os.kill(os.getpid(), signal.SIGKILL)
        self._left -= len(data)
        return self._s.write(data)
    def __getattr__(self, name):
        return getattr(self._s, name)
kill_at = rnd.randrange(1, nsess) if victim else -1
for s in range(nsess):
    time.sleep(rnd.random() * 0.02)
    sid = f"{pid}.{s}"
    if s == kill_at:
        with col.writing(timeout=60):
            ev(sid, "begin", "w", sorted(col.keys()))
            k0 = f"v{pid}s{s}whole"
            col[k0] = (k0 * 3).encode()
            ev(sid, "put", "w", [k0])
            if victim == 1:
                ev(sid, "kill-in-body", "w", [])
                os.kill(os.getpid(), signal.SIGKILL)
            k1 = f"v{pid}s{s}torn"
            uf = col._backend._ukvfile
            cut = rnd.randrange(1, 5 + len(k1) + 3 * len(k1))
            ev(sid, "kill-in-record", "w", [k1, cut])
            uf._stream = Killer(uf._stream, cut)
            col[k1] = (k1 * 3).encode()
        ev(sid, "survived", "w", [])
        continue
    write = rnd.random() < 0.6
    try:
        if write:
            with col.writing(timeout=60):
                ev(sid, "begin", "w", sorted(col.keys()))
                keys = []
                for j in range(rnd.randint(1, 3)):
                    k = f"p{pid}s{s}r{j}"
                    col[k] = (k * 3).encode()
                    keys.append(k)
                    time.sleep(rnd.random() * 0.003)
                ev(sid, "endbody", "w", keys)
            ev(sid, "done", "w", keys)
        else:
            with col.reading(timeout=60):
                ks = sorted(col.keys())
                ev(sid, "begin", "r", ks)
                bad = [k for k in ks if col[k] != (k * 3).encode()]
                ev(sid, "endbody", "r", bad)
            ev(sid, "done", "r", [])
    except TimeoutError:
        ev(sid, "timeout", "w" if write else "r", [])
"""
    env = dict(os.environ)
    env["VERIF_REPO_PATH"] = str(common.REPO)
    nsess = 6
    victims = {0: 1, 1: 2}           # process 0 dies in the body, process 1 dies inside a record
    procs = [subprocess.Popen([common.repo_python(), "-c", src, str(path), str(logdir / f"{p}.log"), str(p), str(nsess), str(seed),
                               str(victims.get(p, 0))], env=env, stdout=subprocess.DEVNULL, stderr=subprocess.PIPE, text=True)
             for p in range(nproc)]
    deadline = time.time() + 120
    hung, errs = False, []
    for pi, p in enumerate(procs):
        try:
            _, e = p.communicate(timeout=max(1, deadline - time.time()))
            if p.returncode != 0 and not (pi in victims and p.returncode == -9):
                errs.append(e[-400:])
        except subprocess.TimeoutExpired:
            p.kill()
            hung = True
    events = []
    for f in logdir.glob("*.log"):
        for line in f.read_text().splitlines():
            try:
                events.append(json.loads(line))
            except Exception:
                pass
    events.sort()
    tag = {"kill_round": {"nproc": nproc, "seed": seed}, "events_tail": events[-14:]}
    ctx.count("kill_rounds")
    if hung:
        ctx.violation("C04:sessions-blocked-after-a-writer-was-killed", "a process never finished after another process was killed inside its writing session", tag)
        return
    if errs:
        ctx.violation("C04:session-fails-after-a-writer-was-killed", f"a surviving process ended with an exception: {errs[0][-200:]}", tag)
        return
    killed = [e for e in events if e[3] in ("kill-in-body", "kill-in-record")]
    ctx.count("writers_killed_in_session", len(killed))
    if any(e[3] == "survived" for e in events):
        ctx.disagree("the victim process survived its SIGKILL", tag, "survived", "killed")
    must, may = {f"base{j}" for j in range(3)}, set()
    for t, pid, sid, evn, mode, data in events:
        if evn == "endbody" and mode == "w":
            must.update(data)
        elif evn == "put":
            must.update(data)                 # returned from put with bufsize 0 and flushed by the killer / lost only with the process buffer
        elif evn == "kill-in-record":
            may.add(data[0])
        elif evn == "endbody" and mode == "r" and data:
            ctx.violation("C04:reader-saw-incomplete-record", f"reading session {sid} read a damaged value for {data[:2]} after a writer was killed", tag)
            return
        elif evn == "timeout":
            ctx.violation("C04:session-timed-out", f"session {sid} could not get the lock within 60 s after a writer was killed", tag)
            return
        if evn == "begin":
            odd = [k for k in data if not (k.startswith("base") or k.startswith("p") or k.startswith("v"))]
            if odd:
                ctx.violation("C04:reader-saw-incomplete-record", f"session {sid} listed a key nobody put: {odd[:2]}", tag)
                return
    # the victim in the body wrote its first record with bufsize 0 but died before the flush of Python's file buffer: it may be absent
    body_victims = {e[2] for e in events if e[3] == "kill-in-body"}
    for t, pid, sid, evn, mode, data in events:
        if evn == "put" and sid in body_victims:
            must.difference_update(data)
            may.update(data)
    col = Collection(path, UkvCollectionBackend, readonly=False)
    with col.writing(timeout=10):
        col["final"] = b"finalfinalfinal"
    with col.reading(timeout=10):
        final = {k: col[k] for k in col.keys()}
    must.add("final")
    lost = sorted(k for k in must if final.get(k) != (k * 3).encode())
    extra = sorted(k for k in final if k not in must and k not in may)
    torn = sorted(k for k in final if final[k] != (k * 3).encode())
    hdr, recs, clean = ukvlib.scan_file(path.read_bytes())
    if lost:
        ctx.violation("C04:completed-session-record-lost", f"after writers were killed in their sessions the library lacks/alters {lost[:3]}", tag)
    elif torn or extra:
        ctx.violation("C04:reader-saw-incomplete-record", f"after writers were killed the library shows damaged or unknown records {(torn + extra)[:3]}", tag)
    elif not clean:
        ctx.violation("C04:record-appended-behind-torn-tail", "after a writer was killed inside a record and later sessions appended, the file is not header + whole blocks", tag)


def stale_pending_duplicate(ctx, probe, work: Path, bufB, lines, impls):
    """handle A (large buffer) keeps pairs queued after a failed exit flush; handle B then completes a session that stores one
    of those keys; A's next exit flush must NOT write a second record for it (the completed session's record would be
    altered): it fails on that pair, releases everything, and the rest of A's queue goes in with A's following session."""
    from molli.storage import Collection, UkvCollectionBackend
    path = work / "real" / f"pendingdup{bufB}.ukv"
    ppath = work / "alias" / ".." / "alias" / f"pendingdup{bufB}.ukv"
    if path.exists():
        path.unlink()
    A = Collection(path, UkvCollectionBackend, readonly=False, bufsize=1_000_000)
    B = Collection(path, UkvCollectionBackend, readonly=False, bufsize=bufB)
    steps = [  # (collection, kind, fault, puts, library expected afterwards, may the session raise?)
        (A, 0, "writing", "none", [("a0", b"x")], {"a0": b"x"}, False),
        (A, 0, "writing", "atFlush", [("p1", b"1"), ("p2", b"22"), ("p3", b"333")], {"a0": b"x"}, True),
        (B, 1, "writing", "none", [("p2", b"B-wrote-this")], {"a0": b"x", "p2": b"B-wrote-this"}, False),
        (A, 0, "writing", "none", [("a1", b"y")], {"a0": b"x", "p2": b"B-wrote-this"}, True),
        (B, 1, "reading", "none", [], {"a0": b"x", "p2": b"B-wrote-this"}, False),
        (A, 0, "writing", "none", [], {"a0": b"x", "p2": b"B-wrote-this", "p3": b"333", "a1": b"y"}, False),
        (B, 1, "reading", "none", [], {"a0": b"x", "p2": b"B-wrote-this", "p3": b"333", "a1": b"y"}, False),
    ]
    toks, ops = [], [f"cnew 0 1000000 0 0 -", f"cnew 1 {bufB} 0 0 -"]
    tag = {"stale_pending_duplicate": {"bufsize_B": bufB}}
    for n, (col, c, kind, fault, puts, want, may_raise) in enumerate(steps):
        out = sesslib.run_session(col, kind, fault, puts, cut=0)
        ans = probe.ask("w", ppath, timeout=8.0)
        lib = parse_probe(ans)
        w = "w" if kind == "writing" else "r"
        ops += [f"begin {c} {w}", f"ckeys {c}"] + [f"cput {c} {hx(k.encode())} {hx(v)} {len(k)}" for k, v in puts]
        ops += [f"endfault {c}" if fault == "atFlush" else f"end {c}", "probe"]
        if lib is None:
            ctx.violation(f"C04:lock-not-released-after-{kind}-session-fault-{fault}",
                          f"step {n}: a second process could not start a session ({ans}) after a session whose exit flush met a key stored meanwhile by another handle", tag)
            sesslib.force_cleanup(col)
            break
        if out["exc"] is not None and not may_raise:
            ctx.violation("C04:fault-free-session-raised", f"step {n}: the session ended with {out['exc']}", tag)
        if lib != want:
            kind_ = "C04:completed-session-record-lost" if any(lib.get(k) != v for k, v in want.items()) else "C04:unexpected-record-in-library"
            ctx.violation(kind_, f"step {n}: the library is {dict(sorted(lib.items()))}, the completed sessions wrote {dict(sorted(want.items()))} "
                                 f"(a record of a completed session was altered by another handle's late flush?)", tag)
            break
        toks.append(("keys:" + ",".join(hx(k.encode()) for k in sorted(out["listed"]))) if out["listed"] is not None else "none")
        toks.append("lib:" + ",".join(f"{hx(k.encode())}={hx(v)}" for k, v in sorted(lib.items())))
    else:
        lines.append(";".join(ops))
        impls.append((toks, [1_000_000, bufB], tag))
    for col in (A, B):
        sesslib.force_cleanup(col)
    ctx.case(f"stale-pending-duplicate:{bufB}", True)
    ctx.count("stale_pending_duplicate_scripts")


def check_history(ctx, path, events, hung, errs, tag):
    """decidable serialisation spec over the merged log (writer sessions: [begin .. done/failed] intervals)"""
    from molli.storage import Collection, UkvCollectionBackend
    if hung:
        ctx.violation("C04:multiprocess-run-hung", "a process of the multi-process round never finished (lock not released?)", tag)
        return
    if errs:
        ctx.violation("C04:multiprocess-process-crashed", f"a process ended with an exception: {errs[0][-200:]}", tag)
        return
    # body intervals: between 'begin' and 'endbody'/'raise' the session is certainly inside its critical section
    open_w, open_r = {}, {}
    written = {}        # key -> sid of completed or flushed sessions
    for t, pid, sid, ev, mode, data in events:
        if ev == "begin":
            if mode == "w":
                if open_w or open_r:
                    ctx.violation("C04:writer-overlaps-another-session",
                                  f"writing session {sid} is inside its critical section together with {list(open_w) + list(open_r)}", tag)
                    return
                open_w[sid] = data
            else:
                if open_w:
                    ctx.violation("C04:reader-overlaps-writer", f"reading session {sid} runs inside writing session {list(open_w)}", tag)
                    return
                open_r[sid] = data
            # what it lists must be exactly what completed flushes wrote so far
            if sorted(written.keys()) != data:
                ctx.violation("C04:session-sees-partial-or-stale-library",
                              f"session {sid} listed {len(data)} keys, {len(written)} had been written by finished sessions", tag)
                return
        elif ev in ("endbody", "raise"):
            if mode == "w":
                open_w.pop(sid, None)
                for k in data:
                    written[k] = sid          # flushed at session exit (also after a user exception)
            else:
                open_r.pop(sid, None)
                if ev == "endbody" and data != [True, True]:
                    ctx.violation("C04:reader-saw-incomplete-record", f"reading session {sid}: values complete={data[0]}, listing stable={data[1]}", tag)
                    return
        elif ev == "timeout":
            ctx.violation("C04:session-timed-out", f"session {sid} raised TimeoutError although it waits for the lock for 60 s or without limit", tag)
            return
    col = Collection(path, UkvCollectionBackend, readonly=True)
    with col.reading(timeout=10):
        final = {k: col[k] for k in col.keys()}
    if sorted(final.keys()) != sorted(written.keys()) or any(final[k] != (k * 3).encode() for k in final):
        lost = sorted(set(written) - set(final))[:3]
        ctx.violation("C04:completed-session-record-lost", f"final library differs from the union of flushed sessions (lost: {lost})", tag)


def run(ctx):
    ctx.rule = ("(i) control skeleton: a fault injected at each of 6 points of real reading()/writing() sessions (12 sessions), "
                "second process probes the lock; (ii) scripted replays: random orders of 3..8 sessions over 1..3 long-lived "
                "collection objects (bufsize in {-1,0,64,10^6}) with faults {none,begin,update,body,flush,end}, after every "
                "session a second process takes the lock with a timeout and lists the library; (iii) multi-process rounds "
                "(6..16 processes x 6..10 sessions, random delays, 25% failing sessions). Non-trivial: script with >=1 failing "
                "session followed by another session; distinct by script.")
    ctx.assumptions += ["A-lock: fasteners.InterProcessReaderWriterLock is an ideal reader-writer lock between processes (theorems); "
                        "real fcntl behaviour is sampled by the second-process probe and the multi-process rounds",
                        "threads sharing a handle and nested sessions on one path in one process are outside the property"]
    work = ctx.scratch
    ctx.proof(props=["Molli.Props.C04", "Molli.Props.C04Kill", "Molli.Props.C04Torn"], gen=["Sessions", "UkvLayout"])

    probe = sesslib.Probe(work)
    lines, impls = [], []
    (work / "real").mkdir(exist_ok=True)
    os.symlink(work / "real", work / "alias")         # the same directory under a second name
    try:
        # ---- exhaustive at session granularity: every order of `depth` sessions over two long-lived collection
        # objects (bufsize 10^6 and -1), each session of every kind x fault
        import itertools
        types = []
        for c, b in ((0, 1_000_000), (1, -1)):
            for kind in sesslib.KINDS:
                for fault in sesslib.FAULTS:
                    if fault == "atFlush" and (kind == "reading" or b != 1_000_000):
                        continue
                    types.append((c, kind, fault))
        depth = 2 if ctx.quick() else 3
        nex = 0
        for combo in itertools.product(types, repeat=depth):
            bufs = [1_000_000, -1]
            script, used = [], 0
            for (c, kind, fault) in combo:
                puts = []
                if kind == "writing":
                    puts = [(f"e{used + 1}", b"x"), (f"e{used + 2}", b"")]
                    used += 2
                script.append((c, kind, fault, puts, 1))
            tag = [[c, k, f, [[a, hx(b)] for a, b in p], cut] for c, k, f, p, cut in script]
            toks = run_script(ctx, probe, work / f"ex{nex}.ukv", bufs, script, tag)
            (work / f"ex{nex}.ukv").unlink(missing_ok=True)
            lines.append(model_lines(bufs, script))
            impls.append((toks, bufs, tag))
            ctx.case(json.dumps([bufs, tag]), any(s[2] != "none" for s in script[:-1]))
            nex += 1
            if nex % 100 == 0:
                ctx.check_deadline()
        ctx.count("exhaustive_session_orders", nex)
        ctx.extra_cov["exhaustive_session_depth"] = depth
        # ---- directed scripts: a handle that announced n keys whose write failed, then exactly n foreign records,
        # then the same handle again (its cached key set must be refreshed from the file, not trusted by count)
        directed = []
        for nbad in (1, 2, 3):
            for bufA in (1_000_000, -1):
                sc = []
                for j in range(nbad):
                    sc.append((0, "writing", "badValue", [(f"g{j}", b"good"), (f"bad{j}", "not-bytes")], 1))
                sc.append((1, "writing", "none", [(f"b{j}", b"x") for j in range(nbad)], nbad))
                sc.append((0, "reading", "none", [], 0))
                sc.append((0, "writing", "none", [("bad0", b"again"), ("late", b"")], 2))
                sc.append((1, "reading", "none", [], 0))
                directed.append(([bufA, 64], sc))
        for bufA in (-1, 0):
            for klen in (3, 40):
                directed.append(([bufA, 64], [
                    (0, "writing", "none", [("c0", b"x")], 1),
                    (0, "writing", "badValueCaught", [("w1", b"11"), ("B" * klen, "not-bytes"), ("w2", b"2"), ("w3", b"333333")], 4),
                    (1, "reading", "none", [], 0),
                    (1, "writing", "none", [("o1", b"")], 1),
                    (0, "reading", "none", [], 0)]))
        for bufB in (-1, 64, 1_000_000):
            stale_pending_duplicate(ctx, probe, work, bufB, lines, impls)
        for dn, (bufs, script) in enumerate(directed):
            tag = [[c, k, f, [[a, hx(b) if isinstance(b, bytes) else 'str:' + b] for a, b in p], cut] for c, k, f, p, cut in script]
            run_script(ctx, probe, work / "real" / f"directed{dn}.ukv", bufs, script, tag,
                       alias=work / "alias" / ".." / "alias" / f"directed{dn}.ukv")
            ctx.case(json.dumps([bufs, tag]), True)
            ctx.count("directed_scripts")
        # ---- directed scripts: the flush at session exit fails after n bytes of a record (n inside the block header, the
        # key, the value); then a reader, a writer with a SHORTER record on another handle, and the same handle again
        tn = 0
        for vlen in (0, 150):
            for n in (1, 2, 3, 4, 5, 6, 8, 40, 100, 5 + 2 + vlen - 1):
                if n >= 5 + 2 + vlen:
                    continue
                for bufB in (64, 1_000_000):
                    sc = [(0, "writing", "none", [(f"a{tn}", b"x")], 0),
                          (0, "writing", "atFlushTorn", [(f"t{tn}", b"\x00" * vlen), (f"u{tn}", b"1")], -n),
                          (1, "reading", "none", [], 0),
                          (1, "writing", "none", [(f"s{tn}", b"")], 1),
                          (0, "reading", "none", [], 0),
                          (0, "writing", "none", [(f"t{tn}", b"again")], 1),
                          (1, "reading", "none", [], 0)]
                    bufs = [1_000_000, bufB]
                    tag = [[c, k, f, [[a, hx(b)] for a, b in p_], cut] for c, k, f, p_, cut in sc]
                    toks = run_script(ctx, probe, work / "real" / f"torn{tn}.ukv", bufs, sc, tag,
                                      alias=work / "alias" / ".." / "alias" / f"torn{tn}.ukv")
                    lines.append(model_lines(bufs, sc))
                    impls.append((toks, bufs, tag))
                    ctx.case(json.dumps([bufs, tag]), True)
                    ctx.count("directed_torn_flush_scripts")
                    tn += 1
                    if ctx.quick() and tn >= 24:
                        break
        nscripts = 40 if ctx.quick() else 600
        for n in range(nscripts):
            ncols = ctx.rng.range(1, 3)
            bufs = [ctx.rng.choice([-1, 0, 64, 1_000_000]) for _ in range(ncols)]
            for ci in range(1, ncols):
                if ctx.rng.chance(1, 4):
                    bufs[ci] = "ro"          # a read-only handle among the long-lived collection objects
            with_bad = (n % 3 == 2)      # every third script injects value-encoder faults (checked by the oracle only)
            script = gen_script(ctx.rng, ncols, ctx.rng.range(3, 8), bufs, allow_bad=with_bad)
            with_bad = any(s_[2] in ("badValue", "badValueCaught") for s_ in script)
            tag = [[c, k, f, [[a, hx(b) if isinstance(b, bytes) else 'str:' + b] for a, b in p], cut] for c, k, f, p, cut in script]
            inside = {ctx.rng.below(len(script))} if n < (12 if ctx.quick() else 80) else ()
            toks = run_script(ctx, probe, work / "real" / f"script{n}.ukv", bufs, script, tag,
                              alias=work / "alias" / ".." / "alias" / f"script{n}.ukv", probe_inside=inside)
            if not with_bad:
                lines.append(model_lines(bufs, script))
                impls.append((toks, bufs, tag))
            else:
                ctx.count("scripts_with_value_encoder_fault")
            nt = any(s[2] != "none" for s in script[:-1])
            ctx.case(json.dumps([bufs, tag]), nt)
            if n < 2:
                ctx.sample({"bufsizes": bufs, "sessions": tag})
            ctx.check_deadline()
    finally:
        probe.stop()
    outs = ctx.driver(lines)
    for line, (toks, bufs, tag), mout in zip(lines, impls, outs):
        mt = [t for t in mout.split(";") if t.startswith("keys:") or t.startswith("lib:")]
        if toks is not None and mt != toks:
            idx = next((j for j, (a, b) in enumerate(zip(mt, toks)) if a != b), min(len(mt), len(toks)))
            ctx.disagree("session replay differs from the backend model", {"bufs": bufs, "script": tag, "first_difference_at": idx},
                         toks[idx] if idx < len(toks) else None, mt[idx] if idx < len(mt) else None)

    # ---- multi-process histories
    rounds = 2 if ctx.quick() else 30
    for r in range(rounds):
        nproc = ctx.rng.range(6, 8) if ctx.quick() else ctx.rng.range(8, 16)
        nsess = 6 if ctx.quick() else 10
        seed = ctx.rng.below(1 << 30)
        path, events, hung, errs = multiprocess_round(ctx, work, nproc, nsess, seed)
        tag = {"multiprocess": {"nproc": nproc, "sessions_per_process": nsess, "seed": seed}, "events_tail": events[-12:]}
        check_history(ctx, path, events, hung, errs, tag)
        ctx.case(f"mp:{seed}:{nproc}:{nsess}", True)
        ctx.count("multiprocess_rounds")
        ctx.count("multiprocess_sessions", len([e for e in events if e[3] == "begin"]))
        ctx.check_deadline()
    # ---- writers killed inside their sessions while others keep going
    for r in range(2 if ctx.quick() else 25):
        seed = ctx.rng.below(1 << 30)
        kill_round(ctx, work, 5 if ctx.quick() else ctx.rng.range(5, 9), seed)
        ctx.case(f"kill:{seed}", True)
        ctx.check_deadline()
    # ---- processes racing to create the library
    creation_race(ctx, work, 4, 25 if ctx.quick() else 150)
    ctx.case("creation-race", True)
    ctx.extra_cov["traces_validated_against_impl"] = len(lines) + rounds


def replay(ctx, path):
    obj = json.loads(Path(path).read_text())
    print(json.dumps(obj, indent=1)[:4000])
    return 0
