"""
C03 — a crash while appending never damages committed records or shows a torn one.

Proof:  Molli.Props.C03 (crash_atomic, crash_reopen, crash_get, crash_then_append, double_crash, crash_read_then_append,
        crash_stale_reopen, crash_stale_then_append, other_process_crash)
        + generated layout obligations Molli.Gen.UkvLayout.
Tie:    every write() of real append sessions is recorded (offset, bytes); for EVERY prefix length of
        that program-order byte stream the crash image is materialised and opened by the real UKVFile
        in 'r' and in 'a' (+ one more put, + a second crash); the Lean model predicts every outcome.
Oracle: model-free — each listed key must be a whole key of the history with the byte-identical value,
        every committed record must be there, the recovery append must read back, the file must be
        exactly header + whole blocks.
"""
from __future__ import annotations

import os
import shutil
from pathlib import Path

from harness import ukvlib
from harness.ukvlib import hx


def gen_session(rng, quick: bool):
    keylens = [0, 1, 2, 7, 255]
    vallens = [0, 1, 5, 20, 300] if not quick else [0, 1, 5, 20, 60]
    ncommitted = rng.range(0, 3)
    nsess = rng.range(1, 4 if not quick else 3)
    used = set()

    def fresh_key():
        while True:
            kl = rng.choice(keylens)
            if kl == 0:
                k = b""
            else:
                k = bytes(rng.below(256) for _ in range(min(kl, 3))) + bytes([rng.below(256)]) * max(0, kl - 3)
            if k not in used:
                used.add(k)
                return k

    def val():
        vl = rng.choice(vallens)
        # values that look like block headers / keys make a torn scan more likely to mis-parse
        style = rng.below(3)
        if style == 0:
            return bytes([0]) * vl
        if style == 1:
            return bytes(rng.below(256) for _ in range(vl))
        return (b"\x01\x00\x00\x00\x02AB" * (vl // 7 + 1))[:vl]

    committed = [(fresh_key(), val()) for _ in range(ncommitted)]
    session = [(fresh_key(), val()) for _ in range(nsess)]
    extra = (fresh_key(), val())
    extra2 = (fresh_key(), val())
    h2 = rng.choice([b"", b"hi", b"comment \xff"])
    b0 = rng.choice([b"", b"\x00\x01\x02"])
    return {"h2": h2, "b0": b0, "committed": committed, "session": session, "extra": extra, "extra2": extra2}


def run(ctx):
    from molli.storage.ukvfile import UKVFile  # noqa: F401  (import check)

    ctx.rule = ("sessions: 0..3 committed records then an append session of 1..4 puts (key lengths {0,1,2,7,255}, "
                "value lengths {0..300}, values zero-filled / random / header-like); EVERY byte offset of the recorded "
                "write stream is a case; each case = image opened 'r', opened 'a' + put + reread, one long-lived handle, a stale handle of another process, and second crashes "
                "of the recovery session. Non-trivial: offset strictly inside the stream (a torn or partial session); "
                "distinct by (session, offset).")
    ctx.assumptions += [
        "A-io: a crash leaves a prefix of the program-order sequence of file-mutating calls of the session — write() calls byte by byte, resizing calls as a whole (OS-level reordering across a power failure is outside the model)",
    ]
    pr = ctx.proof(props=["Molli.Props.C03"], gen=["UkvLayout"])

    work = ctx.scratch
    nsessions = 14 if ctx.quick() else 50
    corpus = ukvlib.load_corpus("C03")
    # directed: a library WITHOUT committed records (the torn tail starts right behind the file header), a long zero-filled
    # first record (what survives of it behind a shorter recovery record parses as blocks), short recovery records
    directed = [
        {"h2": b"", "b0": b"", "committed": [], "session": [(b"alpha", b"\x00" * 60)], "extra": (b"b", b""), "extra2": (b"", b"\x00")},
        {"h2": b"hi", "b0": b"\x00\x01\x02", "committed": [], "session": [(b"", b"\x00" * 40), (b"k", b"v")], "extra": (b"x", b"y"),
         "extra2": (b"zz", b"")},
        {"h2": b"", "b0": b"", "committed": [(b"", b"")], "session": [(b"q", b"\x00" * 50)], "extra": (b"r", b""), "extra2": (b"s", b"\x00\x00")},
    ]
    # directed: libraries larger than one stream buffer made of many small records, at different alignments — a block
    # header that straddles a buffer boundary must be read whole
    for shift in ((0, 5, 9) if ctx.quick() else range(12)):
        big = [(b"K%04d" % j, bytes([j % 251]) * (j % 4)) for j in range(1300)]
        big[0] = (b"K0000" + b"x" * shift, b"")
        directed.append({"h2": b"", "b0": b"", "committed": big, "session": [(b"tail", b"t" * 3)], "extra": (b"e", b""),
                         "extra2": (b"f", b"g"), "oracle_only": True})
    sessions = corpus + directed + [gen_session(ctx.rng, ctx.quick()) for _ in range(nsessions)]

    requests = []   # (line, expected-impl-output, description)
    real_requests = requests
    for si, s in enumerate(sessions):
        ctx.check_deadline()
        # big libraries are judged by the oracle alone: replaying thousands of committed puts per request in the
        # byte-level model costs quadratic time and adds nothing the small sessions do not cover
        requests = [] if s.get("oracle_only") else real_requests
        path = work / f"s{si}.ukv"
        if path.exists():
            path.unlink()
        # committed part
        pre_ops = [f"new 0 w - {hx(s['h2'])} {hx(s['b0'])}"]
        try:
            base, stream = ukvlib.record_session(path, s)
        except Exception as e:  # the real code cannot even run the session
            ctx.disagree("append session raised", ukvlib.session_json(s), f"{type(e).__name__}: {e}", "session of successful puts")
            continue
        pre_ops += [f"put 0 {hx(k)} {hx(v)}" for k, v in s["committed"]] + ["close 0", "new 1 a - - -"]
        # the same history with one more handle (4) that cached the committed library and was closed before the session
        pre_stale = list(pre_ops[:-1]) + ["new 4 r - - -", "close 4", "new 1 a - - -"] + [f"put 1 {hx(k)} {hx(v)}" for k, v in s["session"]]
        pre_ops += [f"put 1 {hx(k)} {hx(v)}" for k, v in s["session"]]
        ops_all = stream
        stream = ukvlib.only_writes(ops_all)
        total = sum(len(d) for _, d in stream)
        if len(ops_all) != len(stream):
            # the session resizes the file besides writing to it (the unchanged put() does not): a death between two such
            # calls leaves a file that is NOT a prefix of the write stream — every such point is judged by the oracle alone
            ctx.count("sessions_with_resizing_calls")
            history0 = dict(s["committed"]) | dict(s["session"])
            for kk in range(len(ops_all) + 1):
                jmax = len(ops_all[kk][1]) if kk < len(ops_all) and ops_all[kk][0] != "truncate" else 1
                for jj in range(jmax):
                    img = ukvlib.apply_ops(base, ops_all, kk, jj)
                    tag = {"session": ukvlib.session_json(s), "death_after_calls": kk, "bytes_of_next_write": jj,
                           "offset": f"call {kk} + {jj} bytes"}
                    ipath = work / "imgx.ukv"
                    ipath.write_bytes(img)
                    obs_r = ukvlib.observe_open(ipath, "r", list(history0.keys()))
                    ukvlib.oracle_crash(ctx, "r", obs_r, dict(s["committed"]), dict(s["session"]), s["session"], tag)
                    ipath.write_bytes(img)
                    obs_a = ukvlib.observe_append(ipath, s["extra"][0], s["extra"][1], list(history0.keys()) + [s["extra"][0]])
                    ukvlib.oracle_append(ctx, obs_a, dict(s["committed"]), s["session"], s["extra"], tag)
                    ctx.count("images_between_resizing_calls")
        ctx.count("sessions")
        ctx.count(f"session_puts={len(s['session'])}")
        history = dict(s["committed"]) | dict(s["session"])
        committed = dict(s["committed"])
        offsets = range(0, total + 1)
        for n in offsets:
            img = ukvlib.apply_stream(base, stream, n)
            tag = {"session": ukvlib.session_json(s), "offset": n, "stream_len": total}
            ctx.case(f"{si}:{n}:{hx(img)[:64]}:{len(img)}", nontrivial=0 < n < total)
            # ---------- (a) reopen read-only ----------
            ipath = work / "img.ukv"
            ipath.write_bytes(img)
            obs_r = ukvlib.observe_open(ipath, "r", list(history.keys()))
            line = ";".join(pre_ops + [f"cut {len(base) + n}", "new 2 r - - -", "keys 2"] +
                            [f"get 2 {hx(k)}" for k in history.keys()])
            requests.append((line, len(pre_ops) + 1, obs_r["outs"], None, {"mode": "r", **tag}))
            ukvlib.oracle_crash(ctx, "r", obs_r, committed, dict(s["session"]), s["session"], tag)
            # ---------- (b) reopen for append, one more put, reread ----------
            ipath.write_bytes(img)
            k2, v2 = s["extra"]
            obs_a = ukvlib.observe_append(ipath, k2, v2, list(history.keys()) + [k2])
            line = ";".join(pre_ops + [f"cut {len(base) + n}", "new 2 a - - -", f"put 2 {hx(k2)} {hx(v2)}", "close 2",
                                       "new 3 r - - -", "keys 3"] + [f"get 3 {hx(k)}" for k in list(history.keys()) + [k2]])
            requests.append((line, len(pre_ops) + 1, obs_a["outs"], obs_a["file"], {"mode": "a+put", **tag}))
            ukvlib.oracle_append(ctx, obs_a, committed, s["session"], (k2, v2), tag)
            # ---------- (b') one long-lived handle: read session on the crashed file, then an append session ----------
            ipath.write_bytes(img)
            obs_ra = ukvlib.observe_read_then_append(ipath, k2, v2, list(history.keys()) + [k2])
            line = ";".join(pre_ops + [f"cut {len(base) + n}", "new 2 r - - -", "close 2", "reopen 2 a", f"put 2 {hx(k2)} {hx(v2)}",
                                       "close 2", "new 3 r - - -", "keys 3"] + [f"get 3 {hx(k)}" for k in list(history.keys()) + [k2]])
            requests.append((line, len(pre_ops) + 1, obs_ra["outs"], obs_ra["file"], {"mode": "r,a+put", **tag}))
            ukvlib.oracle_append(ctx, obs_ra, committed, s["session"], (k2, v2), {"mode": "r,a+put", **tag})
            # ---------- (b'') ONE handle object does the whole recovery (append, reopen r, reopen a, append) ----------
            ipath.write_bytes(img)
            k3, v3 = s["extra2"]
            allk = list(history.keys()) + [k2]
            obs_1 = ukvlib.observe_one_object_recovery(ipath, k2, v2, k3, v3, allk)
            line = ";".join(pre_ops + [f"cut {len(base) + n}", "new 2 a - - -", f"put 2 {hx(k2)} {hx(v2)}", "close 2", "reopen 2 r", "keys 2"] +
                            [f"get 2 {hx(k)}" for k in allk] +
                            ["close 2", "reopen 2 a", f"put 2 {hx(k3)} {hx(v3)}", "close 2", "new 3 r - - -", "keys 3"] +
                            [f"get 3 {hx(k)}" for k in allk + [k3]])
            requests.append((line, len(pre_ops) + 1, obs_1["outs"], obs_1["file"], {"mode": "one-object", **tag}))
            hist2 = dict(s["session"]) | {k2: v2}
            ukvlib.oracle_append(ctx, obs_1, committed, list(hist2.items()), (k3, v3), {"mode": "one-object", **tag})
            # ---------- (b3) a STALE handle (it cached the library before the crashed session) meets the crash image ----------
            obs_s = ukvlib.observe_stale_handle_recovery(ipath, base, img, k2, v2, list(history.keys()))
            line = ";".join(pre_stale + [f"cutkeep {len(base) + n} 1", "reopen 4 r", "keys 4"] + [f"get 4 {hx(k)}" for k in history.keys()] +
                            ["close 4", "reopen 4 a", f"put 4 {hx(k2)} {hx(v2)}", "close 4", "new 3 r - - -", "keys 3"] +
                            [f"get 3 {hx(k)}" for k in allk])
            requests.append((line, len(pre_stale) + 1, obs_s["outs"][2:], obs_s["file"], {"mode": "stale-handle", **tag}))
            ukvlib.oracle_crash(ctx, "stale", {"outs": obs_s["outs"], "listed": obs_s["stale_listed"], "vals": obs_s["stale_vals"]},
                                committed, dict(s["session"]), s["session"], {"mode": "stale-handle", **tag})
            ukvlib.oracle_append(ctx, obs_s, committed, s["session"], (k2, v2), {"mode": "stale-handle", **tag})
            ctx.count("images")
        # ---------- (c) second crash: the recovery session (reopen a + 2 puts) dies at every offset ----------
        sub = [0, total // 2, max(total - 3, 0)] if ctx.quick() else list(range(0, total + 1, max(1, total // 12)))
        for n in sorted(set(sub)):
            img = ukvlib.apply_stream(base, stream, n)
            ipath = work / "img2.ukv"
            ipath.write_bytes(img)
            rec_s = {"h2": b"", "b0": b"", "committed": [], "session": [s["extra"], s["extra2"]]}
            try:
                base2, stream2 = ukvlib.record_session(ipath, rec_s, existing=True)
            except Exception as e:
                ctx.disagree("recovery session raised", {"session": ukvlib.session_json(s), "offset": n}, f"{type(e).__name__}: {e}", "ok")
                continue
            ops2 = stream2
            stream2 = ukvlib.only_writes(ops2)
            if len(ops2) != len(stream2):
                sess_all0 = dict(s["session"]) | {s["extra"][0]: s["extra"][1], s["extra2"][0]: s["extra2"][1]}
                for kk in range(len(ops2) + 1):
                    img2 = ukvlib.apply_ops(base2, ops2, kk, 0)
                    jpath = work / "img3x.ukv"
                    jpath.write_bytes(img2)
                    obs = ukvlib.observe_open(jpath, "r", list(history.keys()) + [s["extra"][0], s["extra2"][0]])
                    ukvlib.oracle_crash(ctx, "second", obs, committed, sess_all0, None,
                                        {"session": ukvlib.session_json(s), "offset": n, "second_death_after_calls": kk})
            total2 = sum(len(d) for _, d in stream2)
            offs2 = sorted(set([0, 3, 6, total2 // 2, total2 - 1, total2])) if ctx.quick() else range(0, total2 + 1)
            for n2 in offs2:
                if n2 < 0 or n2 > total2:
                    continue
                img2 = ukvlib.apply_stream(base2, stream2, n2)
                jpath = work / "img3.ukv"
                jpath.write_bytes(img2)
                allkeys = list(history.keys()) + [s["extra"][0], s["extra2"][0]]
                obs = ukvlib.observe_open(jpath, "r", allkeys)
                tag = {"session": ukvlib.session_json(s), "offset": n, "second_offset": n2}
                ctx.case(f"{si}:{n}:{n2}:second", nontrivial=0 < n2 < total2)
                line = ";".join(pre_ops + [f"cut {len(base) + n}", "new 2 a - - -",
                                           f"put 2 {hx(s['extra'][0])} {hx(s['extra'][1])}",
                                           f"put 2 {hx(s['extra2'][0])} {hx(s['extra2'][1])}",
                                           f"cut {len(base2) + n2}", "new 3 r - - -", "keys 3"] +
                                [f"get 3 {hx(k)}" for k in allkeys])
                requests.append((line, len(pre_ops) + 5, obs["outs"], None, {"mode": "second-crash", **tag}))
                # oracle: committed intact; first-session and recovery records whole or absent
                sess_all = dict(s["session"]) | {s["extra"][0]: s["extra"][1], s["extra2"][0]: s["extra2"][1]}
                ukvlib.oracle_crash(ctx, "second", obs, committed, sess_all, None, tag)
                ctx.count("second_crash_images")
        if si < 2:
            ctx.sample({"session": ukvlib.session_json(s), "stream_bytes": total,
                        "cases": "every offset 0..%d opened r / a+put; second crashes" % total})

    # ---------- model side ----------
    requests = real_requests
    outs = ctx.driver([r[0] for r in requests])
    for (line, skip, impl_outs, impl_file, tag), mout in zip(requests, outs):
        parts = mout.split(";")
        mfile = parts[-1][5:] if parts[-1].startswith("file:") else None
        mouts = parts[skip:-1]
        if mouts != impl_outs:
            ctx.disagree("outcomes after crash differ", tag, impl_outs, mouts)
        elif impl_file is not None and impl_file != mfile:
            ctx.disagree("file bytes after recovery differ", tag, impl_file, mfile)
    ctx.extra_cov["driver_requests"] = len(requests)


def replay(ctx, path):
    import json
    obj = json.loads(Path(path).read_text())
    print(json.dumps(obj, indent=1)[:4000])
    r = obj.get("replay") or {}
    if "session" in r:
        s = ukvlib.session_from_json(r["session"])
        p = ctx.scratch / "replay.ukv"
        base, stream = ukvlib.record_session(p, s)
        img = ukvlib.apply_stream(base, stream, r["offset"])
        p2 = ctx.scratch / "img.ukv"
        p2.write_bytes(img)
        obs = ukvlib.observe_open(p2, "r", [k for k, _ in s["committed"] + s["session"]])
        print("image opened 'r' on the real code:", obs["outs"])
    return 0
