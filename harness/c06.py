"""
C06 — copies are faithful and independent; derived molecules never alter their sources.

Proof:  Molli.Props.C06 (frame, deepCopy_faithful / _separate / _independent_*, concat_*, join_*) about the heap model
        Molli/Model/Heap.lean (every mutable object has an identity; observe / reach / applyMut; the copy routes
        allocate identities from a counter).
Tie:    for every source kind (Promolecule, Connectivity, CartesianGeometry, Structure, Molecule, ConformerEnsemble,
        Conformer) x route (copy constructor, pickle, deepcopy; concatenate and join for Structure / Molecule) the real
        source object graph is encoded with identities (id() at every nesting level), the model route is run by the
        driver, and (i) the canonical observation of the real result is compared with the model's, (ii) the aliasing
        partition result/source of the real objects (id(), np.shares_memory) with the model's.
Oracle: model-free — deep snapshot of the result against the source(s) (fields, charges, attributes, parents, indices),
        the source snapshot before/after the derivation, then EVERY mutable component of one side is mutated (by hand
        and through translate / add_implicit_hydrogens / del_atom) and the other side re-snapshot, both directions.
"""
from __future__ import annotations

import json
import warnings
from pathlib import Path

import numpy as np

from harness import common
from harness import heapobs as H

COPY_ROUTES = ["ctor", "pickle", "deepcopy"]


def component(path: str) -> str:
    path = path.split(" is ")[0].split(" shares ")[0]
    if "attrib" in path:
        return "nested-attrib" if "]" in path.split("attrib", 1)[1] else "attrib"
    if path.startswith("array") or "arrays" in path:
        return "arrays"
    if "parent" in path or "idx" in path:
        return "parent"
    return "fields"


def apply_all(muts):
    done = []
    for name, f in muts:
        try:
            f()
            done.append(name)
        except Exception:
            pass
    return done


def first_culprit(make, victim_snap_fn):
    """re-run: apply the mutations one by one, name the first after which the victim's snapshot changed"""
    try:
        objs = make()
        base = victim_snap_fn(objs)
        for name, f in objs["muts"]:
            try:
                f()
            except Exception:
                continue
            if victim_snap_fn(objs) != base:
                return name
    except Exception:
        pass
    return "?"


# ----------------------------------------------------------------------------------------------------------
# one case of a copy route (ctor / pickle / deepcopy)
# ----------------------------------------------------------------------------------------------------------
def case_copy(ctx, kind, route, case_seed, report=True):
    import molli as ml

    rng = common.Prng(case_seed)
    I, ids = H.Intern(), H.Ids()
    src = H.make_source(rng, kind, ml)
    tag = {"case": "copy", "kind": kind, "route": route, "case_seed": case_seed}
    viol = []
    snap0 = H.snapshot(src)
    own0 = H.snapshot(src._parent) if kind == "Conformer" else None
    enc = H.encode_mol(src, I, ids)
    n = ids.count
    line = f"copy {n} {H.CLS_CODE[kind]} 0 0 - - - {enc}"
    try:
        res = H.route_copy(route, src, ml)
    except Exception as e:
        viol.append(("C06:route-raised", f"{route} of a {kind} raised {type(e).__name__}: {str(e)[:80]}"))
        return line, None, None, viol, tag
    if H.snapshot(src) != snap0:
        viol.append(("C06:source-changed-by-derivation", f"{route} of a {kind} changed its source"))
    try:
        obs = H.obs_string(res, I)
        shared = H.shared_paths(res, [src])
        H.snapshot(res)
    except Exception as e:
        viol.append(("C06:copy-unusable", f"{route} of a {kind}: inspecting the result raised {type(e).__name__}: {str(e)[:80]}"))
        return line, None, None, viol, tag
    # ---- faithful
    d = H.snap_diff(snap0, H.snapshot(res))
    if d:
        viol.append((f"C06:copy-differs-from-source:{component(d[0])}", f"{route} of a {kind}: result differs from the source in {d[:4]}"))
    if shared:
        viol.append((f"C06:copy-shares-state:{component(shared[0])}", f"{route} of a {kind}: {shared[:3]} ({len(shared)} shared objects)"))
    # ---- independence, both directions
    base_res = H.snapshot(res)
    done = apply_all(H.mutations(res, ml))
    d = H.snap_diff(snap0, H.snapshot(src))
    if own0 is not None and not d:
        d = H.snap_diff(own0, H.snapshot(src._parent))
    if d:
        viol.append((f"C06:source-changed-by-editing-copy:{component(d[0])}",
                     f"{route} of a {kind}: editing the copy changed the source in {d[:3]}"))
    base_res = H.snapshot(res)
    apply_all(H.mutations(src, ml))
    if kind == "Conformer":
        apply_all(H.mutations(src._parent, ml))
    d = H.snap_diff(base_res, H.snapshot(res))
    if d:
        viol.append((f"C06:copy-changed-by-editing-source:{component(d[0])}",
                     f"{route} of a {kind}: editing the source changed the copy in {d[:3]}"))
    ctx.count("mutations_applied", len(done))
    return line, obs, shared, viol, tag


# ----------------------------------------------------------------------------------------------------------
# concatenate / join
# ----------------------------------------------------------------------------------------------------------
def expected_concat(s1, s2):
    n1 = len(s1["atoms"])
    atoms = [a[:10] + (i,) for i, a in enumerate([*s1["atoms"], *s2["atoms"]])]
    bonds = list(s1["bonds"]) + [(b[0] + n1, b[1] + n1) + b[2:] for b in s2["bonds"]]
    arrays = []
    for (dt1, sh1, v1), (dt2, sh2, v2) in zip(s1["arrays"], s2["arrays"]):
        arrays.append((dt1, (sh1[0] + sh2[0],) + tuple(sh1[1:]), v1 + v2))
    return {"atoms": atoms, "bonds": bonds, "arrays": arrays, "charge": s1["charge"] + s2["charge"],
            "mult": s1["mult"] + s2["mult"] - 1}


def expected_join(s1, s2, i1, i2):
    n1 = len(s1["atoms"])
    keep1 = [i for i in range(n1) if i != i1]
    keep2 = [i for i in range(len(s2["atoms"])) if i != i2]
    m1 = {old: new for new, old in enumerate(keep1)}
    m2 = {old: new + len(keep1) for new, old in enumerate(keep2)}
    atoms = [s1["atoms"][i] for i in keep1] + [s2["atoms"][i] for i in keep2]
    atoms = [a[:10] + (k,) for k, a in enumerate(atoms)]
    bonds = [(m1[b[0]], m1[b[1]]) + b[2:] for b in s1["bonds"] if i1 not in b[:2]]
    bonds += [(m2[b[0]], m2[b[1]]) + b[2:] for b in s2["bonds"] if i2 not in b[:2]]
    p1 = next((b[1] if b[0] == i1 else b[0]) for b in s1["bonds"] if i1 in b[:2])
    p2 = next((b[1] if b[0] == i2 else b[0]) for b in s2["bonds"] if i2 in b[:2])
    charges = None
    if len(s1["arrays"]) > 1 and len(s2["arrays"]) > 1:
        v = [s1["arrays"][1][2][i] for i in keep1] + [s2["arrays"][1][2][i] for i in keep2]
        charges = (s1["arrays"][1][0], (len(v),), v)
    return {"atoms": atoms, "bonds": bonds, "newbond": (m1[p1], m2[p2]), "charges": charges}


def case_derive(ctx, what, kind, case_seed, same=False):
    import molli as ml

    rng = common.Prng(case_seed)
    I, ids = H.Intern(), H.Ids()
    cls = getattr(ml, kind)
    ap = what == "join"
    s1 = H.make_source(rng, kind, ml, ap=ap)
    s2 = s1 if same else H.make_source(rng, kind, ml, ap=ap)
    srcs = [s1] if same else [s1, s2]
    tag = {"case": what, "kind": kind, "case_seed": case_seed, "same": same}
    viol = []
    sn1, sn2 = H.snapshot(s1), H.snapshot(s2)
    enc = " ".join(H.encode_mol(s, I, ids) for s in (s1, s2))
    n = ids.count
    i1, i2 = s1.n_atoms - 1, s2.n_atoms - 1
    try:
        with warnings.catch_warnings():
            warnings.simplefilter("ignore")
            if what == "concat":
                res = cls.concatenate(s1, s2) if rng.below(2) or kind != "Structure" else (s1 | s2)
            else:
                res = cls.join(s1, s2, s1.atoms[i1], s2.atoms[i2], name=rng.choice([None, "prod"]))
    except Exception as e:
        viol.append(("C06:route-raised", f"{what} of two {kind} raised {type(e).__name__}: {str(e)[:80]}"))
        return None, None, None, viol, tag
    if H.snapshot(s1) != sn1 or H.snapshot(s2) != sn2:
        viol.append(("C06:source-changed-by-derivation", f"{what} of two {kind} changed a source"))
    if what == "concat":
        line = f"concat {n} {H.CLS_CODE[H.clsname(res)]} 0 0 - - - {enc}"
    else:
        sc = H._ints(H.scalars_of(res, I))
        bf = H._ints(H.bond_fields(res.bonds[-1], I)) if len(res.bonds) else "-"
        co = H._ints(H.array_codes(res.coords, I))
        line = f"join {n} {H.CLS_CODE[H.clsname(res)]} {i1} {i2} {sc} {bf} {co} {enc}"
    obs = H.obs_string(res, I)
    shared = H.shared_paths(res, srcs)
    rs = H.snapshot(res)
    # ---- faithful (model-free expectation from the snapshots of the sources)
    if True:
        if what == "concat":
            exp = expected_concat(sn1, sn2)
            for k in ("atoms", "bonds", "arrays", "charge", "mult"):
                if k == "arrays":
                    got = [(a[0], tuple(a[1]), a[2]) for a in rs["arrays"]]
                    want = [(a[0], tuple(a[1]), a[2]) for a in exp["arrays"]]
                    bad = got != want
                else:
                    bad = rs[k] != exp[k]
                if bad:
                    sub = "arrays" if k == "arrays" else component(H.snap_diff({k: exp[k]}, {k: rs[k]})[0] if k in ("atoms", "bonds") else k)
                    viol.append((f"C06:product-differs-from-sources:{sub}", f"concatenate of two {kind}: {k} of the result are not those of the sources"))
                    break
        else:
            exp = expected_join(sn1, sn2, i1, i2)
            if rs["atoms"] != exp["atoms"]:
                dd = H.snap_diff({"atoms": exp["atoms"]}, {"atoms": rs["atoms"]})
                viol.append((f"C06:product-differs-from-sources:{component(dd[0])}", f"join of two {kind}: atoms differ: {dd[:3]}"))
            elif rs["bonds"][:-1] != exp["bonds"] or rs["bonds"][-1][:2] != exp["newbond"]:
                viol.append(("C06:product-differs-from-sources:fields", f"join of two {kind}: bonds of the result are not those of the sources"))
            elif exp["charges"] is not None and (len(rs["arrays"]) < 2 or tuple(rs["arrays"][1][2]) != tuple(exp["charges"][2])):
                viol.append(("C06:product-differs-from-sources:arrays", f"join of two {kind}: partial charges of the result are not those of the sources"))
    if shared:
        viol.append((f"C06:copy-shares-state:{component(shared[0])}", f"{what} of two {kind}: {shared[:3]} ({len(shared)} shared objects)"))
    # ---- independence
    apply_all(H.mutations(res, ml))
    d = H.snap_diff(sn1, H.snapshot(s1)) or H.snap_diff(sn2, H.snapshot(s2))
    if d:
        viol.append((f"C06:source-changed-by-editing-copy:{component(d[0])}", f"{what} of two {kind}: editing the product changed a source in {d[:3]}"))
    base = H.snapshot(res)
    for s in srcs:
        apply_all(H.mutations(s, ml))
    d = H.snap_diff(base, H.snapshot(res))
    if d:
        viol.append((f"C06:copy-changed-by-editing-source:{component(d[0])}", f"{what} of two {kind}: editing a source changed the product in {d[:3]}"))
    return line, obs, shared, viol, tag


# ----------------------------------------------------------------------------------------------------------
def run(ctx):
    import molli as ml  # noqa: F401

    ctx.rule = ("random source objects (1..6 atoms, random bonds, elements, labels, isotopes, formal charges, nested attribute "
                "dictionaries on molecule / atoms / bonds up to depth 3, coordinates, partial charges, weights; 12% dendrobine) of "
                "each of the 7 kinds x {copy constructor, pickle, deepcopy}; Structure and Molecule pairs x {concatenate, |, join "
                "(fragments with an attachment point)}, plus concatenate(s, s). Per case: observation and aliasing compared with the "
                "model, snapshot oracle, then every mutable component of one side is mutated and the other re-inspected, both ways. "
                "Non-trivial: the source has at least one nested attribute container or at least one bond; distinct by (kind, route, source).")
    ctx.assumptions += [
        "CPython object model (identity, reference semantics, pickle memo) is modelled, not verified",
        "arrays are compared exactly (bit patterns); the coordinates of a join product are geometry (property C12) and are not compared",
        "molecule-level attributes and the name of a concatenate / join product are not claimed (the routes do not carry them)",
    ]
    ctx.proof(props=["Molli.Props.C06"])

    cases = []   # (line, obs, shared, tag)
    seen = set()
    reps = 40 if ctx.quick() else 1200
    plan = []
    cdir = common.VERIF / "corpus" / "C06"
    for p in sorted(cdir.glob("*.json")) if cdir.exists() else []:
        plan += [("corpus", t) for t in json.loads(p.read_text())]
    for _ in range(reps):
        for kind in H.KINDS:
            for route in COPY_ROUTES:
                plan.append(("rand", {"case": "copy", "kind": kind, "route": route, "case_seed": ctx.rng.next() >> 16}))
        for kind in ("Structure", "Molecule"):
            for what in ("concat", "join"):
                plan.append(("rand", {"case": what, "kind": kind, "case_seed": ctx.rng.next() >> 16, "same": False}))
        plan.append(("rand", {"case": "concat", "kind": ctx.rng.choice(["Structure", "Molecule"]), "case_seed": ctx.rng.next() >> 16, "same": True}))

    for src, t in plan:
        ctx.check_deadline()
        if t["case"] == "copy":
            line, obs, shared, viol, tag = case_copy(ctx, t["kind"], t["route"], t["case_seed"])
        else:
            line, obs, shared, viol, tag = case_derive(ctx, t["case"], t["kind"], t["case_seed"], t.get("same", False))
        nontrivial = bool(line) and ("c." in line or ("+" in line))
        ctx.case(json.dumps(tag, sort_keys=True) + (line or ""), nontrivial=nontrivial)
        ctx.count(f"source={src}")
        ctx.count(f"kind={t['kind']}")
        ctx.count(f"route={t.get('route', t['case'])}")
        for k, what in viol:
            ctx.count(f"violation={k}")
            if k not in seen:
                seen.add(k)
                ctx.violation(k, what, tag)
        if line is not None and obs is not None:
            cases.append((line, obs, shared, tag))
        if len(ctx.samples) < 3 and nontrivial:
            ctx.sample({"case": tag, "request": (line or "")[:500]})

    outs = ctx.driver([c[0] for c in cases])
    for (line, obs, shared, tag), mout in zip(cases, outs):
        parts = dict(p.split("=", 1) for p in mout.split("#")) if "#" in mout else {}
        if not parts:
            ctx.disagree("driver rejected the request", tag, line[:300], mout)
            continue
        if parts.get("below") != "1":
            ctx.disagree("encoding error: a source identity is not below the counter", tag, line[:300], mout)
        if parts["obs"] != obs:
            ctx.disagree("observation of the result differs", tag, obs, parts["obs"])
        elif str(len(shared)) != parts["shared"]:
            ctx.disagree("aliasing with the source differs", tag, shared[:5], parts["shared"])
    ctx.extra_cov["driver_requests"] = len(cases)


def replay(ctx, path):
    obj = json.loads(Path(path).read_text())
    print(json.dumps(obj, indent=1)[:2500])
    t = obj.get("replay") or obj
    if "case" not in t:
        return 0
    if t["case"] == "copy":
        _, obs, shared, viol, _ = case_copy(ctx, t["kind"], t["route"], t["case_seed"])
    else:
        _, obs, shared, viol, _ = case_derive(ctx, t["case"], t["kind"], t["case_seed"], t.get("same", False))
    print("violations on the real code:", viol)
    print("shared objects:", shared)
    return 1 if viol else 0
