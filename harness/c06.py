"""
C06 — copies are faithful and independent; derived molecules never alter their sources.

Proof:  Molli.Props.C06 (frame, deepCopy_faithful / _separate / _independent_*, concat_*, join_*) about the heap model
        Molli/Model/Heap.lean (every mutable object has an identity; observe / reach / applyMut; the copy routes
        allocate identities from a counter).
Tie:    for every source kind (Promolecule, Connectivity, CartesianGeometry, Structure, Molecule, ConformerEnsemble,
        Conformer) x route (copy constructor, pickle, deepcopy; concatenate and join for Structure / Molecule) the real
        source object graph is encoded with identities (id() at every nesting level), the model route is run by the
        driver, and (i) the canonical observation of the real result is compared with the model's, (ii) the aliasing
        partition result/source of the real objects (id(), np.shares_memory) with the model's.
Oracle: model-free — deep snapshot of the result against the source(s) (fields, charges, attributes, parents, indices),
        the source snapshot before/after the derivation, then EVERY mutable component of one side is mutated (by hand
        and through translate / add_implicit_hydrogens / del_atom) and the other side re-snapshot, both directions.
"""
from __future__ import annotations

import json
import warnings
from pathlib import Path

import numpy as np

from harness import common
from harness import heapobs as H

COPY_ROUTES = ["ctor", "pickle", "deepcopy"]


def component(path: str) -> str:
    path = path.split(" is ")[0].split(" shares ")[0]
    if "attrib" in path:
        return "nested-attrib" if "]" in path.split("attrib", 1)[1] else "attrib"
    if path.startswith("array") or "arrays" in path:
        return "arrays"
    if "parent" in path or "idx" in path:
        return "parent"
    return "fields"


def apply_all(muts):
    done = []
    for name, f in muts:
        try:
            f()
            done.append(name)
        except Exception:
            pass
    return done


def first_culprit(make, victim_snap_fn):
    """re-run: apply the mutations one by one, name the first after which the victim's snapshot changed"""
    try:
        objs = make()
        base = victim_snap_fn(objs)
        for name, f in objs["muts"]:
            try:
                f()
            except Exception:
                continue
            if victim_snap_fn(objs) != base:
                return name
    except Exception:
        pass
    return "?"


# ----------------------------------------------------------------------------------------------------------
# checks common to every route once the result exists
# ----------------------------------------------------------------------------------------------------------
def independence(ctx, viol, label, res, sources, owners, ml):
    """mutate every mutable component of the result, re-inspect the sources (and the ensembles they are views of);
    then mutate the sources and re-inspect the result"""
    base_src = [H.snapshot(s) for s in sources]
    base_own = [H.snapshot(o) for o in owners]
    done = apply_all(H.mutations(res, ml))
    d = []
    for b, s in zip(base_src + base_own, list(sources) + list(owners)):
        d = d or H.snap_diff(b, H.snapshot(s))
    if d:
        viol.append((f"C06:source-changed-by-editing-copy:{component(d[0])}", f"{label}: editing the result changed a source in {d[:3]}"))
    base_res = H.snapshot(res)
    seen = set()
    for s in list(sources) + list(owners):
        if id(s) not in seen:
            seen.add(id(s))
            apply_all(H.mutations(s, ml))
    d = H.snap_diff(base_res, H.snapshot(res))
    if d:
        viol.append((f"C06:copy-changed-by-editing-source:{component(d[0])}", f"{label}: editing a source changed the result in {d[:3]}"))
    ctx.count("mutations_applied", len(done))


# ----------------------------------------------------------------------------------------------------------
# one case of a plain copy route (ctor / pickle / deepcopy / copy.copy)
# ----------------------------------------------------------------------------------------------------------
def case_copy(ctx, kind, route, case_seed, report=True):
    import copy as _copy
    import pickle as _pickle

    import molli as ml

    rng = common.Prng(case_seed)
    I, ids = H.Intern(), H.Ids()
    src = H.make_source(rng, kind, ml)
    tag = {"case": "copy", "kind": kind, "route": route, "case_seed": case_seed}
    label = f"{route} of a {kind}"
    viol = []
    snap0 = H.snapshot(src)
    own0 = H.snapshot(src._parent) if kind == "Conformer" else None
    hid0 = H.hidden_state(src)
    enc = H.encode_mol(src, I, ids)
    n = ids.count
    line = f"copy {n} {H.CLS_CODE[kind]} 0 0 - - - {enc}"
    try:
        if route == "pickle":
            res = _pickle.loads(_pickle.dumps(src, protocol=rng.range(2, _pickle.HIGHEST_PROTOCOL)))
        elif route == "shallow":
            res = _copy.copy(src)
        else:
            res = H.route_copy(route, src, ml)
    except Exception as e:
        viol.append(("C06:route-raised", f"{label} raised {type(e).__name__}: {str(e)[:80]}"))
        return line, None, None, viol, tag
    hd = H.hidden_diff(hid0, H.hidden_state(src)) if route != "shallow" else ""
    if hd:
        viol.append(("C06:derivation-left-state-in-source", f"{label} left something in its source: {hd}"))
    ownerless = any(not a[9] for a in snap0["atoms"]) or any(not b[7] for b in snap0["bonds"])
    if route == "shallow" and ownerless:
        # atoms without a live owner: which of the objects that share them they name as parent is not defined
        # (a shallow copy shares the atoms by definition); everything else must be untouched
        def mask(sn):
            d = dict(sn)
            d["atoms"] = [a[:9] for a in sn["atoms"]]
            d["bonds"] = [b[:7] for b in sn["bonds"]]
            return d
        if mask(H.snapshot(src)) != mask(snap0):
            viol.append(("C06:source-changed-by-derivation", f"{label} changed its (ownerless) source"))
        return None, None, None, viol, tag
    if H.snapshot(src) != snap0 or (own0 is not None and H.snapshot(src._parent) != own0):
        d = H.snap_diff(snap0, H.snapshot(src))
        viol.append(("C06:source-changed-by-derivation", f"{label} changed its source in {d[:3]}"))
    if route == "shallow":
        # copy.copy is a shallow copy by definition (it shares everything); the only claim is that making it leaves the source alone,
        # also after the shallow copy is gone
        del res
        import gc
        gc.collect()
        d = H.snap_diff(snap0, H.snapshot(src))
        if d:
            viol.append(("C06:source-changed-by-derivation", f"{label}: after the shallow copy was dropped the source differs in {d[:3]}"))
        return None, None, None, viol, tag
    try:
        obs = H.obs_string(res, I)
        shared = H.shared_paths(res, [src])
        H.snapshot(res)
    except Exception as e:
        viol.append(("C06:copy-unusable", f"{label}: inspecting the result raised {type(e).__name__}: {str(e)[:80]}"))
        return line, None, None, viol, tag
    # ---- faithful
    d = H.snap_diff(H.owned(snap0), H.snapshot(res))
    if d:
        viol.append((f"C06:copy-differs-from-source:{component(d[0])}", f"{label}: result differs from the source in {d[:4]}"))
    if shared:
        viol.append((f"C06:copy-shares-state:{component(shared[0])}", f"{label}: {shared[:3]} ({len(shared)} shared objects)"))
    independence(ctx, viol, label, res, [src], [src._parent] if kind == "Conformer" else [], ml)
    return line, obs, shared, viol, tag


# ----------------------------------------------------------------------------------------------------------
# copy constructors of any class, with keyword overrides; from a list of atoms; ensemble from a list of structures
# ----------------------------------------------------------------------------------------------------------
def case_copyas(ctx, kind, target, mode, case_seed, keywords=None):
    """mode: kw (same class, 1..2 keywords) | cast (another class, 0..1 keywords) | atoms (Cls(list of atoms, copy_atoms=True))
             | enslist (ConformerEnsemble([molecules]))"""
    import molli as ml

    rng = common.Prng(case_seed)
    I, ids = H.Intern(), H.Ids()
    tag = {"case": "copyas", "kind": kind, "target": target, "mode": mode, "case_seed": case_seed}
    viol = []
    src = H.make_source(rng, kind, ml)
    sources, owners = [src], ([src._parent] if kind == "Conformer" else [])
    if mode == "enslist":
        # conformers of one molecule: copies of it with their own coordinates and charges
        k = rng.range(1, 3)
        sources = [src]
        for _ in range(k - 1):
            m = ml.Molecule(src)
            m.coords = H.rand_coords(rng, (src.n_atoms, 3))
            m.atomic_charges = H.rand_coords(rng, (src.n_atoms,))
            sources.append(m)
    snaps0 = [H.snapshot(s) for s in sources]
    own0 = [H.snapshot(o) for o in owners]
    hids0 = [H.hidden_state(s) for s in sources]
    src_k = src.n_conformers if kind == "ConformerEnsemble" else None
    if keywords is not None:
        kw = H.make_keywords(rng, keywords)
    elif mode == "kw":
        kw = {}
        while not kw:
            kw = H.random_keywords(rng, target, [], 2)
    elif mode == "cast":
        kw = H.random_keywords(rng, target, [], 1)
    elif mode == "atoms":
        kw = H.random_keywords(rng, target, [], 1)
        kw["copy_atoms"] = True
        kw.pop("n_atoms", None)
    else:
        kw = {}
    eff_kind = "Promolecule" if mode == "atoms" else kind
    shapes = H.target_shapes(eff_kind, target, src.n_atoms, src_k, kw)
    H.fill_array_keywords(rng, kw, shapes)
    label = f"{target}({'list of atoms of a ' if mode == 'atoms' else ''}{'list of ' if mode == 'enslist' else ''}{kind}" + \
            "".join(f", {k}=…" for k in kw) + ")"
    tag["keywords"] = sorted(kw)
    # ---- request for the model (the source is encoded before the call)
    if mode == "atoms":
        enc = H.encode_atoms_only(src, I, ids)
    else:
        enc = H.encode_mol(src, I, ids)
    if mode == "enslist":
        kwm = {"coords": np.array([s.coords for s in sources]), "atomic_charges": np.array([s.atomic_charges for s in sources])}
        shapes = [(len(sources), src.n_atoms, 3), (len(sources), src.n_atoms), (len(sources),)]
    else:
        kwm = kw
    sc, at, arrs, fills = H.override_tokens(kwm, target, shapes, I, ids)
    n = ids.count
    line = f"copyas {n} {H.CLS_CODE[target]} {sc} {at} {arrs} {fills} - {enc}"
    # ---- the real call
    cls = getattr(ml, target)
    try:
        if mode == "atoms":
            res = cls(list(src.atoms), **kw)
        elif mode == "enslist":
            res = cls(list(sources))
        else:
            res = cls(src, **kw)
    except Exception as e:
        viol.append(("C06:route-raised", f"{label} raised {type(e).__name__}: {str(e)[:80]}"))
        return line, None, None, viol, tag
    for s0, s in zip(snaps0 + own0, sources + owners):
        d = H.snap_diff(s0, H.snapshot(s))
        if d:
            viol.append((f"C06:source-changed-by-derivation", f"{label} changed its source in {d[:3]}"))
            break
    for h0, s in zip(hids0, sources):
        hd = H.hidden_diff(h0, H.hidden_state(s))
        if hd:
            viol.append(("C06:derivation-left-state-in-source", f"{label} left something in its source: {hd}"))
            break
    try:
        obs = H.obs_string(res, I)
        shared = H.shared_paths(res, sources)
        rs = H.snapshot(res)
    except Exception as e:
        viol.append(("C06:copy-unusable", f"{label}: inspecting the result raised {type(e).__name__}: {str(e)[:80]}"))
        return line, None, None, viol, tag
    # ---- faithful: what the classes have in common is that of the source, the overrides are what was passed
    if mode == "atoms":
        base = {"cls": target, "name": "unknown", "charge": 0, "mult": 1, "attrib": {}, "atoms": snaps0[0]["atoms"], "bonds": [], "arrays": []}
        exp = H.expected_cast(H.owned(base), "Promolecule", target, kw, shapes)
    else:
        exp = H.expected_cast(H.owned(snaps0[0]), kind, target, kwm, shapes)
    d = H.snap_diff(exp, rs)
    if d:
        viol.append((f"C06:copy-differs-from-source:{component(d[0])}", f"{label}: result is not the source with the overrides applied: {d[:4]}"))
    if shared:
        viol.append((f"C06:copy-shares-state:{component(shared[0])}", f"{label}: {shared[:3]} ({len(shared)} shared objects)"))
    independence(ctx, viol, label, res, sources, owners, ml)
    return line, obs, shared, viol, tag


# ----------------------------------------------------------------------------------------------------------
# concatenate / join
# ----------------------------------------------------------------------------------------------------------
def expected_concat(snaps):
    atoms, bonds, off = [], [], 0
    for sn in map(H.owned, snaps):
        atoms += list(sn["atoms"])
        bonds += [(b[0] + off, b[1] + off) + b[2:] for b in sn["bonds"]]
        off += len(sn["atoms"])
    atoms = [a[:10] + (i,) for i, a in enumerate(atoms)]
    nslots = min(len(sn["arrays"]) for sn in snaps)
    arrays = []
    for j in range(nslots):
        dt, sh = snaps[0]["arrays"][j][0], snaps[0]["arrays"][j][1]
        vals = [v for sn in snaps for v in sn["arrays"][j][2]]
        arrays.append((dt, (sum(sn["arrays"][j][1][0] for sn in snaps),) + tuple(sh[1:]), vals))
    return {"atoms": atoms, "bonds": bonds, "arrays": arrays, "charge": sum(sn["charge"] for sn in snaps),
            "mult": sum(sn["mult"] for sn in snaps) - 1}


def expected_join(s1, s2, i1, i2):
    s1, s2 = H.owned(s1), H.owned(s2)
    n1 = len(s1["atoms"])
    keep1 = [i for i in range(n1) if i != i1]
    keep2 = [i for i in range(len(s2["atoms"])) if i != i2]
    m1 = {old: new for new, old in enumerate(keep1)}
    m2 = {old: new + len(keep1) for new, old in enumerate(keep2)}
    atoms = [s1["atoms"][i] for i in keep1] + [s2["atoms"][i] for i in keep2]
    atoms = [a[:10] + (k,) for k, a in enumerate(atoms)]
    bonds = [(m1[b[0]], m1[b[1]]) + b[2:] for b in s1["bonds"] if i1 not in b[:2]]
    bonds += [(m2[b[0]], m2[b[1]]) + b[2:] for b in s2["bonds"] if i2 not in b[:2]]
    p1 = next((b[1] if b[0] == i1 else b[0]) for b in s1["bonds"] if i1 in b[:2])
    p2 = next((b[1] if b[0] == i2 else b[0]) for b in s2["bonds"] if i2 in b[:2])
    charges = None
    if len(s1["arrays"]) > 1 and len(s2["arrays"]) > 1:
        v = [s1["arrays"][1][2][i] for i in keep1] + [s2["arrays"][1][2][i] for i in keep2]
        charges = (s1["arrays"][1][0], (len(v),), v)
    return {"atoms": atoms, "bonds": bonds, "newbond": (m1[p1], m2[p2]), "charges": charges}


def case_concat(ctx, kind, case_seed, pattern=None):
    """cls.concatenate(*operands): 1..4 operands drawn (with repetition) from a pool of distinct sources; `a | b` for two"""
    import molli as ml

    rng = common.Prng(case_seed)
    I, ids = H.Intern(), H.Ids()
    cls = getattr(ml, kind)
    if pattern is None:
        nops = rng.weighted([(1, 2), (2, 3), (3, 4), (4, 3)])
        pool_n = rng.range(1, nops)
        pattern = [rng.below(pool_n) for _ in range(nops)]
    operand_kinds = ["Molecule", "Conformer"] if kind == "Molecule" else ["Structure", "Structure", "Molecule", "Conformer"]
    pool = []
    for _ in range(max(pattern) + 1):
        k = kind if rng.below(100) < 70 else rng.choice(operand_kinds)
        pool.append(H.make_source(rng, k, ml))
    ops = [pool[i] for i in pattern]
    owners = [p._parent for p in pool if H.clsname(p) == "Conformer"]
    tag = {"case": "concat", "kind": kind, "case_seed": case_seed, "pattern": pattern}
    label = f"{kind}.concatenate of {len(ops)} operands {pattern}"
    viol = []
    snaps = [H.snapshot(o) for o in ops]
    own0 = [H.snapshot(o) for o in owners]
    hids0 = [H.hidden_state(o) for o in pool]
    enc = " ".join(H.encode_mol(o, I, ids) for o in ops)
    n = ids.count
    use_or = len(ops) == 2 and kind == "Structure" and rng.below(2) == 0
    try:
        with warnings.catch_warnings():
            warnings.simplefilter("ignore")
            res = (ops[0] | ops[1]) if use_or else cls.concatenate(*ops)
    except Exception as e:
        viol.append(("C06:route-raised", f"{label} raised {type(e).__name__}: {str(e)[:80]}"))
        return None, None, None, viol, tag
    if any(H.snapshot(o) != sn for o, sn in zip(ops + owners, snaps + own0)):
        viol.append(("C06:source-changed-by-derivation", f"{label} changed a source"))
    for h0, o in zip(hids0, pool):
        hd = H.hidden_diff(h0, H.hidden_state(o))
        if hd:
            viol.append(("C06:derivation-left-state-in-source", f"{label} left something in a source: {hd}"))
            break
    line = f"concat {n} {H.CLS_CODE[H.clsname(res)]} 0 0 - - - {enc}"
    obs = H.obs_string(res, I)
    shared = H.shared_paths(res, pool)
    rs = H.snapshot(res)
    exp = expected_concat(snaps)
    exp["arrays"] = exp["arrays"][: H.SLOTS[H.clsname(res)]]
    for k in ("atoms", "bonds", "arrays", "charge", "mult"):
        if k == "arrays":
            bad = [(a[0], tuple(a[1]), a[2]) for a in rs["arrays"]] != [(a[0], tuple(a[1]), a[2]) for a in exp["arrays"]]
        else:
            bad = rs[k] != exp[k]
        if bad:
            sub = "arrays" if k == "arrays" else component(H.snap_diff({k: exp[k]}, {k: rs[k]})[0] if k in ("atoms", "bonds") else k)
            viol.append((f"C06:product-differs-from-sources:{sub}", f"{label}: {k} of the result are not those of the sources"))
            break
    if shared:
        viol.append((f"C06:copy-shares-state:{component(shared[0])}", f"{label}: {shared[:3]} ({len(shared)} shared objects)"))
    independence(ctx, viol, label, res, pool, owners, ml)
    return line, obs, shared, viol, tag


def case_join(ctx, kind, case_seed):
    import molli as ml

    rng = common.Prng(case_seed)
    I, ids = H.Intern(), H.Ids()
    cls = getattr(ml, kind)
    s1 = H.make_source(rng, kind, ml, ap=True)
    s2 = H.make_source(rng, kind, ml, ap=True)
    tag = {"case": "join", "kind": kind, "case_seed": case_seed}
    viol = []
    sn1, sn2 = H.snapshot(s1), H.snapshot(s2)
    enc = " ".join(H.encode_mol(s, I, ids) for s in (s1, s2))
    n = ids.count
    i1, i2 = s1.n_atoms - 1, s2.n_atoms - 1
    # every keyword of join, the attachment points addressed as object, index or (unique) label
    kw = {}
    for k, vals in (("name", [None, "prod"]), ("dist", [None, 1.25]), ("optimize_rotation", [False, False, True]),
                    ("charge", [None, 0, 2]), ("mult", [None, 3]), ("btype", [None, ml.BondType.Double]),
                    ("bstereo", [None, ml.BondStereo.E]), ("bforder", [None, 1.5])):
        v = rng.choice(vals)
        if v is not None and rng.below(2):
            kw[k] = v
    s1.atoms[i1].label, s2.atoms[i2].label = "AP_one", "AP_two"
    sn1, sn2 = H.snapshot(s1), H.snapshot(s2)
    enc = " ".join(H.encode_mol(s, I, ids) for s in (s1, s2))
    n = ids.count
    hids0 = [H.hidden_state(s1), H.hidden_state(s2)]
    how = rng.choice(["object", "index", "label"])
    a1, a2 = {"object": (s1.atoms[i1], s2.atoms[i2]), "index": (i1, i2), "label": ("AP_one", "AP_two")}[how]
    label = f"{kind}.join (attachment points by {how}" + "".join(f", {k}=…" for k in kw) + ")"
    tag["keywords"] = sorted(kw) + [how]
    try:
        with warnings.catch_warnings():
            warnings.simplefilter("ignore")
            res = cls.join(s1, s2, a1, a2, **kw)
    except Exception as e:
        viol.append(("C06:route-raised", f"{label} raised {type(e).__name__}: {str(e)[:80]}"))
        return None, None, None, viol, tag
    if H.snapshot(s1) != sn1 or H.snapshot(s2) != sn2:
        viol.append(("C06:source-changed-by-derivation", f"{label} changed a source"))
    for h0, o in zip(hids0, (s1, s2)):
        hd = H.hidden_diff(h0, H.hidden_state(o))
        if hd:
            viol.append(("C06:derivation-left-state-in-source", f"{label} left something in a source: {hd}"))
            break
    sc = H._ints(H.scalars_of(res, I))
    bf = H._ints(H.bond_fields(res.bonds[-1], I)) if len(res.bonds) else "-"
    co = H._ints(H.array_codes(res.coords, I))
    line = f"join {n} {H.CLS_CODE[H.clsname(res)]} {i1} {i2} {sc} {bf} {co} {enc}"
    obs = H.obs_string(res, I)
    shared = H.shared_paths(res, [s1, s2])
    rs = H.snapshot(res)
    exp = expected_join(sn1, sn2, i1, i2)
    if rs["atoms"] != exp["atoms"]:
        dd = H.snap_diff({"atoms": exp["atoms"]}, {"atoms": rs["atoms"]})
        viol.append((f"C06:product-differs-from-sources:{component(dd[0])}", f"{label}: atoms differ: {dd[:3]}"))
    elif rs["bonds"][:-1] != exp["bonds"] or rs["bonds"][-1][:2] != exp["newbond"]:
        viol.append(("C06:product-differs-from-sources:fields", f"{label}: bonds of the result are not those of the sources"))
    elif exp["charges"] is not None and (len(rs["arrays"]) < 2 or tuple(rs["arrays"][1][2]) != tuple(exp["charges"][2])):
        viol.append(("C06:product-differs-from-sources:arrays", f"{label}: partial charges of the result are not those of the sources"))
    if shared:
        viol.append((f"C06:copy-shares-state:{component(shared[0])}", f"{label}: {shared[:3]} ({len(shared)} shared objects)"))
    independence(ctx, viol, label, res, [s1, s2], [], ml)
    return line, obs, shared, viol, tag


def case_parts(ctx, kind, case_seed):
    """copies of single atoms and bonds: evolve() (with and without changes), deepcopy, pickle — oracle only"""
    import copy as _copy
    import pickle as _pickle

    import molli as ml

    rng = common.Prng(case_seed)
    src = H.make_source(rng, kind, ml)
    tag = {"case": "parts", "kind": kind, "case_seed": case_seed}
    viol = []
    snap0 = H.snapshot(src)
    parts = [("atom", rng.choice(list(src.atoms)))] if src.n_atoms else []
    if H.has_bonds(src) and len(src.bonds):
        parts.append(("bond", rng.choice(list(src.bonds))))
    for what, x in parts:
        x.attrib = {"p": [1, {"q": 2}], "r": 3}
        fields = (lambda a: H.atom_fields(a, H.Intern())) if what == "atom" else (lambda b: H.bond_fields(b, H.Intern()))
        base_attr = _copy.deepcopy(x.attrib)
        snap0 = H.snapshot(src)
        for route, f in (("evolve()", lambda: x.evolve()), ("evolve(label=…)", lambda: x.evolve(label="changed")),
                         ("deepcopy", lambda: _copy.deepcopy(x)),
                         ("pickle", lambda: _pickle.loads(_pickle.dumps(x, protocol=rng.range(2, _pickle.HIGHEST_PROTOCOL))))):
            label = f"{route} of a {what} of a {kind}"
            try:
                y = f()
            except Exception as e:
                viol.append(("C06:route-raised", f"{label} raised {type(e).__name__}: {str(e)[:80]}"))
                continue
            if H.snapshot(src) != snap0:
                viol.append(("C06:source-changed-by-derivation", f"{label} changed the molecule"))
            fx, fy = fields(x), fields(y)
            if route == "evolve(label=…)":
                if y.label != "changed":
                    viol.append(("C06:copy-differs-from-source:fields", f"{label}: the change was not applied"))
                y.label = x.label
                fy = fields(y)
            if fx != fy or y.attrib != base_attr:
                viol.append(("C06:copy-differs-from-source:fields", f"{label}: fields or attributes differ"))
            sh = [p for p, c in (("attrib", y.attrib), ("attrib['p']", y.attrib.get("p")), ("attrib['p'][1]", (y.attrib.get("p") or [0, 0])[1]))
                  if any(c is d for d in (x.attrib, x.attrib["p"], x.attrib["p"][1]))]
            if sh:
                viol.append((f"C06:copy-shares-state:{component(sh[0])}", f"{label}: {sh} shared with the original"))
            y.attrib["p"].append("m")
            y.attrib["p"][1]["z"] = 1
            y.attrib["new"] = 1
            if x.attrib != base_attr or H.snapshot(src) != snap0:
                viol.append(("C06:source-changed-by-editing-copy:attrib", f"{label}: editing the copy changed the original"))
                x.attrib = _copy.deepcopy(base_attr)
            ctx.count(f"route=parts:{what}:{route}")
    return None, None, None, viol, tag


# ----------------------------------------------------------------------------------------------------------
# derive - edit the source - derive again, on the same source objects
# ----------------------------------------------------------------------------------------------------------
def case_rederive(ctx, route, kind, case_seed, mode=None):
    """route: ctor | pickle | deepcopy | cast | concat | join.  The result of the first derivation must not depend on what happens
    to the source afterwards, the second derivation must be faithful to the source AS IT IS THEN, and no derivation may leave
    anything (caches, marks) in its source: the full state of the source — instance attributes, slots, pickled bytes — is compared
    before and after every derivation."""
    import copy as _copy
    import pickle as _pickle

    import molli as ml

    rng = common.Prng(case_seed)
    mode = mode or rng.choice(["keep", "keep", "keep", "grow", "shrink", "bonds", "coords", "attrib"])
    tag = {"case": "rederive", "route": route, "kind": kind, "case_seed": case_seed, "mode": mode}
    viol = []
    ap = route == "join"
    nsrc = {"concat": rng.range(1, 3), "join": 2}.get(route, 1)
    srcs = [H.make_source(rng, kind, ml, ap=ap) for _ in range(nsrc)]
    pattern = list(range(nsrc)) + ([rng.below(nsrc)] if route == "concat" and rng.below(2) else [])
    target = rng.choice([c for c in H.CLASSES if c != ("Molecule" if kind == "Conformer" else kind)]) if route == "cast" else None
    aps = [s.atoms[-1] for s in srcs] if ap else []

    def derive():
        with warnings.catch_warnings():
            warnings.simplefilter("ignore")
            if route == "ctor":
                return ml.Molecule(srcs[0]) if kind == "Conformer" else type(srcs[0])(srcs[0])
            if route == "pickle":
                return _pickle.loads(_pickle.dumps(srcs[0]))
            if route == "deepcopy":
                return _copy.deepcopy(srcs[0])
            if route == "cast":
                return getattr(ml, target)(srcs[0])
            if route == "concat":
                return getattr(ml, kind).concatenate(*[srcs[i] for i in pattern])
            return getattr(ml, kind).join(srcs[0], srcs[1], aps[0], aps[1])

    def expected():
        sn = [H.snapshot(s) for s in srcs]
        if route in ("ctor", "pickle", "deepcopy"):
            return H.owned(sn[0])
        if route == "cast":
            shapes = H.target_shapes(kind, target, srcs[0].n_atoms, srcs[0].n_conformers if kind == "ConformerEnsemble" else None, {})
            return H.expected_cast(H.owned(sn[0]), kind, target, {}, shapes)
        if route == "concat":
            e = expected_concat([sn[i] for i in pattern])
            e["arrays"] = e["arrays"][: H.SLOTS[kind]]
            return e
        i1, i2 = (next(i for i, a in enumerate(s.atoms) if a is p) for s, p in zip(srcs, aps))
        e = expected_join(sn[0], sn[1], i1, i2)
        return e

    def faithful(res, label):
        rs, exp = H.snapshot(res), expected()
        if route == "join":
            ok = rs["atoms"] == exp["atoms"] and rs["bonds"][:-1] == exp["bonds"] and rs["bonds"][-1][:2] == exp["newbond"] and \
                (exp["charges"] is None or (len(rs["arrays"]) > 1 and tuple(rs["arrays"][1][2]) == tuple(exp["charges"][2])))
            d = [] if ok else ["atoms / bonds / charges"]
        elif route == "concat":
            d = [k for k in ("atoms", "bonds", "charge", "mult") if rs[k] != exp[k]]
            if [(a[0], tuple(a[1]), a[2]) for a in rs["arrays"]] != [(a[0], tuple(a[1]), a[2]) for a in exp["arrays"]]:
                d.append("arrays")
        else:
            d = H.snap_diff(exp, rs)
        if d:
            viol.append((f"C06:product-differs-from-sources:{'fields' if route in ('concat', 'join') else component(d[0])}",
                         f"{label}: the result is not the source as it is now: {d[:3]}"))

    def derivation(label):
        snaps = [H.snapshot(s) for s in srcs]
        hid = [H.hidden_state(s) for s in srcs]
        try:
            res = derive()
        except Exception as e:
            viol.append(("C06:route-raised", f"{label} raised {type(e).__name__}: {str(e)[:80]}"))
            return None
        for s, sn, h in zip(srcs, snaps, hid):
            if H.snapshot(s) != sn:
                viol.append(("C06:source-changed-by-derivation", f"{label} changed a source in {H.snap_diff(sn, H.snapshot(s))[:3]}"))
                break
            hd = H.hidden_diff(h, H.hidden_state(s))
            if hd:
                viol.append(("C06:derivation-left-state-in-source", f"{label} left something in its source: {hd}"))
                break
        faithful(res, label)
        return res

    base = f"{route}{'->' + target if target else ''} of {kind}{' ' + str(pattern) if route == 'concat' else ''}"
    r1 = derivation(base + " (first)")
    if r1 is None:
        return None, None, None, viol, tag
    r1_snap = H.snapshot(r1)
    edits = []
    protect = []
    if ap:
        for s, p in zip(srcs, aps):
            protect += [p] + list(s.connected_atoms(p))
    for s in srcs:
        if s is srcs[0] or rng.below(2):
            try:
                edits.append(H.count_edit(rng, s, ml, mode, protect))
            except Exception as e:
                edits.append(f"edit raised {type(e).__name__}")
    tag["edits"] = edits
    if H.snapshot(r1) != r1_snap:
        viol.append(("C06:copy-changed-by-editing-source:fields", f"{base}: the edit {edits} of the source changed the first result"))
    r2 = derivation(base + f" (again, after {edits})")
    if r2 is None:
        return None, None, None, viol, tag
    if H.snapshot(r1) != r1_snap:
        viol.append(("C06:copy-changed-by-editing-source:fields", f"{base}: deriving again changed the first result"))
    # the second derivation goes to the model as an ordinary request
    I, ids = H.Intern(), H.Ids()
    line = None
    try:
        if route in ("ctor", "pickle", "deepcopy"):
            enc = H.encode_mol(srcs[0], I, ids)
            line = f"copy {ids.count} {H.CLS_CODE[kind]} 0 0 - - - {enc}"
        elif route == "concat":
            enc = " ".join(H.encode_mol(srcs[i], I, ids) for i in pattern)
            line = f"concat {ids.count} {H.CLS_CODE[H.clsname(r2)]} 0 0 - - - {enc}"
        elif route == "join":
            enc = " ".join(H.encode_mol(s, I, ids) for s in srcs)
            i1, i2 = (next(i for i, a in enumerate(s.atoms) if a is p) for s, p in zip(srcs, aps))
            line = (f"join {ids.count} {H.CLS_CODE[H.clsname(r2)]} {i1} {i2} {H._ints(H.scalars_of(r2, I))} "
                    f"{H._ints(H.bond_fields(r2.bonds[-1], I))} {H._ints(H.array_codes(r2.coords, I))} {enc}")
        obs = H.obs_string(r2, I) if line else None
        shared = H.shared_paths(r2, srcs) if line else None
    except Exception:
        line, obs, shared = None, None, None
    sh = H.shared_paths(r2, srcs) + H.shared_paths(r2, [r1])
    if sh:
        viol.append((f"C06:copy-shares-state:{component(sh[0])}", f"{base} (again): {sh[:3]}"))
    return line, obs, shared, viol, tag


# ----------------------------------------------------------------------------------------------------------
# growing an ensemble from another one: extend / append (not one of the five routes of C06 — the ensemble histories of C14
# own these operations — but the sharing / independence oracles apply to them unchanged)
# ----------------------------------------------------------------------------------------------------------
def case_grow(ctx, case_seed):
    import molli as ml

    rng = common.Prng(case_seed)
    src = H.make_source(rng, "ConformerEnsemble", ml)
    tag = {"case": "grow", "kind": "ConformerEnsemble", "case_seed": case_seed}
    viol = []
    if src.n_atoms == 0 or src.n_conformers == 0:
        return None, None, None, viol, tag
    target_kind = rng.choice(["empty", "empty", "nonempty"])
    tgt = ml.ConformerEnsemble(ml.Connectivity(src)) if target_kind == "empty" else ml.ConformerEnsemble(src)
    what = rng.choice(["extend(ensemble)", "extend(list of molecules)", "extend(list of conformers)", "append(conformer)", "append(molecule)"])
    tag.update({"target": target_kind, "what": what})
    label = f"{what} onto an {target_kind} ensemble"
    snap0, hid0 = H.snapshot(src), H.hidden_state(src)
    k0 = tgt.n_conformers
    try:
        with warnings.catch_warnings():
            warnings.simplefilter("ignore")
            if what == "extend(ensemble)":
                tgt.extend(src); added = list(range(src.n_conformers))
            elif what == "extend(list of molecules)":
                tgt.extend([ml.Molecule(c) for c in src]); added = list(range(src.n_conformers))
            elif what == "extend(list of conformers)":
                tgt.extend([src[i] for i in range(src.n_conformers)]); added = list(range(src.n_conformers))
            elif what == "append(conformer)":
                i = rng.below(src.n_conformers); tgt.append(src[i]); added = [i]
            else:
                i = rng.below(src.n_conformers); tgt.append(ml.Molecule(src[i])); added = [i]
    except Exception as e:
        viol.append(("C06:route-raised", f"{label} raised {type(e).__name__}: {str(e)[:80]}"))
        return None, None, None, viol, tag
    if H.snapshot(src) != snap0:
        viol.append(("C06:source-changed-by-derivation", f"{label} changed its source"))
    hd = H.hidden_diff(hid0, H.hidden_state(src))
    if hd:
        viol.append(("C06:derivation-left-state-in-source", f"{label} left something in its source: {hd}"))
    if tgt.n_conformers != k0 + len(added) or not all(
            np.array_equal(np.asarray(tgt.coords[k0 + j]), np.asarray(src.coords[i])) for j, i in enumerate(added)):
        viol.append(("C06:product-differs-from-sources:arrays", f"{label}: the conformers added are not those of the source"))
    sh = [f"array{i} shares memory with source.array{j}" for i, r in enumerate(H.arrays_of(tgt)) for j, q in enumerate(H.arrays_of(src))
          if np.shares_memory(r, q)]
    if sh:
        viol.append(("C06:copy-shares-state:arrays", f"{label}: {sh[:3]}"))
    base = H.snapshot(tgt)
    for r in H.arrays_of(src):
        r[...] = r + 1.0
    if H.snapshot(tgt) != base:
        viol.append(("C06:copy-changed-by-editing-source:arrays", f"{label}: writing to the source's arrays changed the grown ensemble"))
    base = H.snapshot(src)
    for r in H.arrays_of(tgt):
        r[...] = r + 3.0
    if H.snapshot(src) != base:
        viol.append(("C06:source-changed-by-editing-copy:arrays", f"{label}: writing to the grown ensemble's arrays changed the source"))
    return None, None, None, viol, tag


def run_case(ctx, t):
    H.FORCE.clear()
    H.FORCE.update(t.get("force", []))
    try:
        return _run_case(ctx, t)
    finally:
        H.FORCE.clear()


def _run_case(ctx, t):
    c = t["case"]
    if c == "grow":
        return case_grow(ctx, t["case_seed"])
    if c == "rederive":
        return case_rederive(ctx, t["route"], t["kind"], t["case_seed"], t.get("mode"))
    if c == "parts":
        return case_parts(ctx, t["kind"], t["case_seed"])
    if c == "copy":
        return case_copy(ctx, t["kind"], t["route"], t["case_seed"])
    if c == "copyas":
        return case_copyas(ctx, t["kind"], t["target"], t["mode"], t["case_seed"], t.get("kw"))
    if c == "concat":
        pattern = t.get("pattern")
        if pattern is None and "same" in t:
            pattern = [0, 0] if t["same"] else [0, 1]
        return case_concat(ctx, t["kind"], t["case_seed"], pattern)
    if c == "join":
        return case_join(ctx, t["kind"], t["case_seed"])
    raise ValueError(c)


# ----------------------------------------------------------------------------------------------------------
def plan_round(rng):
    """one round of the route x kind x keyword matrix (every cell once, the random ones drawn per round)"""
    out = []
    def seed():
        return rng.next() >> 16
    for kind in H.KINDS:
        for route in COPY_ROUTES + ["shallow"]:
            out.append({"case": "copy", "kind": kind, "route": route, "case_seed": seed()})
        # the class's own copy constructor with EACH of its keyword overrides, then with two at once
        target = "Molecule" if kind == "Conformer" else kind
        names = H.keyword_names(target)
        for k in names:
            out.append({"case": "copyas", "kind": kind, "target": target, "mode": "kw", "case_seed": seed(), "kw": [k]})
        out.append({"case": "copyas", "kind": kind, "target": target, "mode": "kw", "case_seed": seed(),
                    "kw": [rng.choice(names), rng.choice(names)]})
        # copy construction into every other class, plain and with one keyword of the target
        for target in H.CLASSES:
            if target != ("Molecule" if kind == "Conformer" else kind):
                out.append({"case": "copyas", "kind": kind, "target": target, "mode": "cast", "case_seed": seed(), "kw": []})
                out.append({"case": "copyas", "kind": kind, "target": target, "mode": "cast", "case_seed": seed(),
                            "kw": [rng.choice(H.keyword_names(target))]})
        out.append({"case": "copyas", "kind": kind, "target": rng.choice(H.CLASSES), "mode": "atoms", "case_seed": seed()})
        out.append({"case": "parts", "kind": kind, "case_seed": seed()})
        for route in ("ctor", "pickle", "deepcopy", "cast"):
            out.append({"case": "rederive", "route": route, "kind": kind, "case_seed": seed()})
    out.append({"case": "copyas", "kind": "Molecule", "target": "ConformerEnsemble", "mode": "enslist", "case_seed": seed()})
    for _ in range(6):
        out.append({"case": "grow", "kind": "ConformerEnsemble", "case_seed": seed()})
    for kind in ("Structure", "Molecule"):
        for _ in range(4):
            out.append({"case": "concat", "kind": kind, "case_seed": seed()})
        out.append({"case": "concat", "kind": kind, "case_seed": seed(), "pattern": [0, 1, 2]})
        out.append({"case": "concat", "kind": kind, "case_seed": seed(), "pattern": [0, 1, 0, 2]})
        for _ in range(2):
            out.append({"case": "join", "kind": kind, "case_seed": seed()})
        for mode in ("keep", "keep", None, None):
            out.append({"case": "rederive", "route": "concat", "kind": kind, "case_seed": seed(), "mode": mode})
        for mode in ("keep", None):
            out.append({"case": "rederive", "route": "join", "kind": kind, "case_seed": seed(), "mode": mode})
    return out


def run(ctx):
    import molli as ml  # noqa: F401

    ctx.rule = ("random source objects (1..6 atoms, random bonds, elements, labels, isotopes, formal charges, nested attribute "
                "dictionaries on molecule / atoms / bonds up to depth 3 incl. one container referenced from several places, every field of atoms and bonds over its whole enum incl. falsy non-default values, duplicate and empty labels; bond graphs are random MULTIGRAPHS built through connect / append_bond / append_bonds / extend_bonds: atoms without bonds, 2..3 bonds between one pair in either orientation, a bond from an atom to itself, no atoms at all; coordinates, partial charges, weights; 12% dendrobine) of "
                "each of the 7 kinds x {copy constructor, pickle (protocols 2..5), deepcopy, copy.copy (source only)}; the copy "
                "constructor of every class applied to every kind (42 source/target pairs) with 0..2 of the keyword overrides name, "
                "charge (incl. 0), mult, attrib, coords, atomic_charges, weights, n_conformers, copy_atoms, n_atoms; Cls(list of atoms, "
                "copy_atoms=True); ConformerEnsemble(list of molecules); concatenate of 1..4 operands with repetitions and mixed "
                "operand classes (Structure, Molecule, Conformer), `a | b`; join with every keyword and the attachment points given as "
                "object / index / label. Per case: observation and aliasing compared with the model, snapshot oracle (source(s) before / "
                "after the derivation, result = sources + overrides), then every mutable component of one side is mutated and the other "
                "re-inspected, both ways. Non-trivial: the source has a nested attribute container or a bond; distinct by (route, kinds, keywords, source).")
    ctx.assumptions += [
        "CPython object model (identity, reference semantics, pickle memo) is modelled, not verified",
        "arrays are compared exactly (bit patterns); the coordinates of a join product are geometry (property C12) and are not compared",
        "molecule-level attributes and the name of a concatenate / join product are not claimed (the routes do not carry them)",
        "keyword overrides follow the constructors' own rule `value or source value` (a charge / mult override of 0 is ignored)",
    ]
    ctx.proof(props=["Molli.Props.C06"])

    cases = []   # (line, obs, shared, tag)
    seen = set()
    reps = 5 if ctx.quick() else 60
    plan = []
    cdir = common.VERIF / "corpus" / "C06"
    for p in sorted(cdir.glob("*.json")) if cdir.exists() else []:
        plan += [("corpus", t) for t in json.loads(p.read_text())]
    for _ in range(reps):
        plan += [("rand", t) for t in plan_round(ctx.rng)]

    for src, t in plan:
        ctx.check_deadline()
        line, obs, shared, viol, tag = run_case(ctx, t)
        nontrivial = bool(line) and ("c." in line or ("+" in line))
        ctx.case(json.dumps(tag, sort_keys=True) + (line or ""), nontrivial=nontrivial)
        ctx.count(f"source={src}")
        ctx.count(f"kind={t['kind']}")
        route = t.get("route") or (t["case"] + (":" + t["mode"] if "mode" in t else ""))
        ctx.count(f"route={route}")
        if t["case"] == "copyas":
            ctx.count(f"pair={t['kind']}->{t['target']}")
        for kwd in tag.get("keywords", []):
            ctx.count(f"keyword={route}:{kwd}")
        if "pattern" in tag:
            ctx.count(f"concat_operands={len(tag['pattern'])}:distinct={len(set(tag['pattern']))}")
        for k, what in viol:
            ctx.count(f"violation={k}")
            if k not in seen:
                seen.add(k)
                ctx.violation(k, what, tag)
        if line is not None and obs is not None:
            cases.append((line, obs, shared, tag))
        if len(ctx.samples) < 4 and nontrivial and src == "rand" and t["case"] != "copy":
            ctx.sample({"case": tag, "request": (line or "")[:400]})

    for k, v in H.FEATURES.items():
        ctx.count(k, v)
    outs = ctx.driver([c[0] for c in cases])
    for (line, obs, shared, tag), mout in zip(cases, outs):
        parts = dict(p.split("=", 1) for p in mout.split("#")) if "#" in mout else {}
        if not parts:
            ctx.disagree("driver rejected the request", tag, line[:300], mout)
            continue
        if parts.get("below") != "1":
            ctx.disagree("encoding error: a source identity is not below the counter", tag, line[:300], mout)
        if parts["obs"] != obs:
            ctx.disagree("observation of the result differs", tag, obs, parts["obs"])
        elif str(len(shared)) != parts["shared"]:
            ctx.disagree("aliasing with the source differs", tag, shared[:5], parts["shared"])
    ctx.extra_cov["driver_requests"] = len(cases)


def replay(ctx, path):
    obj = json.loads(Path(path).read_text())
    print(json.dumps(obj, indent=1)[:2500])
    t = obj.get("replay") or obj
    if "case" not in t:
        return 0

    class _C:
        def count(self, *a, **k):
            pass

    _, obs, shared, viol, _ = run_case(_C(), t)
    print("violations on the real code:", viol)
    print("shared objects:", shared)
    return 1 if viol else 0
