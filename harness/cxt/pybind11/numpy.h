// Minimal stand-in for <pybind11/numpy.h>: C-contiguous array_t with shape(), unchecked<N>(),
// mutable_unchecked<N>(); element access is bounds-checked (out-of-range accesses set shim_oob()).
#pragma once
#include "pybind11.h"
namespace pybind11 {
  struct array { enum { c_style = 1, forcecast = 16 }; };
  template <typename T, int ND> struct uproxy {
    const T* p; const std::vector<ssize_t>* shp; size_t n; const T* dummy;
    const T* at(ssize_t off, ssize_t need) const {
      if (off < 0 || (size_t)(off + need) > n) { shim_oob() = true; return dummy; }
      return p + off;
    }
    const T* data(ssize_t i, ssize_t j) const { return at(i*(*shp)[1] + j, (*shp)[1] - j); }
    const T* data(ssize_t i, ssize_t j, ssize_t k) const { return at((i*(*shp)[1] + j)*(*shp)[2] + k, (*shp)[2] - k); }
  };
  template <typename T, int ND> struct mproxy {
    T* p; const std::vector<ssize_t>* shp; size_t n; T* dummy;
    T& at(ssize_t off, bool ok) { if (!ok || off < 0 || (size_t)off >= n) { shim_oob() = true; return *dummy; } return p[off]; }
    T& operator()(ssize_t i, ssize_t j) { return at(i*(*shp)[1] + j, i < (*shp)[0] && j < (*shp)[1] && i >= 0 && j >= 0); }
    T& operator()(ssize_t i, ssize_t j, ssize_t k) {
      return at((i*(*shp)[1] + j)*(*shp)[2] + k, i >= 0 && j >= 0 && k >= 0 && i < (*shp)[0] && j < (*shp)[1] && k < (*shp)[2]); }
  };
  template <typename T, int F = 0> struct array_t {
    std::vector<ssize_t> shp; std::vector<T> buf; mutable T scratch[8] = {};
    array_t() {}
    array_t(std::initializer_list<ssize_t> s) : shp(s) { size_t n = 1; for (auto d : shp) n *= d; buf.resize(n); }
    array_t(const std::vector<ssize_t>& s) : shp(s) { size_t n = 1; for (auto d : shp) n *= d; buf.resize(n); }
    ssize_t shape(int i) const { return shp[i]; }
    ssize_t ndim() const { return (ssize_t)shp.size(); }
    template <int ND> uproxy<T, ND> unchecked() const { return {buf.data(), &shp, buf.size(), scratch}; }
    template <int ND> mproxy<T, ND> mutable_unchecked() { return {buf.data(), &shp, buf.size(), scratch}; }
  };
}
