// Minimal stand-in for <pybind11/pybind11.h>: just what molli_xt/distance.cpp and _molli_xt.hpp use.
// pybind11 headers are not installed in the sandbox; the real kernels are compiled against this shim
// so that the check follows edits of the working tree (DESIGN.md §6 C19, §10).
#pragma once
#include <vector>
#include <cstddef>
#include <initializer_list>
#include <sys/types.h>
namespace pybind11 {
  using ssize_t = ::ssize_t;
  struct gil_scoped_release { gil_scoped_release() {} };
  struct module_ { template <typename F> module_& def(const char*, F, const char* = nullptr) { return *this; } };
  // set when a kernel touches an element outside an array (the runner reports it instead of crashing)
  inline bool& shim_oob() { static bool flag = false; return flag; }
}
