// Runner for the distance kernels of the repository's working tree (property C19).
// Compiled at check time:  g++ -std=c++17 -O2 -ffp-contract=off -I harness/cxt -I $VERIF_REPO/molli_xt runner.cpp
// One request per input line:
//   <22|32> <f|d> <eu|eu2> <X> <L1> <L2> <hex bit patterns of arr1 (X*L1*3, X=1 for 22)> <hex bit patterns of arr2 (L2*3)>
// One response line:  <ndim> <shape...> <oob flag> <hex bit patterns of the result, C order>
#include "distance.cpp"
#include <cstdio>
#include <cstring>
#include <cstdint>
#include <iostream>
#include <sstream>
#include <string>

template <typename T> struct Bits;
template <> struct Bits<float> { using U = uint32_t; static constexpr int W = 8; };
template <> struct Bits<double> { using U = uint64_t; static constexpr int W = 16; };

template <typename T> static T from_hex(const std::string& s) {
  typename Bits<T>::U u = (typename Bits<T>::U)std::stoull(s, nullptr, 16);
  T v; std::memcpy(&v, &u, sizeof v); return v;
}
template <typename T> static void put_hex(T v) {
  typename Bits<T>::U u; std::memcpy(&u, &v, sizeof v);
  std::printf(" %0*llx", Bits<T>::W, (unsigned long long)u);
}

template <typename T> static bool run(int kind, const std::string& fn, ssize_t X, ssize_t L1, ssize_t L2, std::istringstream& in) {
  using namespace molli;
  carray<T> a = (kind == 22) ? carray<T>({L1, (ssize_t)3}) : carray<T>({X, L1, (ssize_t)3});
  carray<T> b({L2, (ssize_t)3});
  std::string tok;
  for (auto& v : a.buf) { if (!(in >> tok)) return false; v = from_hex<T>(tok); }
  for (auto& v : b.buf) { if (!(in >> tok)) return false; v = from_hex<T>(tok); }
  pybind11::shim_oob() = false;
  carray<T> r;
  if (kind == 22 && fn == "eu2") r = cdist22<T, euclidean2<T, 3>>(a, b);
  else if (kind == 22 && fn == "eu") r = cdist22<T, euclidean<T, 3>>(a, b);
  else if (kind == 32 && fn == "eu2") r = cdist32<T, euclidean2<T, 3>>(a, b);
  else if (kind == 32 && fn == "eu") r = cdist32<T, euclidean<T, 3>>(a, b);
  else return false;
  std::printf("%zd", r.shp.size());
  for (auto d : r.shp) std::printf(" %zd", (ssize_t)d);
  std::printf(" %d", pybind11::shim_oob() ? 1 : 0);
  for (auto v : r.buf) put_hex<T>(v);
  std::printf("\n");
  return true;
}

int main() {
  std::string line;
  while (std::getline(std::cin, line)) {
    std::istringstream in(line);
    int kind; std::string ty, fn; long X, L1, L2;
    if (!(in >> kind >> ty >> fn >> X >> L1 >> L2)) { std::printf("err\n"); continue; }
    bool ok = (ty == "f") ? run<float>(kind, fn, X, L1, L2, in) : run<double>(kind, fn, X, L1, L2, in);
    if (!ok) std::printf("err\n");
  }
  return 0;
}
